#!/usr/bin/env python3
"""One property check = proof step (Lean kernel + axiom audit) + correspondence (real crate vs Lean model)
+ search for a failing input (real crate vs Lean RFC spec).   See DESIGN.md section 2.4.

usage: check.py <Cxx> [--tier=quick|thorough] [--replay=<file>]
exit 0: property held on everything explored; exit 1: a line `VIOLATION property=<id> replay=<path>` was printed.
"""
import sys, os, json, time, subprocess, hashlib, collections, fcntl, re, shutil
sys.path.insert(0, os.path.join(os.path.dirname(os.path.abspath(__file__)), '..', 'lib'))
from common import *          # noqa
import suites                 # noqa


def main():
    args = [a for a in sys.argv[1:] if not a.startswith('--')]
    opts = dict(a[2:].split('=', 1) if '=' in a else (a[2:], '1') for a in sys.argv[1:] if a.startswith('--'))
    prop = args[0]
    tier = opts.get('tier', os.environ.get('VERIF_TIER', 'quick'))
    if tier not in ('quick', 'thorough'): tier = 'quick'
    try: seed = int(os.environ.get('VERIF_SEED', '1'))
    except ValueError: seed = 1
    t0 = time.time()
    os.makedirs(WORK, exist_ok=True); os.makedirs(os.path.join(ROOT, 'evidence', 'replays'), exist_ok=True)
    lockf = open(os.path.join(WORK, 'lock'), 'w'); fcntl.flock(lockf, fcntl.LOCK_EX)

    ctx = Ctx(prop, tier, seed, opts)
    log(f"[{prop}] tier={tier} seed={seed}")

    # 0. re-derive the grammar model from /repo's .pest
    gram = regen_grammar(ctx)
    # 1. proof step
    proof = proof_step(ctx, gram)
    # 2. harness against the current working tree
    ok, err = build_harness(ctx)
    if not ok:
        rp = write_replay(ctx, 'build', {'kind': 'repo-does-not-build', 'cargo_output': err})
        print(f"VIOLATION property={prop} replay={rp} no-failing-input-found")
        write_evidence(ctx, proof, None, t0, 1)
        sys.exit(1)
    if not proof['driver_ok']:
        rp = write_replay(ctx, 'model', {'kind': 'model-does-not-build', 'lake_output': proof['build_err'], 'grammar': gram})
        print(f"VIOLATION property={prop} replay={rp} no-failing-input-found")
        write_evidence(ctx, proof, None, t0, 1)
        sys.exit(1)

    oblig = source_obligations(ctx)
    ctx.oblig = oblig
    if oblig: log(f"[{prop}] source obligations broken: {json.dumps(oblig)[:600]}")
    # 3-5. suites: generate, run both sides, compare through the property's projection
    if 'replay' in opts:
        res = suites.replay(ctx, opts['replay'])
    else:
        res = suites.run(ctx, round_no=0)
        broken = proof['broken'] or proof['forbidden_hits'] or res.corr_fail or oblig
        if broken and not res.violations:
            # proof or correspondence broke and no failing input yet: widen the search (other seeds)
            for k in range(1, 4):
                log(f"[{prop}] widening search, round {k}")
                more = suites.run(ctx, round_no=k)
                res.merge(more)
                if res.violations: break

    # 6. known findings
    for kid, what in sorted(res.kf_seen.items()):
        print(f"KNOWN-FINDING: property={prop} {kid}: {what}")

    # 7. verdict
    rc = 0
    if res.violations:
        v = suites.minimise(ctx, res)
        rp = write_replay(ctx, v['hash'], v)
        print(f"VIOLATION property={prop} replay={rp}")
        rc = 1
    elif proof['broken'] or proof['forbidden_hits'] or res.corr_fail or gram.get('error') or oblig:
        what = {'kind': 'proof-or-correspondence-broken', 'property': prop,
                'broken_theorems': proof['broken'], 'forbidden_hits': proof['forbidden_hits'], 'grammar': gram,
                'lake_output': proof['build_err'], 'source_obligations_broken': oblig,
                'correspondence_failures': [dict(suite=c['suite'], case=c['case'], real=c['real'], model=c['model']) for c in res.corr_fail[:5]],
                'note': 'the named theorems / correspondence no longer check; the search (real crate vs RFC spec) found no failing input'}
        rp = write_replay(ctx, 'unshown', what)
        print(f"VIOLATION property={prop} replay={rp} no-failing-input-found")
        rc = 1
    write_evidence(ctx, proof, res, t0, len(res.violations))
    log(f"[{prop}] {json.dumps(dict(res.stats), sort_keys=True)}")
    log(f"[{prop}] exit {rc} in {time.time() - t0:.1f}s")
    sys.exit(rc)


if __name__ == '__main__':
    main()
