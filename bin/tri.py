#!/usr/bin/env python3
"""three-way comparison of eval cases: real vs Impl (correspondence) and real vs Spec (property), with class flags"""
import json, sys, collections, subprocess
from fractions import Fraction
def norm(x):
    if isinstance(x, dict):
        if 'f2' in x: m, e = x['f2']; return ('f', str(Fraction(int(m)) * Fraction(2) ** e))
        if 'f' in x and isinstance(x['f'], list): n, d = x['f']; return ('f', str(Fraction(int(n), int(d))))
        return {k: norm(v) for k, v in x.items()}
    if isinstance(x, list): return [norm(v) for v in x]
    return x
def key(o): return json.dumps(o, sort_keys=True, default=str)
def proj(r):
    if 'ok' not in r: return ('status', sorted(k for k in r if k in ('err','panic','illtyped')))
    return ('ok', [key((e['l'], e['v'])) for e in norm(r['ok'])])
casefile = sys.argv[1]
real = subprocess.run(['/tmp/vproto/harness/target/release/jpharness', 'eval'], stdin=open(casefile), capture_output=True, text=True).stdout.split('\n')[:-1]
model = subprocess.run(['/tmp/vproto/lean/.lake/build/bin/jpmodel', 'eval'], stdin=open(casefile), capture_output=True, text=True).stdout.split('\n')[:-1]
cases = open(casefile).read().split('\n')[:-1]
assert len(real) == len(model) == len(cases), (len(real), len(model), len(cases))
st = collections.Counter(); shown = collections.Counter()
for c, r, m in zip(cases, real, model):
    r = json.loads(r); m = json.loads(m); c = json.loads(c)
    st['cases'] += 1
    if 'spec' not in m:
        st['parse_reject_model'] += 1
        if 'ok' in r: st['CORR accept mismatch'] += 1
        continue
    fl = m['flags']
    if fl.get('regex_unsupported'): st['regex_unsupported'] += 1; continue
    pr, pi = proj(r), proj(m['impl'])
    if pr != pi:
        st['CORR diff'] += 1
        if shown['corr'] < 5: shown['corr'] += 1; print('CORR', c['q'], json.dumps(c['doc'], ensure_ascii=False)[:120], '\n   real', pr[1][:3] if pr[0]=='ok' else pr, '\n   impl', pi[1][:3] if pi[0]=='ok' else pi)
    if 'illtyped' in m['spec']:
        st['illtyped'] += 1
        if 'ok' in r: st['PROP illtyped accepted'] += 1
        continue
    ps = proj(m['spec'])
    if pr[0] == 'ok' and pr[1]: st['nonempty'] += 1
    if sorted(pr[1]) != sorted(ps[1]) or pr[0] != ps[0]:
        st['PROP multiset diff' + ('' if fl['escfree'] else ' (escapes)')] += 1
        if fl['escfree'] and shown['prop'] < 8: shown['prop'] += 1; print('PROP', c['q'], json.dumps(c['doc'], ensure_ascii=False)[:120], '\n   real', pr, '\n   spec', ps)
    elif pr != ps:
        st['PROP order diff' + (' (multisel)' if fl['multisel'] else '')] += 1
print(dict(st))
