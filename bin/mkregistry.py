#!/usr/bin/env python3
"""lean/theorems.json: property -> theorem modules and the theorems audited by the check (every `theorem` of Theorems/Cxx.lean
plus the core lemmas they rest on)"""
import json, re, os
ROOT = os.path.dirname(os.path.dirname(os.path.abspath(__file__)))
L = os.path.join(ROOT, 'lean')
def role(n):
    if 'refuted' in n: return 'refutation of the full statement (kernel-evaluated witness)'
    if 'partial' in n: return 'partial: full statement under an explicit decidable hypothesis'
    if 'characterised' in n: return 'characterisation of what the code computes instead'
    return 'proved for all inputs'
spec = {'C01': ('JP.C01', ['JP.query_perm', 'JP.result_paths', 'JP.parsed_ok', 'JP.parse_wellTyped']), 'C02': ('JP.C02', ['JP.query_ordered', 'JP.query_characterised', 'JP.query_ordered_sharp']),
        'C03': ('JP.C03', ['JP.result_paths']), 'C04': ('JP.C04', ['JP.cmpData_spec', 'JP.eqJson_spec']), 'C05': ('JP.C05', ['JP.flt_spec']),
        'C06': ('JP.C06', ['JP.Lex.int_spec', 'JP.Lex.member_name_shorthand_spec', 'JP.Lex.function_name_spec', 'JP.Lex.int_denotes', 'JP.Lex.number_denotes', 'JP.Lex.string_denotes']), 'C07': ('JP.C07', ['JP.Lex.int_spec', 'JP.Lex.member_name_shorthand_spec', 'JP.Lex.function_name_spec', 'JP.Lex.int_denotes', 'JP.Lex.number_denotes', 'JP.Lex.string_denotes', 'JP.parse_wellTyped', 'JP.builderWT', 'JP.tryNewFn_good', 'JP.parse_intsInRange', 'JP.builderRG']), 'C08': ('JP.C08', []), 'C09': ('JP.C09', []), 'C10': ('JP.C10', ['JP.Re.ends_sound', 'JP.Re.ends_complete', 'JP.Re.fuel_enough']),
        'C11': ('JP.C11T', ['JP.sliceIndices_spec', 'JP.implIndex_spec', 'JP.up_prog', 'JP.up_maximal', 'JP.slice_inRange']),
        'C12': ('JP.C12', []), 'C13': ('JP.C13', []), 'C14': ('JP.C14', []), 'C15': ('JP.C15', [])}
extra_files = json.load(open(os.path.join(L, 'theorem_extra.json'))) if os.path.exists(os.path.join(L, 'theorem_extra.json')) else {}
reg = {}
for p, (ns, extra) in spec.items():
    f = os.path.join(L, 'JsonPathVerif', 'Theorems', p + '.lean')
    if not os.path.exists(f): continue
    src = open(f).read()
    names = [f'{ns}.{m}' for m in re.findall(r'^theorem (\w+)', src, re.M)] + list(extra) + extra_files.get(p, [])
    seen = []; [seen.append(n) for n in names if n not in seen]
    reg[p] = {'modules': [f'JsonPathVerif.Theorems.{p}'], 'theorems': [{'name': n, 'role': role(n)} for n in seen]}
json.dump(reg, open(os.path.join(L, 'theorems.json'), 'w'), indent=1)
print({k: len(v['theorems']) for k, v in reg.items()})
