#!/usr/bin/env python3
"""seeded/<id>/meta.json from meta.txt (written by the sub-agent) and result.json (written by bin/seedtest.py); seeded/MATRIX.md"""
import json, os, glob
ROOT = os.path.dirname(os.path.dirname(os.path.abspath(__file__)))
rows = []
for d in sorted(glob.glob(os.path.join(ROOT, 'seeded', 'C*_*'))):
    sid = os.path.basename(d); prop = sid.split('_')[0]
    txt = open(os.path.join(d, 'meta.txt')).read().strip() if os.path.exists(os.path.join(d, 'meta.txt')) else ''
    res = json.load(open(os.path.join(d, 'result.json'))) if os.path.exists(os.path.join(d, 'result.json')) else {}
    full = os.path.join(ROOT, '.work', f'result_{sid}.json')
    if os.path.exists(full):
        fr = json.load(open(full))
        if len(fr.get('checks', {})) > len(res.get('checks', {})): res = {**fr, 'confirm': res.get('confirm') or fr.get('confirm')}
    checks = res.get('checks', {})
    det = sorted(p for p, v in checks.items() if v.get('rc'))
    target = checks.get(prop, {})
    meta = {
        'id': sid, 'breaks_property': prop,
        'origin': 'written by a sub-agent that was given only the text of the property and a scratch git worktree of /repo (nothing from /verif)',
        'what_it_changes_and_what_it_needs_to_manifest': txt,
        'confirmed': {'how': 'bin/seedtest.py --confirm <scratch worktree>: patch applies to the clean tree; cargo test --offline passes 94 unit tests + doc tests '
                             'with it; tests/demo.rs fails with it and passes without it', 'result': res.get('confirm')},
        'ran': 'git -C /repo apply patch.diff; bin/check <property> (quick tier) for the checks listed; git -C /repo checkout -- .',
        'checks_run': sorted(checks), 'detected_by': det,
        'target_check': {'property': prop, 'reported': bool(target.get('rc')), 'violation_line': target.get('violation'), 'replay_summary': target.get('replay')},
    }
    json.dump(meta, open(os.path.join(d, 'meta.json'), 'w'), indent=1, ensure_ascii=False)
    rows.append((sid, prop, bool(target.get('rc')), det, len(checks)))
with open(os.path.join(ROOT, 'seeded', 'MATRIX.md'), 'w') as f:
    f.write('# Seeded changes x checks\n\nEach row: a change that breaks the property named by its id while compiling and passing the 94 tests. '
            '"checks run" is how many property checks were run against it in the recorded run (all 15 for regression-matrix runs, '
            'the target check only for the first confirmation).\n\n| seed | target check reports it | reported by | checks run |\n|---|---|---|---|\n')
    for sid, prop, ok, det, n in rows:
        f.write(f"| {sid} | {'yes' if ok else 'NO'} | {', '.join(det)} | {n} |\n")
print(len(rows), 'seeds;', sum(1 for r in rows if r[2]), 'reported by their target check')
