#!/usr/bin/env python3
"""Self-test of the checks against a seeded change: seedtest.py <seed_dir> [--confirm <worktree>] [props...]
 --confirm <worktree>: first confirm the seed in a scratch worktree (94 tests pass with it, demo fails with it, passes without)
 then: git -C /repo apply patch.diff; run the checks; git -C /repo checkout -- . ; print which checks raised a VIOLATION."""
import sys, os, subprocess, json, shutil, re
ROOT = os.path.dirname(os.path.dirname(os.path.abspath(__file__)))
def sh(cmd, cwd=None, timeout=3600):
    return subprocess.run(cmd, shell=isinstance(cmd, str), cwd=cwd, capture_output=True, text=True, timeout=timeout)
args = sys.argv[1:]
seed = os.path.abspath(args.pop(0))
wt = None
if args and args[0] == '--confirm': args.pop(0); wt = args.pop(0)
iso = None
if args and args[0] == '--isolated':
    # regression runs: apply the change in a scratch worktree and point the checks at it (JP_REPO); /repo is not touched
    args.pop(0); iso = '/tmp/wt_seed_' + os.path.basename(seed)
    sh(['git', '-C', '/repo', 'worktree', 'remove', '--force', iso]); sh(['git', '-C', '/repo', 'worktree', 'add', iso, 'HEAD'])
props = args or [c['property_id'] for c in json.load(open(os.path.join(ROOT, 'MANIFEST.json')))['checks']]
patch = os.path.join(seed, 'patch.diff')
out = {'seed': seed, 'confirm': None, 'checks': {}}
if wt:
    c = {}
    sh('git checkout -- . && git clean -fdq -e target', cwd=wt)
    r = sh(['git', 'apply', patch], cwd=wt); c['apply_rc'] = r.returncode
    t = sh('cargo test --offline 2>&1', cwd=wt); m = re.findall(r'test result: (\w+)\. (\d+) passed; (\d+) failed', t.stdout)
    c['suite_with_change'] = m
    os.makedirs(os.path.join(wt, 'tests'), exist_ok=True)
    shutil.copy(os.path.join(seed, 'demo.rs'), os.path.join(wt, 'tests', 'demo.rs'))
    d = sh('cargo test --offline --test demo 2>&1', cwd=wt); c['demo_with_change_rc'] = d.returncode
    sh('git checkout -- src', cwd=wt)
    d2 = sh('cargo test --offline --test demo 2>&1', cwd=wt); c['demo_without_change_rc'] = d2.returncode
    shutil.rmtree(os.path.join(wt, 'tests'))
    sh('git checkout -- . && git clean -fdq -e target', cwd=wt)
    c['ok'] = (c['apply_rc'] == 0 and len(m) >= 1 and all(x[0] == 'ok' for x in m) and int(m[0][1]) == 94
               and c['demo_with_change_rc'] != 0 and c['demo_without_change_rc'] == 0)
    out['confirm'] = c
    print('confirm:', json.dumps(c))
    if not c['ok']:
        print(json.dumps(out, indent=1)); sys.exit(2)
REPO = iso or '/repo'
if iso: os.environ['JP_REPO'] = iso
st = sh(['git', '-C', REPO, 'status', '--porcelain', '--untracked-files=no']).stdout.strip()
if st: print('refusing: ' + REPO + ' has local changes:\n' + st); sys.exit(3)
try:
    r = sh(['git', '-C', REPO, 'apply', patch])
    if r.returncode != 0: print('apply failed', r.stderr); sys.exit(4)
    for p in props:
        r = sh([os.path.join(ROOT, 'bin', 'check'), p], timeout=3600)
        viol = [l for l in r.stdout.splitlines() if l.startswith('VIOLATION')]
        out['checks'][p] = {'rc': r.returncode, 'violation': viol[0] if viol else None}
        rep = None
        if viol:
            m = re.search(r'replay=(\S+)', viol[0])
            if m and os.path.exists(m.group(1)):
                rp = json.load(open(m.group(1)))
                rep = {'why': rp.get('why'), 'suite': rp.get('suite'), 'case': rp.get('case'), 'kind': rp.get('kind'), 'broken_theorems': rp.get('broken_theorems')}
                out['checks'][p]['replay'] = rep
        print(p, 'rc=%d' % r.returncode, (viol[0] if viol else ''), json.dumps(rep, ensure_ascii=False)[:300] if rep else '')
finally:
    sh(['git', '-C', REPO, 'checkout', '--', '.'])
    if iso: sh(['git', '-C', '/repo', 'worktree', 'remove', '--force', iso]); os.environ.pop('JP_REPO')
    # put the grammar model back in sync with the (restored) repository
    g = sh(['python3', os.path.join(ROOT, 'gen', 'pest2lean.py'), '/repo/src/parser/grammar/json_path_9535.pest', 'JP', 'JsonPathVerif'])
    dst = os.path.join(ROOT, 'lean', 'JsonPathVerif', 'PestGrammar.lean')
    if g.returncode == 0 and g.stdout != open(dst).read(): open(dst, 'w').write(g.stdout)
out['detected_by'] = [p for p, v in out['checks'].items() if v['rc'] != 0]
json.dump(out, open(os.path.join(seed, 'result.json'), 'w'), indent=1, ensure_ascii=False)
print('DETECTED BY:', out['detected_by'])
