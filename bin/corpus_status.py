#!/usr/bin/env python3
"""which regression-corpus cases does the real crate currently fail? (diagnostic used when triaging fixes)"""
import sys, os, json
sys.path.insert(0, os.path.join(os.path.dirname(os.path.abspath(__file__)), '..', 'lib'))
from common import *
import suites
class O: pass
ctx = Ctx('C01', 'quick', 1, {})
build_harness(ctx)
lines = suites.corpus_lines('eval.jsonl')
real = run_lines(HBIN, 'eval', lines); model = run_lines(MBIN, 'eval', lines)
for ln, r, m in zip(lines, real, model):
    c = json.loads(ln); r = json.loads(r); m = json.loads(m)
    ctx.prop = 'C02'
    j = suites.judge_eval(ctx, c, r, m)
    print('eval ', f"{j['verdict']:6}", 'corr-diff' if j['corr'] else '         ', c['note'][:60], '|', c['q'])
ps = suites.corpus_lines_raw('parse.txt')
real = run_lines(HBIN, 'parse', ps); model = run_lines(MBIN, 'parse', ps)
for s, r, m in zip(ps, real, model):
    r = json.loads(r); m = json.loads(m)
    acc = 'ok' in r
    bad = (m['rfc'] == 'valid' and not acc) or (m['rfc'] == 'invalid' and acc) or 'panic' in r
    if bad or norm(r) != norm(m['impl']): print('parse', 'VIOL  ' if bad else 'ok    ', 'corr-diff' if norm(r) != norm(m['impl']) else '         ', m['rfc'], 'accepted' if acc else 'rejected', repr(s))
rl = suites.corpus_lines('ref.jsonl')
real = run_lines(HBIN, 'ref', rl); model = run_lines(MBIN, 'ref', rl)
ctx.prop = 'C09'; ctx.my_kf = [k for k in ctx.kf['open'] if 'C09' in k['affects']]
for ln, r, m in zip(rl, real, model):
    c = json.loads(ln); r = json.loads(r); m = json.loads(m)
    j = suites.judge_ref(ctx, c, r, m)
    if j['verdict'] != 'ok' or j['corr']: print('ref  ', j['verdict'], 'corr-diff' if j['corr'] else '', c['path'], json.dumps(c['doc']))
