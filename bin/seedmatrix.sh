#!/bin/sh
# regression: every seeded change against every check, isolated from /repo (scratch worktrees + JP_REPO)
cd "$(dirname "$0")/.."
bin/setup.sh >/dev/null 2>&1
for d in seeded/*/; do s=$(basename $d); echo "######## $s"; python3 bin/seedtest.py seeded/$s --isolated "$@" 2>&1 | grep -E "DETECTED|rc=1" | cut -c1-200; cp seeded/$s/result.json /verif/.work/result_$s.json; done
