#!/bin/sh
# Build the framework from files on disk only (offline): Lean model + proofs + driver, Rust harness against /repo.
set -e
cd "$(dirname "$0")/.."
mkdir -p .work evidence/replays
export CARGO_NET_OFFLINE=true
python3 gen/pest2lean.py "${JP_REPO:-/repo}/src/parser/grammar/json_path_9535.pest" JP JsonPathVerif > .work/PestGrammar.lean.new
if ! cmp -s .work/PestGrammar.lean.new lean/JsonPathVerif/PestGrammar.lean; then cp .work/PestGrammar.lean.new lean/JsonPathVerif/PestGrammar.lean; fi
(cd lean && lake build JsonPathVerif jpmodel)
sed -i "s#path = \"[^\"]*\"#path = \"${JP_REPO:-/repo}\"#" harness/Cargo.toml
[ -f harness/Cargo.lock ] || { [ -f "${JP_REPO:-/repo}/Cargo.lock" ] && cp "${JP_REPO:-/repo}/Cargo.lock" harness/Cargo.lock; } || true
(cd harness && cargo build --release --offline)
echo setup-ok
