#!/bin/sh
# regression: every seeded change of the given properties against the check of its own property, isolated from /repo
# usage: bin/seedregress.sh C04 C05 ...   (results: .work/regress_<seed>.txt, summary on stdout)
cd "$(dirname "$0")/.."
bin/setup.sh >/dev/null 2>&1
for p in "$@"; do
  for d in seeded/${p}_*/; do
    s=$(basename $d)
    out=$(python3 bin/seedtest.py seeded/$s --isolated $p 2>&1 | grep -E "DETECTED" )
    echo "$s $out"
  done
done
