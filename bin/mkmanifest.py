#!/usr/bin/env python3
"""writes MANIFEST.json from the table below (kept in one place so that texts stay consistent with DESIGN.md)"""
import json, os
ROOT = os.path.dirname(os.path.dirname(os.path.abspath(__file__)))
NOTE = ("Trusted: Lean 4.33 kernel (axioms audited on every run: propext, Classical.choice, Quot.sound only; no sorry/native_decide); Spec.*/Rfc.* as a reading of "
        "RFC 9535; the hand-written model Impl.* is tied to /repo only by the behavioural correspondence run by this check (differential testing through the "
        "property's projection, sampling not proof); pest grammar model regenerated from /repo's .pest by gen/pest2lean.py on every run; f64 rounding, the regex "
        "crate, serde_json, pest's engine are modelled (DESIGN 3.6, 7).")
P = {
 'C01': ("theorems query_perm/C01_partial: for every query whose names/literals are escape-free and whose function calls are well-typed, and every document, the model's "
         "result is a permutation of the RFC nodelist (multiset of (location,value)); C01_parsed: the same END TO END for every query STRING the parser model accepts that is "
         "escape-free and of plain shape (typing discharged by parse_wellTyped); C01_borrow/result_paths: every result is the node at its location. C01_refuted: the full "
         "statement is false (escapes are never decoded; pinned by unit tests) - open known finding. Correspondence: real crate = model on (address-derived location, value) "
         "multisets, on parser ASTs and on programmatically built ASTs; search oracle Spec.query on an RFC parse independent of the pest model.", "5.1",
         "refinement proof Impl=Spec (mutual induction over AST and JSON) + differential correspondence"),
 'C02': ("C02_partial/query_ordered: list equality with the RFC order for every query without a multi-selector segment at top level (filters unconstrained); "
         "C02_refuted: selector-major union order (`$[*][0,1]`), pinned by index_unit_keys_test - open known finding, class = multi-selector segment receiving >= 2 nodes. "
         "Correspondence on ordered address-derived locations; a member-order suite runs a Queryable type whose objects keep their members in reverse name order against "
         "the model on the reordered document; entry points must not differ in order.", "5.2", "refinement proof (ordered) + kernel-checked refutation + correspondence"),
 'C03': ("C03a_partial/result_paths: for documents with plain member names and normalized name selectors every reported path is Spec.npath of the node's location and the "
         "node lives there; C03a_refuted (`$[\"a\"]` -> `$['\"a\"']`). C03b_injective/C03b_decodable: for ALL locations (arbitrary member names) the Normalized Path determines "
         "the node. C03c_ast: the AST of a Normalized Path, run as a query, returns exactly that node with that path. Re-query of every reported path on the real crate, "
         "and path recomputation from address-derived locations, by correspondence.", "5.3", "pointer-invariant proof + refutation + correspondence incl. re-query"),
 'C04': ("cmpData_spec: the six operators on evaluated operands equal the RFC comparison (== and < primitive, others derived), eqJson_spec: JSON equality = RFC equality "
         "(numbers by exact value, containers structurally); derived-operator laws by rfl; trichotomy; C04_literals_representable: for ALL strings the number literals of an accepted query are integers in the I-JSON "
         "range or decimals that round to a finite double. Correspondence: operand-pair table x 6 operators x operand forms, containers of 47-130 members, quote-enclosed member "
         "names, operands with colliding texts, i64 integers beyond 2^53, doubles one ulp apart.", "5.4",
         "proof by case analysis + mutual induction on Json; exhaustive operand table"),
 'C05': ("flt_spec/C05_logical: truth value computed for a child = RFC truth value of the logical expression for all well-formed filters (any nesting); C05_children: a filter "
         "selector keeps exactly the children satisfying it, in order; existence independent of the value; $ denotes the root.", "5.5",
         "mutual induction over the filter AST + correspondence on formulas x valuations"),
 'C06': ("On the grammar model REGENERATED from /repo's .pest on each run: the token rules int, number, string, member_name_shorthand, function_name accept every lexeme of "
         "the RFC token grammar (RfcLex, transcribed from Appendix A: all number formats, both quote styles, all escapes incl. lower-case hex and surrogate pairs), in "
         "every parsing context (PEG denotation framework). The full statement C06_statement is not proved; the segment/filter skeleton is decided by correspondence "
         "(real parser = model parser) and oracle search (ABNF recogniser + validity) over ABNF-derived sentences, syntax look-alike string bodies and long queries (repetition at every starred "
         "position of the ABNF, up to 3 000 / 10 000 elements, judged by the oracle on the long string).", "5.6", "layered proof on translated grammar + ABNF-oracle differential search"),
 'C07': ("Conversely the token rules accept NOTHING but RFC tokens (no blanks inside, leading zeros, -0, lone surrogates, bad escapes). For ALL strings and all pair "
         "trees: C07_partial_typing (an accepted query is well-typed per RFC 2.4.3) and C07_partial_int_range (its selector/slice/singular-query integers are in the "
         "I-JSON range); C07_partial_outer_blanks (a blank before `$` or after the last segment is rejected, whatever lies between). Full statement not proved; single-edit mutants of valid sentences are classified by the ABNF+validity oracle and must be rejected by the real parser.", "5.7", "layered proof on translated grammar + mutant search"),
 'C08': ("eval_never_err (and parsed_never_errs on strings); slice loops are well-founded recursions, slice_iterations_bounded <= len; slice_no_overflow/index_no_overflow: "
         "with every i64 operation checked, no overflow for integers in the I-JSON range and lengths <= 2^62. Panics/aborts/timeouts of the real code are observed by "
         "isolated workers (overflow checks on): integer extremes, programmatically built ASTs, multi-byte text next to syntax errors, long queries, and ladders run on an "
         "UNOPTIMISED second build: nesting, 19 wide-document shapes (up to 200 000 / 10^6 elements), documents nested 1 000 / 10 000 (30 000) levels built in code, "
         "long paths, comparisons nested 40 levels inside count()/value(); regex patterns of every shape (crashes only). Open known findings: document nesting of thousands of levels exhausts the stack in descendant walks and deep equality; stack exhaustion at 10^3-10^4 nested "
         "parentheses; exponential backtracking on nested function calls with an unparsable innermost argument.", "5.8",
         "totality + invariants in Lean; runtime faults by isolated-worker correspondence"),
 'C09': ("walk_spec/put_get/frame: lens laws of reference/reference_mut over name/index steps for all documents, step lists and values; the string->steps link (parser on "
         "Normalized Paths) is carried by correspondence on the Normalized Path of every node of generated documents, on paths fed back from queries, on update sequences, and on "
         "paths of up to 6 000 (10 000) segments into documents built in code.", "5.9", "structural induction (lens laws) + correspondence"),
 'C10': ("length/count/value = RFC definitions for all arguments (length_spec, count_spec, value_spec, fn_value, fn_logical relative to a regex engine); match/search: the model's matcher is proved to decide "
         "the textbook semantics (matcher_decides: sound, complete, fuel sufficient; match_is_whole_string: the anchored expression matches iff the ENTIRE string is in the "
         "language; search_is_some_substring: iff some substring is). Partial in one respect: the dialect parser (pattern text -> expression) and the claim that the regex "
         "crate computes the same are validated by correspondence, not proved.", "5.10", "proof for value functions and for the matcher against an inductive language definition; correspondence with the regex crate"),
 'C11': ("sliceIndices_spec: model of the Rust slice loops = RFC 9535 2.3.4.2.2 pseudocode for ALL start/end/step/len; implIndex_spec; in-range, progression, maximality, "
         "step 0 = empty. Exhaustive correspondence over bounds x lengths + extremes.", "5.11", "fun_induction + omega; exhaustive small-scope correspondence"),
 'C12': ("Thin theorem: the model's entry points are projections of one result, parse-once = parse-each, a session over the model is stateless. Purity of the REAL code "
         "is carried by (i) a source obligation checked on the text of /repo/src at every run: no mutable static, thread-local, interior mutability, unsafe, clock, "
         "environment or file access - safe Rust without these is a function of its arguments; (ii) the history/thread correspondence (sequences, repetitions, fresh-process "
         "reference, N threads on shared Arc, document snapshot, query/query_only_path/parsed-once agreement with query_with_path on every evaluated case). Labelled partial: data races and address-keyed caches cannot be exhibited by the model.", "5.12", "projection theorems + history/thread differential runs"),
 'C13': ("name_spellings: all escape-free spellings of a member name select the same node; number_spellings: int/float spellings compare alike under all operators; "
         "same_spec_same_nodes. String-level blank-space invariance by metamorphic correspondence (6 spellings per abstract query).", "5.13",
         "AST-level proof + metamorphic correspondence"),
 'C15': ("theorem C15: for ANY type with a Queryable structure and ANY faithful view into JSON (every trait accessor commutes with the view), the accessor-only "
         "transcription of the evaluator (EvalG: selectors, descendants, unions, nested filters, comparisons, deep equality, all functions) returns position by "
         "position the same paths/locations and the views of the values that the Json evaluator returns on the viewed document; instantiated at Json it shows "
         "EvalG = Eval. Correspondence: the same cases through serde_json::Value and through a second Queryable type in the harness (Vec-backed members, separate "
         "unsigned variant, lossy Debug, no reference override; variants with PartialEq by value, with members in reverse name order - judged against the model on the "
         "reordered document - and with equal member values stored once and shared through Rc).", "5.15", "simulation proof over a trait-generic model + second-implementation differential run"),
 'C14': ("in/nin/any_of/none_of/subset_of equal the list-membership definitions for all arguments (w.r.t. the data type's ==); complement laws; non-array/missing -> false.", "5.14",
         "direct proof by simp on the model + correspondence"),
}
checks = []
for p, (text, ref, tech) in P.items():
    checks.append({
        'property_id': p, 'quick_cmd': f'bin/check {p} --tier=quick', 'thorough_cmd': f'bin/check {p} --tier=thorough',
        'evidence_file': f'/verif/evidence/{p}.json', 'replay_cmd_template': f'bin/check {p} --replay={{path}}', 'engine': 'lean-model+correspondence',
        'level_claimed': {'category': 'proof', 'text': text, 'design_ref': 'DESIGN.md section ' + ref}, 'level_note': NOTE, 'technique': 'Lean 4 machine-checked proof: ' + tech})
na = json.load(open(os.path.join(ROOT, 'bin', 'not_applicable.json')))
m = {'version': 1, 'setup_cmd': 'bin/setup.sh',
     'hooks': {'guard': 'jsonpath_rust_verif', 'enable': 'none needed: the harness uses only public API of the crate (no hook commits)',
               'baseline_off_cmd': 'cd /repo && cargo test --workspace --no-fail-fast --offline', 'source_commits': [], 'add_only': True},
     'engines': [{'name': 'lean-model+correspondence', 'path': 'bin/check.py', 'serves_properties': list(P), 'kind_free_text':
                  'Lean 4 model (Impl) + RFC spec (Spec) + theorems; Rust harness on the working tree; compiled Lean driver; generators; orchestrator'}],
     'checks': [c for c in checks if c['property_id'] not in [n['property_id'] for n in na]],
     'not_applicable': na,
     'notes': 'See DESIGN.md. known_findings.json lists open genuine defects (printed as KNOWN-FINDING lines) and fixed ones.'}
json.dump(m, open(os.path.join(ROOT, 'MANIFEST.json'), 'w'), indent=1)
print('checks:', [c['property_id'] for c in m['checks']])
