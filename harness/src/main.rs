use jsonpath_rust::parser::model::*;
use jsonpath_rust::parser::parse_json_path;
use jsonpath_rust::JsonPath;
use jsonpath_rust::query::queryable::Queryable;
use jsonpath_rust::query::js_path_process;
use serde_json::Value;
use std::io::{BufRead, Write};

fn cps(s: &str) -> String {
    let v: Vec<String> = s.chars().map(|c| (c as u32).to_string()).collect();
    format!("[{}]", v.join(","))
}
fn lit(l: &Literal) -> String {
    match l {
        Literal::Int(i) => format!("{{\"i\":\"{}\"}}", i),
        Literal::Float(f) => {
            if f.is_nan() { "{\"fl\":\"nan\"}".into() }
            else if f.is_infinite() { format!("{{\"fl\":\"{}inf\"}}", if *f < 0.0 {"-"} else {""}) }
            else {
                // exact m * 2^e
                let bits = f.to_bits();
                let sign = if bits >> 63 == 1 { -1i128 } else { 1 };
                let exp = ((bits >> 52) & 0x7ff) as i64;
                let frac = (bits & 0xfffffffffffff) as i128;
                let (m, e) = if exp == 0 { (frac, -1074i64) } else { (frac | (1i128 << 52), exp - 1075) };
                format!("{{\"fl\":[\"{}\",{}]}}", sign * m, e)
            }
        }
        Literal::String(s) => format!("{{\"s\":{}}}", cps(s)),
        Literal::Bool(b) => format!("{{\"b\":{}}}", b),
        Literal::Null => "null".into(),
    }
}
fn seg(s: &Segment) -> String {
    match s {
        Segment::Descendant(i) => format!("{{\"D\":{}}}", seg(i)),
        Segment::Selector(s) => format!("{{\"S\":{}}}", sel(s)),
        Segment::Selectors(ss) => format!("{{\"SS\":[{}]}}", ss.iter().map(sel).collect::<Vec<_>>().join(",")),
    }
}
fn oi(o: &Option<i64>) -> String { match o { Some(i) => format!("\"{}\"", i), None => "null".into() } }
fn sel(s: &Selector) -> String {
    match s {
        Selector::Name(n) => format!("{{\"N\":{}}}", cps(n)),
        Selector::Wildcard => "\"W\"".into(),
        Selector::Index(i) => format!("{{\"I\":\"{}\"}}", i),
        Selector::Slice(a, b, c) => format!("{{\"L\":[{},{},{}]}}", oi(a), oi(b), oi(c)),
        Selector::Filter(f) => format!("{{\"F\":{}}}", flt(f)),
    }
}
fn flt(f: &Filter) -> String {
    match f {
        Filter::Or(fs) => format!("{{\"or\":[{}]}}", fs.iter().map(flt).collect::<Vec<_>>().join(",")),
        Filter::And(fs) => format!("{{\"and\":[{}]}}", fs.iter().map(flt).collect::<Vec<_>>().join(",")),
        Filter::Atom(a) => format!("{{\"atom\":{}}}", atom(a)),
    }
}
fn atom(a: &FilterAtom) -> String {
    match a {
        FilterAtom::Filter { expr, not } => format!("{{\"f\":{},\"not\":{}}}", flt(expr), not),
        FilterAtom::Test { expr, not } => format!("{{\"t\":{},\"not\":{}}}", test(expr), not),
        FilterAtom::Comparison(c) => {
            let (op, l, r) = match &**c {
                Comparison::Eq(l, r) => ("==", l, r), Comparison::Ne(l, r) => ("!=", l, r),
                Comparison::Gt(l, r) => (">", l, r), Comparison::Gte(l, r) => (">=", l, r),
                Comparison::Lt(l, r) => ("<", l, r), Comparison::Lte(l, r) => ("<=", l, r),
            };
            format!("{{\"c\":[\"{}\",{},{}]}}", op, cmpb(l), cmpb(r))
        }
    }
}
fn cmpb(c: &Comparable) -> String {
    match c {
        Comparable::Literal(l) => format!("{{\"lit\":{}}}", lit(l)),
        Comparable::Function(f) => format!("{{\"fn\":{}}}", func(f)),
        Comparable::SingularQuery(q) => {
            let (k, segs) = match q { SingularQuery::Current(s) => ("@", s), SingularQuery::Root(s) => ("$", s) };
            let ss: Vec<String> = segs.iter().map(|s| match s {
                SingularQuerySegment::Index(i) => format!("{{\"I\":\"{}\"}}", i),
                SingularQuerySegment::Name(n) => format!("{{\"N\":{}}}", cps(n)),
            }).collect();
            format!("{{\"sq\":[\"{}\",[{}]]}}", k, ss.join(","))
        }
    }
}
fn test(t: &Test) -> String {
    match t {
        Test::RelQuery(s) => format!("{{\"rel\":[{}]}}", s.iter().map(seg).collect::<Vec<_>>().join(",")),
        Test::AbsQuery(q) => format!("{{\"abs\":[{}]}}", q.segments.iter().map(seg).collect::<Vec<_>>().join(",")),
        Test::Function(f) => format!("{{\"fn\":{}}}", func(f)),
    }
}
fn arg(a: &FnArg) -> String {
    match a {
        FnArg::Literal(l) => format!("{{\"lit\":{}}}", lit(l)),
        FnArg::Test(t) => format!("{{\"t\":{}}}", test(t)),
        FnArg::Filter(f) => format!("{{\"f\":{}}}", flt(f)),
    }
}
fn func(f: &TestFunction) -> String {
    let (n, args): (String, Vec<&FnArg>) = match f {
        TestFunction::Custom(n, a) => (format!("custom:{}", n), a.iter().collect()),
        TestFunction::Length(a) => ("length".into(), vec![&**a]),
        TestFunction::Value(a) => ("value".into(), vec![a]),
        TestFunction::Count(a) => ("count".into(), vec![a]),
        TestFunction::Search(a, b) => ("search".into(), vec![a, b]),
        TestFunction::Match(a, b) => ("match".into(), vec![a, b]),
    };
    format!("{{\"name\":{},\"args\":[{}]}}", cps(&n), args.iter().map(|a| arg(a)).collect::<Vec<_>>().join(","))
}
fn canon(v: &Value) -> String {
    match v {
        Value::Null => "null".into(),
        Value::Bool(b) => format!("{{\"b\":{}}}", b),
        Value::Number(n) => {
            if let Some(i) = n.as_i64() { format!("{{\"i\":\"{}\"}}", i) }
            else if let Some(u) = n.as_u64() { format!("{{\"i\":\"{}\"}}", u) }
            else {
                let f = n.as_f64().unwrap();
                let bits = f.to_bits();
                let sign = if bits >> 63 == 1 { -1i128 } else { 1 };
                let exp = ((bits >> 52) & 0x7ff) as i64;
                let frac = (bits & 0xfffffffffffff) as i128;
                let (m, e) = if exp == 0 { (frac, -1074i64) } else { (frac | (1i128 << 52), exp - 1075) };
                format!("{{\"f2\":[\"{}\",{}]}}", sign * m, e)
            }
        }
        Value::String(s) => format!("{{\"s\":{}}}", cps(s)),
        Value::Array(a) => format!("{{\"a\":[{}]}}", a.iter().map(canon).collect::<Vec<_>>().join(",")),
        Value::Object(o) => format!("{{\"o\":[{}]}}", o.iter().map(|(k, v)| format!("[{},{}]", cps(k), canon(v))).collect::<Vec<_>>().join(",")),
    }
}
fn locate(root: &Value, target: &Value, acc: &mut Vec<String>) -> bool {
    if std::ptr::eq(root, target) { return true; }
    match root {
        Value::Array(a) => {
            for (i, x) in a.iter().enumerate() {
                acc.push(format!("{{\"i\":{}}}", i));
                if locate(x, target, acc) { return true; }
                acc.pop();
            }
            false
        }
        Value::Object(o) => {
            for (k, x) in o.iter() {
                acc.push(format!("{{\"k\":{}}}", cps(k)));
                if locate(x, target, acc) { return true; }
                acc.pop();
            }
            false
        }
        _ => false,
    }
}

fn unesc(s: &str) -> String { s.replace("\\T", "\t").replace("\\N", "\n").replace("\\R", "\r") }

fn parse_case(line: &str) -> String {
    let a = unesc(line);
    match std::panic::catch_unwind(|| parse_json_path(&a)) {
        Ok(Ok(q)) => format!("{{\"ok\":[{}]}}", q.segments.iter().map(seg).collect::<Vec<_>>().join(",")),
        Ok(Err(_)) => "{\"err\":1}".to_string(),
        Err(_) => "{\"panic\":1}".to_string(),
    }
}

/// the document of a case: `doc`, wrapped in the single-child containers listed (outermost first) in `wrap` – documents nested deeper than
/// serde_json's parser admits are built here, in code
fn doc_of(case: &Value) -> Value {
    let mut doc = case["doc"].clone();
    if let Some(ws) = case["wrap"].as_array() {
        for w in ws.iter().rev() {
            doc = match w.as_str() {
                Some("[]") => Value::Array(vec![doc]),
                Some(k) => { let mut m = serde_json::Map::new(); m.insert(k[1..].to_string(), doc); Value::Object(m) }
                None => doc,
            };
        }
    }
    // `dup`: the document is the array of two copies of what was built (two equal deep values to compare)
    if case["dup"].as_bool() == Some(true) { let d2 = doc.clone(); doc = Value::Array(vec![doc, d2]); }
    doc
}

/// do the string entry points classify the string as `parse_json_path` does, whatever the document?
fn parseep_case(line: &str) -> String {
    let a = unesc(line);
    match std::panic::catch_unwind(|| {
        let acc = parse_json_path(&a).is_ok();
        let docs = [serde_json::json!(null), serde_json::json!(42), serde_json::json!("s"), serde_json::json!([]), serde_json::json!({}), serde_json::json!([1]), serde_json::json!({"a": 1})];
        let mut agree = true;
        for d in docs.iter() {
            if d.query(&a).is_ok() != acc || d.query_with_path(&a).is_ok() != acc || d.query_only_path(&a).is_ok() != acc
                || jsonpath_rust::query::js_path(&a, d).is_ok() != acc || jsonpath_rust::query::js_path_vals(&a, d).is_ok() != acc || jsonpath_rust::query::js_path_path(&a, d).is_ok() != acc { agree = false; }
        }
        (acc, agree)
    }) {
        Ok((acc, agree)) => format!("{{\"{}\":1,\"ep\":{}}}", if acc { "ok" } else { "err" }, agree),
        Err(_) => "{\"panic\":1}".to_string(),
    }
}

fn eval_case(line: &str) -> String {
    let case: Value = match serde_json::from_str(line) { Ok(v) => v, Err(e) => return format!("{{\"badjson\":\"{}\"}}", e) };
    let q = case["q"].as_str().unwrap_or("").to_string();
    let doc = doc_of(&case);
    let before = doc.clone();
    let r = std::panic::catch_unwind(|| {
        let with_path = doc.query_with_path(&q);
        let only_vals = doc.query(&q);
        let only_paths = doc.query_only_path(&q);
        match with_path {
            Ok(rs) => {
                let n = rs.len();
                let mut agree = true;
                // finer: do `query` / `query_only_path` return the same nodes / paths as multisets (order aside)?
                let mut same_nodes = true;
                let mut same_paths = true;
                match (&only_vals, &only_paths) {
                    (Ok(vs), Ok(ps)) => {
                        if vs.len() != n || ps.len() != n { agree = false; }
                        else {
                            for (i, r) in rs.iter().enumerate() {
                                let p = r.clone().path();
                                let v = r.clone().val();
                                if !std::ptr::eq(v, vs[i]) || p != ps[i] { agree = false; }
                            }
                        }
                        let mut a1: Vec<usize> = rs.iter().map(|r| r.clone().val() as *const Value as usize).collect();
                        let mut a2: Vec<usize> = vs.iter().map(|v| *v as *const Value as usize).collect();
                        a1.sort(); a2.sort(); same_nodes = a1 == a2;
                        let mut p1: Vec<String> = rs.iter().map(|r| r.clone().path()).collect();
                        let mut p2: Vec<String> = ps.clone();
                        p1.sort(); p2.sort(); same_paths = p1 == p2;
                    }
                    _ => { agree = false; same_nodes = false; same_paths = false; }
                }
                // a query parsed once and evaluated through js_path_process must give what the string entry point gives
                let parsed_once = match parse_json_path(&q) {
                    Ok(jq) => match js_path_process(&jq, &doc) {
                        Ok(again) => again.len() == n && again.iter().zip(rs.iter()).all(|(x, y)| std::ptr::eq(x.clone().val(), y.clone().val()) && x.clone().path() == y.clone().path()),
                        Err(_) => false,
                    },
                    Err(_) => false,
                };
                let items: Vec<String> = rs.into_iter().map(|r| {
                    let path = r.clone().path();
                    let val = r.val();
                    let mut acc = vec![];
                    let found = locate(&doc, val, &mut acc);
                    // re-query: the reported path, run as a query, must return exactly this node with this path
                    let rq = match doc.query_with_path(&path) {
                        Ok(again) => again.len() == 1 && { let a = again[0].clone(); a.clone().path() == path && std::ptr::eq(a.val(), val) },
                        Err(_) => false,
                    };
                    // the reported path fed back to `reference` must give this very node
                    let rf = doc.reference(path.clone()).map_or(false, |n| std::ptr::eq(n, val));
                    format!("{{\"p\":{},\"l\":{},\"v\":{},\"rq\":{},\"rf\":{}}}", cps(&path), if found { format!("[{}]", acc.join(",")) } else { "\"NOTFOUND\"".into() }, canon(val), rq, rf)
                }).collect();
                format!("{{\"ok\":[{}],\"entrypoints_agree\":{},\"ep_same_nodes\":{},\"ep_same_paths\":{},\"parsed_once_agrees\":{}}}", items.join(","), agree, same_nodes, same_paths, parsed_once)
            }
            Err(_) => format!("{{\"err\":1,\"entrypoints_agree\":{},\"parsed_once_agrees\":{}}}", only_vals.is_err() && only_paths.is_err(), parse_json_path(&q).is_err()),
        }
    });
    let unchanged = doc == before;
    match r {
        Ok(s) => if unchanged { s } else { "{\"docchanged\":1}".to_string() },
        Err(_) => "{\"panic\":1}".to_string(),
    }
}

/// untag the wire format of documents: null | {"b"} | {"i":"dec"} | {"f2":[m,e]} | {"s":[cps]} | {"a":[..]} | {"o":[[cps,v]..]}
fn ref_case(line: &str) -> String {
    let case: Value = match serde_json::from_str(line) { Ok(v) => v, Err(e) => return format!("{{\"badjson\":\"{}\"}}", e) };
    let mut doc = doc_of(&case);
    let path = case["path"].as_str().unwrap_or("").to_string();
    let newv = case["new"].clone();
    let r = std::panic::catch_unwind(move || {
        let found = match doc.reference(path.clone()) {
            Some(v) => {
                let mut acc = vec![];
                let ok = locate(&doc, v, &mut acc);
                format!("{{\"l\":{},\"v\":{}}}", if ok { format!("[{}]", acc.join(",")) } else { "\"NOTFOUND\"".into() }, canon(v))
            }
            None => "null".to_string(),
        };
        let wrote = if let Some(slot) = doc.reference_mut(path.clone()) { *slot = newv; true } else { false };
        format!("{{\"ref\":{},\"mut\":{},\"after\":{}}}", found, wrote, canon(&doc))
    });
    match r { Ok(s) => s, Err(_) => "{\"panic\":1}".to_string() }
}

/// a sequence of updates through the paths ONE query returned: {"q","doc","news":[v..]} -> paths, which writes took place, document after
fn refseq_case(line: &str) -> String {
    let case: Value = match serde_json::from_str(line) { Ok(v) => v, Err(e) => return format!("{{\"badjson\":\"{}\"}}", e) };
    let mut doc = doc_of(&case);
    let q = case["q"].as_str().unwrap_or("").to_string();
    let news: Vec<Value> = case["news"].as_array().cloned().unwrap_or_default();
    let r = std::panic::catch_unwind(move || {
        let paths = match doc.query_only_path(&q) { Ok(p) => p, Err(_) => return "{\"err\":1}".to_string() };
        let mut wrote = vec![];
        for (i, p) in paths.iter().enumerate() {
            if let Some(slot) = doc.reference_mut(p.clone()) { *slot = news[i % news.len().max(1)].clone(); wrote.push("true") } else { wrote.push("false") }
        }
        format!("{{\"paths\":[{}],\"wrote\":[{}],\"after\":{}}}", paths.iter().map(|p| cps(p)).collect::<Vec<_>>().join(","), wrote.join(","), canon(&doc))
    });
    match r { Ok(s) => s, Err(_) => "{\"panic\":1}".to_string() }
}

/// a history: {"docs":[..], "queries":[..], "ops":[[qi,di],..], "threads":N}; every op evaluated in order
/// with queries parsed once, again by string, and again concurrently from N threads sharing Arcs
fn hist_case(line: &str) -> String {
    use std::sync::Arc;
    let case: Value = match serde_json::from_str(line) { Ok(v) => v, Err(e) => return format!("{{\"badjson\":\"{}\"}}", e) };
    let docs: Vec<Value> = case["docs"].as_array().cloned().unwrap_or_default();
    let queries: Vec<String> = case["queries"].as_array().map(|a| a.iter().map(|q| q.as_str().unwrap_or("").to_string()).collect()).unwrap_or_default();
    let ops: Vec<(usize, usize)> = case["ops"].as_array().map(|a| a.iter().map(|o| (o[0].as_u64().unwrap() as usize, o[1].as_u64().unwrap() as usize)).collect()).unwrap_or_default();
    let threads = case["threads"].as_u64().unwrap_or(4) as usize;
    let repeat = case["repeat"].as_u64().unwrap_or(1) as usize;
    let render = |doc: &Value, rs: Result<Vec<jsonpath_rust::query::QueryRef<Value>>, jsonpath_rust::parser::errors::JsonPathError>| -> String {
        match rs {
            Ok(rs) => format!("[{}]", rs.into_iter().map(|r| { let p = r.clone().path(); let v = r.val(); let mut acc = vec![]; locate(doc, v, &mut acc); format!("[{},[{}]]", cps(&p), acc.join(",")) }).collect::<Vec<_>>().join(",")),
            Err(_) => "\"err\"".to_string(),
        }
    };
    let r = std::panic::catch_unwind(|| {
        let parsed: Vec<_> = queries.iter().map(|q| parse_json_path(q)).collect();
        let snapshot = docs.clone();
        let mut seq_out = vec![];
        let mut agree = true;
        for (qi, di) in &ops {
            let by_string = render(&docs[*di], docs[*di].query_with_path(&queries[*qi]));
            let by_parsed = match &parsed[*qi] { Ok(p) => render(&docs[*di], js_path_process(p, &docs[*di])), Err(_) => "\"err\"".to_string() };
            if by_string != by_parsed { agree = false; }
            seq_out.push(by_string);
        }
        let docs_arc = Arc::new(docs.clone());
        let parsed_arc = Arc::new(parsed);
        let ops_arc = Arc::new(ops.clone());
        let mut handles = vec![];
        for t in 0..threads {
            let (d, p, o) = (docs_arc.clone(), parsed_arc.clone(), ops_arc.clone());
            handles.push(std::thread::spawn(move || {
                let mut out = vec![];
                let n = o.len();
                for k in 0..n * repeat {
                    let (qi, di) = o[(k + t * 7) % n.max(1)];
                    let s = match &p[qi] {
                        Ok(q) => match js_path_process(q, &d[di]) {
                            Ok(rs) => format!("[{}]", rs.into_iter().map(|r| { let pa = r.clone().path(); let v = r.val(); let mut acc = vec![]; locate(&d[di], v, &mut acc); format!("[{},[{}]]", cps(&pa), acc.join(",")) }).collect::<Vec<_>>().join(",")),
                            Err(_) => "\"err\"".to_string(),
                        },
                        Err(_) => "\"err\"".to_string(),
                    };
                    out.push(((k + t * 7) % n.max(1), s));
                }
                out
            }));
        }
        let mut conc_ok = true;
        for h in handles {
            for (k, s) in h.join().unwrap() { if s != seq_out[k] { conc_ok = false; } }
        }
        // the same evaluations again, each on a fresh copy of its document that lives in ONE reused slot and is dropped right
        // after: anything remembered by address (a cache keyed on the document pointer) now sees other contents at that address
        let mut slot_ok = true;
        for (k, (qi, di)) in ops.iter().enumerate() {
            let slot: Box<Value> = Box::new(docs[*di].clone());
            let out = render(&slot, slot.query_with_path(&queries[*qi]));
            if out != seq_out[k] { slot_ok = false; }
            drop(slot);
        }
        let unchanged = snapshot == docs;
        format!("{{\"seq\":[{}],\"parsed_agrees\":{},\"threads_agree\":{},\"docs_unchanged\":{},\"slot_reuse_agrees\":{}}}", seq_out.join(","), agree, conc_ok, unchanged, slot_ok)
    });
    match r { Ok(s) => s, Err(_) => "{\"panic\":1}".to_string() }
}

/// A second, differently represented implementation of `Queryable` (members in a Vec, own number split).
/// Two faithful `Queryable` views of JSON, deliberately unlike `serde_json::Value` wherever the trait allows it: members in a
/// `Vec` in document order, a separate unsigned variant, a lossy `Debug`, no override of the defaulted `reference` methods, a
/// `Default` that is not `null()`.  `AltG<false>`: `PartialEq` structural (1 != 1.0, like serde_json);  `AltG<true>`: `PartialEq` by
/// JSON value (1 == 1.0, objects as maps).  The engine's results must not depend on any of this.
#[derive(Clone)]
enum AltG<const V: bool> {
    Null,
    Bool(bool),
    Int(i64),
    Uint(u64),
    Float(f64),
    Str(String),
    Arr(Vec<AltG<V>>),
    Obj(Vec<(String, AltG<V>)>),
    /// a second spelling of a string / of null (as BSON's Symbol and Undefined): the view has no way to tell them from `Str` / `Null`,
    /// and `AltG<true>`, whose equality is by JSON value, treats them as equal. Only `AltG<true>` documents contain them.
    Sym(String),
    Undef,
}
impl<const V: bool> std::fmt::Debug for AltG<V> {
    fn fmt(&self, f: &mut std::fmt::Formatter<'_>) -> std::fmt::Result { write!(f, "Alt") }
}
impl<const V: bool> From<&str> for AltG<V> { fn from(s: &str) -> Self { AltG::Str(s.to_string()) } }
impl<const V: bool> From<String> for AltG<V> { fn from(s: String) -> Self { AltG::Str(s) } }
impl<const V: bool> From<bool> for AltG<V> { fn from(b: bool) -> Self { AltG::Bool(b) } }
impl<const V: bool> From<i64> for AltG<V> { fn from(i: i64) -> Self { AltG::Int(i) } }
impl<const V: bool> From<f64> for AltG<V> { fn from(f: f64) -> Self { if f.is_finite() { AltG::Float(f) } else { AltG::Null } } }
impl<const V: bool> From<Vec<AltG<V>>> for AltG<V> { fn from(v: Vec<AltG<V>>) -> Self { AltG::Arr(v) } }
impl<const V: bool> AltG<V> {
    /// the same document with the members of every object kept in REVERSE name order: member order is part of the view
    /// (`as_object`), so the results over this document are the RFC results on the reordered document
    fn of_rev(v: &Value) -> AltG<V> {
        match v {
            Value::Array(a) => AltG::Arr(a.iter().map(AltG::<V>::of_rev).collect()),
            Value::Object(o) => AltG::Obj(o.iter().rev().map(|(k, v)| (k.clone(), AltG::<V>::of_rev(v))).collect()),
            other => AltG::<V>::of(other),
        }
    }
    fn of(v: &Value) -> AltG<V> {
        match v {
            Value::Null => if V { AltG::Undef } else { AltG::Null },
            Value::Bool(b) => AltG::Bool(*b),
            Value::Number(n) => if let Some(i) = n.as_i64() { AltG::Int(i) } else if let Some(u) = n.as_u64() { AltG::Uint(u) } else { AltG::Float(n.as_f64().unwrap()) },
            Value::String(s) => if V && s.chars().count() % 2 == 1 { AltG::Sym(s.clone()) } else { AltG::Str(s.clone()) },
            Value::Array(a) => AltG::Arr(a.iter().map(AltG::<V>::of).collect()),
            Value::Object(o) => AltG::Obj(o.iter().map(|(k, v)| (k.clone(), AltG::<V>::of(v))).collect()),
        }
    }
    fn back(&self) -> Value {
        match self {
            AltG::Null | AltG::Undef => Value::Null,
            AltG::Sym(s) => Value::String(s.clone()),
            AltG::Bool(b) => Value::Bool(*b),
            AltG::Int(i) => Value::from(*i),
            AltG::Uint(u) => Value::from(*u),
            AltG::Float(f) => Value::from(*f),
            AltG::Str(s) => Value::String(s.clone()),
            AltG::Arr(a) => Value::Array(a.iter().map(|x| x.back()).collect()),
            AltG::Obj(o) => Value::Object(o.iter().map(|(k, v)| (k.clone(), v.back())).collect()),
        }
    }
}
impl<const V: bool> Queryable for AltG<V> {
    fn get(&self, key: &str) -> Option<&Self> {
        let key = if key.starts_with('\'') && key.ends_with('\'') { key.trim_matches(|c| c == '\'') }
                  else if key.starts_with('"') && key.ends_with('"') { key.trim_matches(|c| c == '"') } else { key };
        match self { AltG::Obj(o) => o.iter().find(|(k, _)| k == key).map(|(_, v)| v), _ => None }
    }
    fn as_array(&self) -> Option<&Vec<Self>> { match self { AltG::Arr(a) => Some(a), _ => None } }
    fn as_object(&self) -> Option<Vec<(&String, &Self)>> { match self { AltG::Obj(o) => Some(o.iter().map(|(k, v)| (k, v)).collect()), _ => None } }
    fn as_str(&self) -> Option<&str> { match self { AltG::Str(s) | AltG::Sym(s) => Some(s), _ => None } }
    fn as_i64(&self) -> Option<i64> { match self { AltG::Int(i) => Some(*i), AltG::Uint(u) => i64::try_from(*u).ok(), _ => None } }
    // the structural type keeps its accessors apart: an integer that fits i64 answers `as_i64` only, a float `as_f64` only (the engine's number
    // is `as_f64().or_else(as_i64)`); the by-value type answers both, like serde_json
    fn as_f64(&self) -> Option<f64> { match self { AltG::Float(f) => Some(*f), AltG::Int(i) => if V { Some(*i as f64) } else { None }, AltG::Uint(u) => if V || i64::try_from(*u).is_err() { Some(*u as f64) } else { None }, _ => None } }
    fn as_bool(&self) -> Option<bool> { match self { AltG::Bool(b) => Some(*b), _ => None } }
    fn null() -> Self { AltG::Null }
    fn extension_custom(name: &str, args: Vec<std::borrow::Cow<Self>>) -> Self {
        let vals: Vec<std::borrow::Cow<Value>> = args.iter().map(|a| std::borrow::Cow::Owned(a.back())).collect();
        AltG::<V>::of(&<Value as Queryable>::extension_custom(name, vals))
    }
}

impl<const V: bool> Default for AltG<V> {
    fn default() -> Self { if V { AltG::Str("default".to_string()) } else { AltG::Obj(vec![]) } }
}
impl<const V: bool> PartialEq for AltG<V> {
    fn eq(&self, other: &Self) -> bool {
        fn num<const V: bool>(a: &AltG<V>) -> Option<f64> { match a { AltG::Int(i) => Some(*i as f64), AltG::Uint(u) => Some(*u as f64), AltG::Float(f) => Some(*f), _ => None } }
        match (self, other) {
            (AltG::Null | AltG::Undef, AltG::Null | AltG::Undef) => true,
            (AltG::Str(a) | AltG::Sym(a), AltG::Str(b) | AltG::Sym(b)) => a == b,
            (AltG::Bool(a), AltG::Bool(b)) => a == b,
            (AltG::Str(a), AltG::Str(b)) => a == b,
            (AltG::Arr(a), AltG::Arr(b)) => a == b,
            (AltG::Obj(a), AltG::Obj(b)) => if V { a.len() == b.len() && a.iter().all(|(k, x)| b.iter().any(|(k2, y)| k == k2 && x == y)) } else { a == b },
            (a, b) => if V { match (num(a), num(b)) { (Some(x), Some(y)) => x == y, _ => false } } else {
                match (a, b) { (AltG::Int(x), AltG::Int(y)) => x == y, (AltG::Uint(x), AltG::Uint(y)) => x == y, (AltG::Float(x), AltG::Float(y)) => x == y, _ => false } },
        }
    }
}
type Alt = AltG<false>;
type Alt2 = AltG<true>;

fn generic_case<const V: bool>(line: &str) -> String {
    let case: Value = match serde_json::from_str(line) { Ok(v) => v, Err(e) => return format!("{{\"badjson\":\"{}\"}}", e) };
    let q = case["q"].as_str().unwrap_or("").to_string();
    let doc = if case["rev"].as_bool() == Some(true) { AltG::<V>::of_rev(&doc_of(&case)) } else { AltG::<V>::of(&doc_of(&case)) };
    match std::panic::catch_unwind(|| {
        match jsonpath_rust::query::js_path(&q, &doc) {
            Ok(rs) => format!("{{\"ok\":[{}]}}", rs.into_iter().map(|r| { let p = r.clone().path(); let v = r.val(); format!("{{\"p\":{},\"v\":{}}}", cps(&p), canon(&v.back())) }).collect::<Vec<_>>().join(",")),
            Err(_) => "{\"err\":1}".to_string(),
        }
    }) { Ok(s) => s, Err(_) => "{\"panic\":1}".to_string() }
}

// ---- a fourth Queryable type: equal member values are stored ONCE and shared (`Rc`), as after hash-consing or YAML anchors.
// Node identity (addresses) is not part of the view: an engine that remembers visited addresses goes wrong here.
#[derive(Clone)]
enum AltS { Null, Bool(bool), Int(i64), Uint(u64), Float(f64), Str(String), Arr(Vec<AltS>), Obj(Vec<(String, std::rc::Rc<AltS>)>) }
impl std::fmt::Debug for AltS { fn fmt(&self, f: &mut std::fmt::Formatter<'_>) -> std::fmt::Result { write!(f, "AltS") } }
impl From<&str> for AltS { fn from(s: &str) -> Self { AltS::Str(s.to_string()) } }
impl From<String> for AltS { fn from(s: String) -> Self { AltS::Str(s) } }
impl From<bool> for AltS { fn from(b: bool) -> Self { AltS::Bool(b) } }
impl From<i64> for AltS { fn from(i: i64) -> Self { AltS::Int(i) } }
impl From<f64> for AltS { fn from(f: f64) -> Self { if f.is_finite() { AltS::Float(f) } else { AltS::Null } } }
impl From<Vec<AltS>> for AltS { fn from(v: Vec<AltS>) -> Self { AltS::Arr(v) } }
impl Default for AltS { fn default() -> Self { AltS::Arr(vec![]) } }
impl PartialEq for AltS { fn eq(&self, other: &Self) -> bool { self.back() == other.back() } }
impl AltS {
    fn of(v: &Value, cache: &mut std::collections::HashMap<String, std::rc::Rc<AltS>>) -> AltS {
        match v {
            Value::Null => AltS::Null,
            Value::Bool(b) => AltS::Bool(*b),
            Value::Number(n) => if let Some(i) = n.as_i64() { AltS::Int(i) } else if let Some(u) = n.as_u64() { AltS::Uint(u) } else { AltS::Float(n.as_f64().unwrap()) },
            Value::String(s) => AltS::Str(s.clone()),
            Value::Array(a) => AltS::Arr(a.iter().map(|x| AltS::of(x, cache)).collect()),
            Value::Object(o) => AltS::Obj(o.iter().map(|(k, x)| {
                let key = x.to_string();
                let rc = match cache.get(&key) { Some(rc) => rc.clone(), None => { let rc = std::rc::Rc::new(AltS::of(x, cache)); cache.insert(key, rc.clone()); rc } };
                (k.clone(), rc)
            }).collect()),
        }
    }
    fn back(&self) -> Value {
        match self {
            AltS::Null => Value::Null, AltS::Bool(b) => Value::Bool(*b), AltS::Int(i) => Value::from(*i), AltS::Uint(u) => Value::from(*u), AltS::Float(f) => Value::from(*f),
            AltS::Str(s) => Value::String(s.clone()), AltS::Arr(a) => Value::Array(a.iter().map(|x| x.back()).collect()),
            AltS::Obj(o) => Value::Object(o.iter().map(|(k, v)| (k.clone(), v.back())).collect()),
        }
    }
}
impl Queryable for AltS {
    fn get(&self, key: &str) -> Option<&Self> {
        let key = if key.starts_with('\'') && key.ends_with('\'') { key.trim_matches(|c| c == '\'') }
                  else if key.starts_with('"') && key.ends_with('"') { key.trim_matches(|c| c == '"') } else { key };
        match self { AltS::Obj(o) => o.iter().find(|(k, _)| k == key).map(|(_, v)| &**v), _ => None }
    }
    fn as_array(&self) -> Option<&Vec<Self>> { match self { AltS::Arr(a) => Some(a), _ => None } }
    fn as_object(&self) -> Option<Vec<(&String, &Self)>> { match self { AltS::Obj(o) => Some(o.iter().map(|(k, v)| (k, &**v)).collect()), _ => None } }
    fn as_str(&self) -> Option<&str> { match self { AltS::Str(s) => Some(s), _ => None } }
    fn as_i64(&self) -> Option<i64> { match self { AltS::Int(i) => Some(*i), AltS::Uint(u) => i64::try_from(*u).ok(), _ => None } }
    fn as_f64(&self) -> Option<f64> { match self { AltS::Float(f) => Some(*f), AltS::Int(i) => Some(*i as f64), AltS::Uint(u) => Some(*u as f64), _ => None } }
    fn as_bool(&self) -> Option<bool> { match self { AltS::Bool(b) => Some(*b), _ => None } }
    fn null() -> Self { AltS::Null }
    fn extension_custom(name: &str, args: Vec<std::borrow::Cow<Self>>) -> Self {
        let vals: Vec<std::borrow::Cow<Value>> = args.iter().map(|a| std::borrow::Cow::Owned(a.back())).collect();
        AltS::of(&<Value as Queryable>::extension_custom(name, vals), &mut std::collections::HashMap::new())
    }
}
fn generic_shared_case(line: &str) -> String {
    let case: Value = match serde_json::from_str(line) { Ok(v) => v, Err(e) => return format!("{{\"badjson\":\"{}\"}}", e) };
    let q = case["q"].as_str().unwrap_or("").to_string();
    let doc = AltS::of(&doc_of(&case), &mut std::collections::HashMap::new());
    match std::panic::catch_unwind(std::panic::AssertUnwindSafe(|| {
        match jsonpath_rust::query::js_path(&q, &doc) {
            Ok(rs) => format!("{{\"ok\":[{}]}}", rs.into_iter().map(|r| { let p = r.clone().path(); let v = r.val(); format!("{{\"p\":{},\"v\":{}}}", cps(&p), canon(&v.back())) }).collect::<Vec<_>>().join(",")),
            Err(_) => "{\"err\":1}".to_string(),
        }
    })) { Ok(s) => s, Err(_) => "{\"panic\":1}".to_string() }
}

// ---- programmatically built queries: JSON rendering of the AST -> JpQuery (same wire format as the dumper above)
fn cps_to_string(v: &Value) -> String {
    v.as_array().map(|a| a.iter().filter_map(|x| x.as_u64().and_then(|c| char::from_u32(c as u32))).collect()).unwrap_or_default()
}
fn int_of(v: &Value) -> i64 { v.as_str().and_then(|s| s.parse::<i64>().ok()).or(v.as_i64()).unwrap_or(0) }
fn opt_int(v: &Value) -> Option<i64> { if v.is_null() { None } else { Some(int_of(v)) } }
fn lit_of(v: &Value) -> Literal {
    if v.is_null() { return Literal::Null; }
    if let Some(i) = v.get("i") { return Literal::Int(int_of(i)); }
    if let Some(f) = v.get("fl") { let n = int_of(&f[0]) as f64; let d = int_of(&f[1]) as f64; return Literal::Float(n / d); }
    if let Some(s) = v.get("s") { return Literal::String(cps_to_string(s)); }
    if let Some(b) = v.get("b") { return Literal::Bool(b.as_bool().unwrap_or(false)); }
    Literal::Null
}
fn seg_of(v: &Value) -> Segment {
    if let Some(d) = v.get("D") { return Segment::Descendant(Box::new(seg_of(d))); }
    if let Some(s) = v.get("S") { return Segment::Selector(sel_of(s)); }
    Segment::Selectors(v.get("SS").and_then(|a| a.as_array()).map(|a| a.iter().map(sel_of).collect()).unwrap_or_default())
}
fn sel_of(v: &Value) -> Selector {
    if v.as_str() == Some("W") { return Selector::Wildcard; }
    if let Some(n) = v.get("N") { return Selector::Name(cps_to_string(n)); }
    if let Some(i) = v.get("I") { return Selector::Index(int_of(i)); }
    if let Some(l) = v.get("L") { return Selector::Slice(opt_int(&l[0]), opt_int(&l[1]), opt_int(&l[2])); }
    Selector::Filter(flt_of(&v["F"]))
}
fn flt_of(v: &Value) -> Filter {
    if let Some(a) = v.get("or").and_then(|a| a.as_array()) { return Filter::Or(a.iter().map(flt_of).collect()); }
    if let Some(a) = v.get("and").and_then(|a| a.as_array()) { return Filter::And(a.iter().map(flt_of).collect()); }
    Filter::Atom(atom_of(&v["atom"]))
}
fn atom_of(v: &Value) -> FilterAtom {
    let not = v.get("not").and_then(|b| b.as_bool()).unwrap_or(false);
    if let Some(f) = v.get("f") { return FilterAtom::Filter { expr: Box::new(flt_of(f)), not }; }
    if let Some(t) = v.get("t") { return FilterAtom::Test { expr: Box::new(test_of(t)), not }; }
    let c = &v["c"];
    let (l, r) = (cmpb_of(&c[1]), cmpb_of(&c[2]));
    FilterAtom::Comparison(Box::new(match c[0].as_str().unwrap_or("==") {
        "==" => Comparison::Eq(l, r), "!=" => Comparison::Ne(l, r), ">" => Comparison::Gt(l, r),
        ">=" => Comparison::Gte(l, r), "<" => Comparison::Lt(l, r), _ => Comparison::Lte(l, r),
    }))
}
fn cmpb_of(v: &Value) -> Comparable {
    if let Some(l) = v.get("lit") { return Comparable::Literal(lit_of(l)); }
    if let Some(f) = v.get("fn") { return Comparable::Function(fn_of(f)); }
    let sq = &v["sq"];
    let segs: Vec<SingularQuerySegment> = sq[1].as_array().map(|a| a.iter().map(|s| {
        if let Some(i) = s.get("I") { SingularQuerySegment::Index(int_of(i)) } else { SingularQuerySegment::Name(cps_to_string(&s["N"])) }
    }).collect()).unwrap_or_default();
    if sq[0].as_str() == Some("$") { Comparable::SingularQuery(SingularQuery::Root(segs)) } else { Comparable::SingularQuery(SingularQuery::Current(segs)) }
}
fn test_of(v: &Value) -> Test {
    if let Some(a) = v.get("rel").and_then(|a| a.as_array()) { return Test::RelQuery(a.iter().map(seg_of).collect()); }
    if let Some(a) = v.get("abs").and_then(|a| a.as_array()) { return Test::AbsQuery(JpQuery::new(a.iter().map(seg_of).collect())); }
    Test::Function(Box::new(fn_of(&v["fn"])))
}
fn arg_of(v: &Value) -> FnArg {
    if let Some(l) = v.get("lit") { return FnArg::Literal(lit_of(l)); }
    if let Some(t) = v.get("t") { return FnArg::Test(Box::new(test_of(t))); }
    FnArg::Filter(flt_of(&v["f"]))
}
fn fn_of(v: &Value) -> TestFunction {
    let name = cps_to_string(&v["name"]);
    let args: Vec<FnArg> = v["args"].as_array().map(|a| a.iter().map(arg_of).collect()).unwrap_or_default();
    let a = |i: usize| args.get(i).cloned().unwrap_or(FnArg::Literal(Literal::Null));
    match name.as_str() {
        "length" => TestFunction::Length(Box::new(a(0))), "value" => TestFunction::Value(a(0)), "count" => TestFunction::Count(a(0)),
        "search" => TestFunction::Search(a(0), a(1)), "match" => TestFunction::Match(a(0), a(1)),
        other => TestFunction::Custom(other.strip_prefix("custom:").unwrap_or(other).to_string(), args),
    }
}
/// evaluate a programmatically built query (an AST the parser may be unable to produce) through `js_path_process`
fn ast_case(line: &str) -> String {
    let case: Value = match serde_json::from_str(line) { Ok(v) => v, Err(e) => return format!("{{\"badjson\":\"{}\"}}", e) };
    let doc = doc_of(&case);
    let before = doc.clone();
    let r = std::panic::catch_unwind(|| {
        let q = JpQuery::new(case["ast"].as_array().map(|a| a.iter().map(seg_of).collect()).unwrap_or_default());
        match js_path_process(&q, &doc) {
            Ok(rs) => {
                let items: Vec<String> = rs.into_iter().map(|r| {
                    let path = r.clone().path();
                    let val = r.val();
                    let mut acc = vec![];
                    let found = locate(&doc, val, &mut acc);
                    format!("{{\"p\":{},\"l\":{},\"v\":{}}}", cps(&path), if found { format!("[{}]", acc.join(",")) } else { "\"NOTFOUND\"".into() }, canon(val))
                }).collect();
                format!("{{\"ok\":[{}]}}", items.join(","))
            }
            Err(_) => "{\"err\":1}".to_string(),
        }
    });
    match r { Ok(s) => if doc == before { s } else { "{\"docchanged\":1}".to_string() }, Err(_) => "{\"panic\":1}".to_string() }
}

/// the three entry points on one (query, document), nothing per result node: outcome and number of results only (used for wide and long inputs)
fn run_case(line: &str) -> String {
    let case: Value = match serde_json::from_str(line) { Ok(v) => v, Err(e) => return format!("{{\"badjson\":\"{}\"}}", e) };
    let q = case["q"].as_str().unwrap_or("").to_string();
    let doc = doc_of(&case);
    let r = std::panic::catch_unwind(|| {
        let a = doc.query_with_path(&q).map(|v| v.len());
        let b = doc.query(&q).map(|v| v.len());
        let c = doc.query_only_path(&q).map(|v| v.len());
        match (a, b, c) {
            (Ok(x), Ok(y), Ok(z)) => format!("{{\"ok\":[],\"n\":{},\"entrypoints_agree\":{}}}", x, x == y && y == z),
            (Err(_), Err(_), Err(_)) => "{\"err\":1}".to_string(),
            _ => "{\"ok\":[],\"entrypoints_agree\":false}".to_string(),
        }
    });
    match r { Ok(s) => s, Err(_) => "{\"panic\":1}".to_string() }
}

fn _assert_send_sync() {
    fn is<T: Send + Sync>() {}
    is::<jsonpath_rust::parser::model::JpQuery>();
    is::<jsonpath_rust::parser::errors::JsonPathError>();
}

fn regex_case(line: &str) -> String {
    let case: Value = match serde_json::from_str(line) { Ok(v) => v, Err(e) => return format!("{{\"badjson\":\"{}\"}}", e) };
    let doc = serde_json::json!({"s": [case["s"].clone()], "p": case["p"].clone()});
    let q = if case["sub"].as_bool().unwrap_or(false) { "$.s[?search(@, $.p)]" } else { "$.s[?match(@, $.p)]" };
    match std::panic::catch_unwind(|| doc.query(q).map(|v| !v.is_empty())) {
        Ok(Ok(b)) => format!("{{\"m\":{}}}", b),
        Ok(Err(_)) => "{\"err\":1}".to_string(),
        Err(_) => "{\"panic\":1}".to_string(),
    }
}

fn main() {
    let mode = std::env::args().nth(1).unwrap_or_else(|| "parse".into());
    std::panic::set_hook(Box::new(|_| {}));
    let stdin = std::io::stdin();
    let stdout = std::io::stdout();
    let mut out = std::io::BufWriter::new(stdout.lock());
    for line in stdin.lock().lines() {
        let line = line.unwrap();
        let res = match mode.as_str() {
            "eval" => eval_case(&line),
            "run" => run_case(&line),
            "parseep" => parseep_case(&line),
            "regex" => regex_case(&line),
            "ref" => ref_case(&line),
            "refseq" => refseq_case(&line),
            "hist" => hist_case(&line),
            "generic" => generic_case::<false>(&line),
            "generic2" => generic_case::<true>(&line),
            "generic3" => generic_shared_case(&line),
            "ast" => ast_case(&line),
            _ => parse_case(&line),
        };
        writeln!(out, "{}", res).unwrap();
        out.flush().unwrap();
    }
}
