import JsonPathVerif.Lemmas
namespace JP
open List

theorem normalizeKey_plain : ∀ (s : Str), '\\' ∉ s → normalizeKey s = s
  | [], _ => by simp [normalizeKey]
  | c :: r, h => by
    have hc : c ≠ '\\' := by intro e; subst e; simp at h
    have hr : '\\' ∉ r := by intro e; exact h (List.mem_cons_of_mem _ e)
    have ih := normalizeKey_plain r hr
    unfold normalizeKey
    split <;> simp_all

theorem unescape_plain : ∀ (fuel : Nat) (s : Str), '\\' ∉ s → s.length < fuel → Spec.unescape fuel s = some s
  | _, [], _, _ => by simp [Spec.unescape]
  | 0, _ :: _, _, hf => by simp at hf
  | fuel+1, c :: r, h, hf => by
    have hc : c ≠ '\\' := by intro e; subst e; simp at h
    have hr : '\\' ∉ r := by intro e; exact h (List.mem_cons_of_mem _ e)
    have ih := unescape_plain fuel r hr (by simp at hf; omega)
    unfold Spec.unescape
    split
    · rename_i heq; simp at heq
    · rename_i heq; simp only [List.cons.injEq] at heq; exact absurd heq.1 hc
    · rename_i heq; simp only [List.cons.injEq] at heq
      obtain ⟨rfl, rfl⟩ := heq
      simp [ih]

theorem dropWhile_eq_self_of_head {α} (p : α → Bool) : ∀ (l : List α), (∀ x, l.head? = some x → p x = false) → l.dropWhile p = l
  | [], _ => rfl
  | x :: xs, h => by simp [List.dropWhile, h x rfl]

theorem dropWhile_append_q (q : Char) : ∀ (c : Str), q ∉ c →
    (c ++ [q]).dropWhile (· == q) = if c = [] then [] else c ++ [q]
  | [], _ => by simp [List.dropWhile]
  | x :: xs, hc => by
    have : x ≠ q := by intro e; subst e; simp at hc
    simp [List.dropWhile, this]

theorem trimMatches_quoted (q : Char) (c : Str) (hq : q ∉ c) : trimMatches q (q :: (c ++ [q])) = c := by
  unfold trimMatches
  have h1 : (q :: (c ++ [q])).dropWhile (· == q) = (c ++ [q]).dropWhile (· == q) := by simp [List.dropWhile]
  rw [h1, dropWhile_append_q q c hq]
  by_cases hc : c = []
  · subst hc; simp [List.dropWhile]
  · simp only [hc, if_false, List.reverse_append, List.reverse_cons, List.reverse_nil, List.nil_append, List.singleton_append]
    have h3 : (q :: c.reverse).dropWhile (· == q) = c.reverse.dropWhile (· == q) := by simp [List.dropWhile]
    rw [h3]
    have h4 : c.reverse.dropWhile (· == q) = c.reverse := by
      apply dropWhile_eq_self_of_head
      intro x hx
      have : x ∈ c.reverse := by
        cases hr : c.reverse with
        | nil => rw [hr] at hx; simp at hx
        | cons y ys => rw [hr] at hx; simp at hx; subst hx; simp
      have hxc : x ∈ c := by simpa using this
      have : x ≠ q := by intro e; subst e; exact hq hxc
      simp [this]
    rw [h4]; simp

theorem getLast_q (q : Char) (k : Str) : (q :: (k ++ [q])).getLast? = some q := by
  rw [← List.cons_append, List.getLast?_append]; simp

/-- a name lexeme without escape sequences: shorthand text, or `q c q` with neither `q` nor `\` in `c` -/
inductive PlainName : Str → Str → Prop
  | shorthand (raw : Str) : '\\' ∉ raw → raw.head? ≠ some '\'' → raw.head? ≠ some '"' → PlainName raw raw
  | quoted (q : Char) (c : Str) : (q = '\'' ∨ q = '"') → q ∉ c → '\\' ∉ c → PlainName (q :: (c ++ [q])) c

theorem decodeName_plain {raw k : Str} (h : PlainName raw k) : Spec.decodeName raw = some k := by
  cases h with
  | shorthand raw hb h1 h2 =>
    unfold Spec.decodeName
    split <;> simp_all
  | quoted q _ hq hqc hb =>
    have hdec : Spec.decodeQuoted (q :: (k ++ [q])) = some k := by
      unfold Spec.decodeQuoted
      have : (q == '\'' || q == '"') = true := by rcases hq with rfl | rfl <;> simp
      have hu := unescape_plain (k.length + 1 + 1) k hb (by omega)
      simp [this, getLast_q, hu]
    unfold Spec.decodeName
    rcases hq with rfl | rfl <;> simpa using hdec

theorem valueGet_plain {raw k : Str} (h : PlainName raw k) (v : Json) :
    valueGet v (normalizeKey raw) = match v with
      | .obj kvs => (lookup k kvs).map fun x => (k, x)
      | _ => none := by
  cases h with
  | shorthand raw hb h1 h2 =>
    rw [normalizeKey_plain raw hb]
    unfold valueGet
    have e1 : (raw.head? == some '\'') = false := by simpa using h1
    have e2 : (raw.head? == some '"') = false := by simpa using h2
    simp [e1, e2]
    cases v <;> rfl
  | quoted q _ hq hqc hb =>
    have hb' : '\\' ∉ (q :: (k ++ [q])) := by
      rcases hq with rfl | rfl <;> simp [hb]
    rw [normalizeKey_plain _ hb']
    unfold valueGet
    rcases hq with rfl | rfl
    · have : ((('\'' :: (k ++ ['\''])).head? == some '\'') && (('\'' :: (k ++ ['\''])).getLast? == some '\'')) = true := by simp [getLast_q]
      simp only [this, if_true, trimMatches_quoted '\'' k hqc]
      cases v <;> rfl
    · have h1 : ((('"' :: (k ++ ['"'])).head? == some '\'') && (('"' :: (k ++ ['"'])).getLast? == some '\'')) = false := by simp
      have h2 : ((('"' :: (k ++ ['"'])).head? == some '"') && (('"' :: (k ++ ['"'])).getLast? == some '"')) = true := by simp [getLast_q]
      simp only [h1, h2, if_true, Bool.false_eq_true, if_false, trimMatches_quoted '"' k hqc]
      cases v <;> rfl

theorem processKey_spec {raw k : Str} (h : PlainName raw k) (E : Engine) (root : Json) (p : Ptr) :
    (processKey raw p).toVec.map toN = Spec.sel E root (.name raw) (toN p) := by
  unfold processKey
  rw [valueGet_plain h]
  unfold Spec.sel Spec.selName
  simp only [toN, decodeName_plain h]
  cases hv : p.inner <;> simp [Data.toVec]
  rename_i kvs
  cases lookup k kvs <;> simp [Data.toVec, Ptr.key]

theorem processKey_shaped (raw : Str) (p : Ptr) : (processKey raw p).shaped := by
  unfold processKey; split <;> simp

end JP
