import JsonPathVerif.Refine
namespace JP
open List

abbrev nodesOf (d : Data) : List Spec.Node := d.toVec.map toN

theorem filterChildrenWith_spec (item : Ptr → Bool) (g : Spec.Node → Bool)
    (h : ∀ c : Ptr, item (Ptr.empty c.inner c.loc) = g (toN c)) (d : Data) (hd : d.shaped) :
    nodesOf (filterChildrenWith item d) = (nodesOf d).flatMap (fun n => (Spec.children n).filter g) := by
  unfold filterChildrenWith nodesOf
  rw [Data.toVec_flatMap _ _ hd]
  simp only [List.map_flatMap, List.flatMap_map]
  congr 1; funext p
  rw [← childrenPtr_toN]
  cases hp : p.inner <;> simp [Data.toVec, childrenPtr, hp, List.filter_map, Function.comp_def, h]

theorem filterChildrenWith_shaped (item : Ptr → Bool) (d : Data) : (filterChildrenWith item d).shaped := by
  unfold filterChildrenWith
  apply Data.shaped_flatMap
  intro p; cases p.inner <;> simp

theorem filterProcessWith_internal (item : Ptr → Bool) (p : Ptr) (hp : p.path = []) :
    filterProcessWith item (.ref p) = dbool (item p) := by
  simp [filterProcessWith, Data.flatMap, Ptr.isInternal, hp]

theorem flatMap_append_perm {α β} (l : List α) (f g : α → List β) :
    (l.flatMap f ++ l.flatMap g).Perm (l.flatMap fun a => f a ++ g a) := by
  induction l with
  | nil => simp
  | cons a l ih =>
    simp only [List.flatMap_cons]
    have : (f a ++ l.flatMap f ++ (g a ++ l.flatMap g)).Perm (f a ++ g a ++ (l.flatMap f ++ l.flatMap g)) := by
      simp only [List.append_assoc]
      apply List.Perm.append_left
      rw [← List.append_assoc, ← List.append_assoc]
      exact List.Perm.append_right _ List.perm_append_comm
    exact this.trans (List.Perm.append_left _ ih)

-- functions on states
theorem lengthFn_spec (d : Data) (hd : d.cmpShape) :
    (lengthFn d).cmpShape ∧ dataVal (lengthFn d) = Spec.lengthOf (dataVal d) := by
  cases d with
  | ref p => cases h : p.inner <;> simp [lengthFn, dataVal, Spec.lengthOf, h, di64, Data.cmpShape, Json.isScalar]
  | value v => cases v <;> simp [lengthFn, dataVal, Spec.lengthOf, di64, Data.cmpShape, Json.isScalar]
  | nothing => simp [lengthFn, dataVal, Spec.lengthOf, Data.cmpShape]
  | refs ps => exact absurd hd (by simp [Data.cmpShape])

theorem countFn_spec (d : Data) (hd : d.shaped) :
    (countFn d).cmpShape ∧ dataVal (countFn d) = some (.num (.int (nodesOf d).length)) := by
  cases d <;> simp_all [countFn, dataVal, di64, Data.cmpShape, Json.isScalar, Data.toVec, Data.shaped]

theorem valueFn_spec (d : Data) (hd : d.shaped) :
    (valueFn d).cmpShape ∧ dataVal (valueFn d) = (match nodesOf d with | [n] => some n.2 | _ => none) := by
  cases d with
  | ref p => simp [valueFn, dataVal, Data.cmpShape, Data.toVec, toN, nodesOf]
  | nothing => simp [valueFn, dataVal, Data.cmpShape, Data.toVec, nodesOf]
  | value v => exact absurd hd (by simp)
  | refs ps =>
    match ps with
    | [] => simp [valueFn, dataVal, Data.cmpShape, Data.toVec, nodesOf]
    | [p] => simp [valueFn, dataVal, Data.cmpShape, Data.toVec, toN, nodesOf]
    | p :: q :: r => simp [valueFn, dataVal, Data.cmpShape, Data.toVec, nodesOf]

theorem toStrD_spec (d : Data) (hd : d.cmpShape) :
    toStrD d = (match dataVal d with | some (.str s) => some s | _ => none) := by
  cases d with
  | ref p => cases h : p.inner <;> simp [toStrD, dataVal, h]
  | value v => cases v <;> simp [toStrD, dataVal]
  | nothing => simp [toStrD, dataVal]
  | refs ps => exact absurd hd (by simp [Data.cmpShape])

theorem argValues_spec (d : Data) (hd : d.cmpShape) : argValues d = (dataVal d).toList := by
  cases d <;> simp_all [argValues, dataVal, Data.cmpShape]

theorem unDouble_plain : ∀ (s : Str), '\\' ∉ s → unDouble s = s
  | [], _ => rfl
  | [c], h => by
    have hc : c ≠ '\\' := fun e => h (by simp [e])
    simp [unDouble]
  | c :: d :: r, h => by
    have hc : c ≠ '\\' := fun e => h (by simp [e])
    have ih := unDouble_plain (d :: r) (fun hm => h (List.mem_cons_of_mem _ hm))
    unfold unDouble
    split
    · rename_i heq; injection heq with h1 _; exact absurd h1 hc
    · rename_i heq; injection heq with h1 h2; subst h1; subst h2; rw [ih]
    · rename_i heq; cases heq

/-- shape of a pattern operand: a computed string value carries no backslash -/
def Data.patShape : Data → Prop
  | .value (.str s) => '\\' ∉ s
  | _ => True

theorem toPatD_of_patShape (d : Data) (h : d.patShape) : toPatD d = toStrD d := by
  cases d with
  | value v => cases v <;> simp_all [toPatD, toStrD, Data.patShape, unDouble_plain]
  | _ => rfl

theorem literal_spec (l : Literal) (h : okLit l) :
    Spec.literalValue l = some (literalValue l) ∧ (literalValue l).isScalar = true := by
  cases l <;> simp_all [Spec.literalValue, literalValue, Json.isScalar, okLit]
  rename_i s
  exact unescape_plain _ s h (Nat.lt_succ_self _)

-- Spec-side facts
theorem Spec.children_scalar (n : Spec.Node) (h : (match n.2 with | .arr _ => true | .obj _ => true | _ => false) = false) :
    Spec.children n = [] := by
  unfold Spec.children; cases hn : n.2 <;> simp_all

theorem Spec.selName_le_one (raw : Str) (n : Spec.Node) : (Spec.selName raw n).length ≤ 1 := by
  unfold Spec.selName; split <;> (try split) <;> simp

theorem Spec.selIndex_le_one (i : Int) (n : Spec.Node) : (Spec.selIndex i n).length ≤ 1 := by
  unfold Spec.selIndex; split
  · dsimp only
    repeat' split
    all_goals simp
  · simp

end JP
