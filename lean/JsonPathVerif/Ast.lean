namespace JP

abbrev Str := List Char

inductive Literal where
  | int (i : Int) | float (num : Int) (den : Nat) | str (s : Str) | bool (b : Bool) | null
  deriving Repr, Inhabited

inductive SQSeg where
  | index (i : Int) | name (s : Str)
  deriving Repr, Inhabited

inductive CmpOp where | eq | ne | gt | ge | lt | le
  deriving Repr, Inhabited, DecidableEq

mutual
inductive Segment where
  | descendant (s : Segment)
  | selector (s : Selector)
  | selectors (ss : List Selector)
inductive Selector where
  | name (s : Str) | wildcard | index (i : Int)
  | slice (a b c : Option Int)
  | filter (f : Filter)
inductive Filter where
  | or (fs : List Filter) | and (fs : List Filter) | atom (a : FilterAtom)
inductive FilterAtom where
  | filter (e : Filter) (not : Bool)
  | test (e : Test) (not : Bool)
  | cmp (op : CmpOp) (l r : Comparable)
inductive Comparable where
  | lit (l : Literal) | fn (f : TestFunction) | sq (root : Bool) (segs : List SQSeg)
inductive Test where
  | rel (segs : List Segment) | abs (segs : List Segment) | fn (f : TestFunction)
inductive TestFunction where
  | custom (name : Str) (args : List FnArg)
  | length (a : FnArg) | value (a : FnArg) | count (a : FnArg)
  | search (a b : FnArg) | «match» (a b : FnArg)
inductive FnArg where
  | lit (l : Literal) | test (t : Test) | filter (f : Filter)
end

instance : Inhabited Segment := ⟨.selector .wildcard⟩
instance : Inhabited Filter := ⟨.or []⟩
instance : Inhabited Test := ⟨.rel []⟩
instance : Inhabited FnArg := ⟨.lit .null⟩
instance : Inhabited TestFunction := ⟨.custom [] []⟩
instance : Inhabited Comparable := ⟨.lit .null⟩
instance : Inhabited FilterAtom := ⟨.cmp .eq default default⟩
instance : Inhabited Selector := ⟨.wildcard⟩

-- JSON rendering identical to the Rust dumper
def cps (s : Str) : String := "[" ++ ",".intercalate (s.map fun c => toString c.toNat) ++ "]"
def oi : Option Int → String | some i => s!"\"{i}\"" | none => "null"
def litJ : Literal → String
  | .int i => "{\"i\":\"" ++ toString i ++ "\"}"
  | .float n d => "{\"fl\":[\"" ++ toString n ++ "\",\"" ++ toString d ++ "\"]}"
  | .str s => "{\"s\":" ++ cps s ++ "}"
  | .bool b => "{\"b\":" ++ toString b ++ "}"
  | .null => "null"
def CmpOp.str : CmpOp → String
  | .eq => "==" | .ne => "!=" | .gt => ">" | .ge => ">=" | .lt => "<" | .le => "<="
def sqJ : SQSeg → String
  | .index i => "{\"I\":\"" ++ toString i ++ "\"}"
  | .name n => "{\"N\":" ++ cps n ++ "}"

mutual
partial def segJ : Segment → String
  | .descendant i => "{\"D\":" ++ segJ i ++ "}"
  | .selector s => "{\"S\":" ++ selJ s ++ "}"
  | .selectors ss => "{\"SS\":[" ++ ",".intercalate (ss.map selJ) ++ "]}"
partial def selJ : Selector → String
  | .name n => "{\"N\":" ++ cps n ++ "}"
  | .wildcard => "\"W\""
  | .index i => "{\"I\":\"" ++ toString i ++ "\"}"
  | .slice a b c => "{\"L\":[" ++ oi a ++ "," ++ oi b ++ "," ++ oi c ++ "]}"
  | .filter f => "{\"F\":" ++ fltJ f ++ "}"
partial def fltJ : Filter → String
  | .or fs => "{\"or\":[" ++ ",".intercalate (fs.map fltJ) ++ "]}"
  | .and fs => "{\"and\":[" ++ ",".intercalate (fs.map fltJ) ++ "]}"
  | .atom a => "{\"atom\":" ++ atomJ a ++ "}"
partial def atomJ : FilterAtom → String
  | .filter e n => "{\"f\":" ++ fltJ e ++ ",\"not\":" ++ toString n ++ "}"
  | .test e n => "{\"t\":" ++ testJ e ++ ",\"not\":" ++ toString n ++ "}"
  | .cmp op l r => "{\"c\":[\"" ++ op.str ++ "\"," ++ cmpbJ l ++ "," ++ cmpbJ r ++ "]}"
partial def cmpbJ : Comparable → String
  | .lit l => "{\"lit\":" ++ litJ l ++ "}"
  | .fn f => "{\"fn\":" ++ fnJ f ++ "}"
  | .sq root segs => "{\"sq\":[\"" ++ (if root then "$" else "@") ++ "\",[" ++ ",".intercalate (segs.map sqJ) ++ "]]}"
partial def testJ : Test → String
  | .rel s => "{\"rel\":[" ++ ",".intercalate (s.map segJ) ++ "]}"
  | .abs s => "{\"abs\":[" ++ ",".intercalate (s.map segJ) ++ "]}"
  | .fn f => "{\"fn\":" ++ fnJ f ++ "}"
partial def argJ : FnArg → String
  | .lit l => "{\"lit\":" ++ litJ l ++ "}"
  | .test t => "{\"t\":" ++ testJ t ++ "}"
  | .filter f => "{\"f\":" ++ fltJ f ++ "}"
partial def fnJ : TestFunction → String
  | .custom n a => "{\"name\":" ++ cps ("custom:".toList ++ n) ++ ",\"args\":[" ++ ",".intercalate (a.map argJ) ++ "]}"
  | .length a => "{\"name\":" ++ cps "length".toList ++ ",\"args\":[" ++ argJ a ++ "]}"
  | .value a => "{\"name\":" ++ cps "value".toList ++ ",\"args\":[" ++ argJ a ++ "]}"
  | .count a => "{\"name\":" ++ cps "count".toList ++ ",\"args\":[" ++ argJ a ++ "]}"
  | .search a b => "{\"name\":" ++ cps "search".toList ++ ",\"args\":[" ++ argJ a ++ "," ++ argJ b ++ "]}"
  | .match a b => "{\"name\":" ++ cps "match".toList ++ ",\"args\":[" ++ argJ a ++ "," ++ argJ b ++ "]}"
end

/-- does the exact rational `n/d` round to a finite IEEE-754 double (round to nearest, ties to even)? Values of magnitude at least
2^1024 − 2^970 round to ±infinity; denominator 0 marks a decimal exponent far beyond that -/
def f64Finite (n : Int) (d : Nat) : Bool := d != 0 && decide (n.natAbs < d * (2 ^ 1024 - 2 ^ 970))

end JP
