import JsonPathVerif.ParserWT
/-! C05, parser side: `&&` binds tighter than `||`.  Whatever pair tree the builder is handed, a logical expression it builds is
a disjunction (`or`) of conjunctions (`and`) of atoms – never a conjunction that contains a bare disjunction.  (Parenthesised
sub-expressions are atoms: `FilterAtom.filter`.)  Together with `C05_logical` this fixes the truth table of `a || b && c`. -/
namespace JP

/-- a conjunction level: a single atom, or `and` of atoms -/
def AndShape (f : Filter) : Prop := (∃ a, f = .atom a) ∨ (∃ fs, f = .and fs ∧ ∀ g ∈ fs, ∃ a, g = .atom a)
/-- a disjunction level: a conjunction level, or `or` of conjunction levels -/
def OrShape (f : Filter) : Prop := AndShape f ∨ (∃ fs, f = .or fs ∧ ∀ g ∈ fs, AndShape g)

theorem logicalExprAndB_shape (fuel : Nat) (inp : Inp) (p : PairT) (f : Filter) (h : logicalExprAndB fuel inp p = .ok f) : AndShape f := by
  cases fuel with
  | zero => simp [logicalExprAndB, err] at h
  | succ fuel =>
    unfold logicalExprAndB at h
    generalize hm : mapR _ (Pair.inner p) = m at h
    cases m with
    | error e => simp at h
    | ok fs =>
      have hall := mapR_all (P := fun x => ∃ a, x = Filter.atom a) (fun x y hxy => by
        cases ha : filterAtomB fuel inp x with
        | error e => simp [ha] at hxy
        | ok a => simp only [ha] at hxy; cases hxy; exact ⟨a, rfl⟩) _ _ hm
      match fs, hall, h with
      | [g], hall, h => cases ok_pure _ _ h; exact .inl (hall _ (by simp))
      | [], hall, h => cases ok_pure _ _ h; exact .inr ⟨[], rfl, fun g hg => by simp at hg⟩
      | a :: b :: r, hall, h => cases ok_pure _ _ h; exact .inr ⟨_, rfl, hall⟩

theorem logicalExprB_shape (fuel : Nat) (inp : Inp) (p : PairT) (f : Filter) (h : logicalExprB fuel inp p = .ok f) : OrShape f := by
  cases fuel with
  | zero => simp [logicalExprB, err] at h
  | succ fuel =>
    unfold logicalExprB at h
    cases hm : mapR (logicalExprAndB fuel inp) p.inner with
    | error e => simp [hm] at h
    | ok fs =>
      have hall := mapR_all (P := AndShape) (fun x y hxy => logicalExprAndB_shape fuel inp x y hxy) _ _ hm
      rw [hm] at h
      match fs, hall, h with
      | [g], hall, h => cases ok_pure _ _ h; exact .inl (hall _ (by simp))
      | [], hall, h => cases ok_pure _ _ h; exact .inr ⟨[], rfl, fun g hg => by simp at hg⟩
      | a :: b :: r, hall, h => cases ok_pure _ _ h; exact .inr ⟨_, rfl, hall⟩

end JP
