import JsonPathVerif.Parser
import JsonPathVerif.Validity
namespace JP

theorem trimBlank_cons_blank (c : Char) (s : Str) (hb : isBlank c = true) : trimBlank (c :: s) ≠ c :: s := by
  intro h
  have hlen : (trimBlank (c :: s)).length ≤ s.length := by
    unfold trimBlank
    simp only [List.length_reverse]
    have h1 : ((List.dropWhile isBlank (c :: s)).reverse.dropWhile isBlank).length ≤ (List.dropWhile isBlank (c :: s)).reverse.length :=
      (List.dropWhile_sublist _).length_le
    have h2 : (List.dropWhile isBlank (c :: s)).length ≤ s.length := by
      simp only [List.dropWhile_cons, hb, if_true]
      exact (List.dropWhile_sublist _).length_le
    simp only [List.length_reverse] at h1
    omega
  rw [h] at hlen
  simp only [List.length_cons] at hlen
  omega

theorem trimBlank_snoc_blank (c : Char) (s : Str) (hb : isBlank c = true) : trimBlank (s ++ [c]) ≠ s ++ [c] := by
  intro h
  have hlast : ∀ t : Str, (t.reverse.dropWhile isBlank).reverse.getLast? ≠ some c := by
    intro t
    cases hr : t.reverse.dropWhile isBlank with
    | nil => simp
    | cons x xs =>
      have hx : isBlank x = false := by
        have := List.head_dropWhile_not (p := isBlank) (l := t.reverse) (by rw [hr]; simp)
        simpa [hr] using this
      simp only [List.reverse_cons, List.getLast?_append, List.getLast?_singleton, Option.some_or]
      intro hc; injection hc with hc; rw [hc] at hx; rw [hx] at hb; cases hb
  have := hlast (List.dropWhile isBlank (s ++ [c]))
  unfold trimBlank at h
  rw [h] at this
  simp at this

/-- leading or trailing blank space: rejected (the parser never looks at the rest) -/
theorem outer_blank_rejected (s : Str) (c : Char) (hb : isBlank c = true) :
    parseJsonPath (c :: s) = err ∧ parseJsonPath (s ++ [c]) = err := by
  constructor
  · unfold parseJsonPath
    have := trimBlank_cons_blank c s hb
    simp [Ne.symm this]
  · unfold parseJsonPath
    have := trimBlank_snoc_blank c s hb
    simp [Ne.symm this]

/-- and the RFC agrees for the leading one outright: a query starts with `$` -/
theorem leading_blank_invalid (s : Str) (c : Char) (hb : isBlank c = true) : Rfc.verdict (c :: s) = .invalid := by
  have hc : c ≠ '$' := by
    intro h; subst h; simp [isBlank] at hb
  unfold Rfc.verdict Abnf.parseAll
  split
  · rename_i r heq; injection heq with h1 _; exact absurd h1 hc
  · rfl

end JP
