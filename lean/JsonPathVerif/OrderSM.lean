import JsonPathVerif.Order
import JsonPathVerif.KF
/-! C02, exact characterisation of the deviation: the evaluator concatenates a multi-selector segment
selector-major (all results of the first selector over all input nodes, then the second, …) where RFC 9535 prescribes
node-major.  `Spec.querySM` is the RFC semantics with exactly that one change; the model equals it for ALL well-formed
queries, as lists.  Where no multi-selector segment receives two or more nodes the two orders coincide. -/
namespace JP
open List
variable (E : Engine) (root : Json)

namespace Spec
def selAllSM (E : Engine) (root : Json) (ss : List Selector) (ns : List Node) : List Node := ss.flatMap fun s => ns.flatMap (sel E root s)
def segSM (E : Engine) (root : Json) : Segment → List Node → List Node
  | .selector s, ns => ns.flatMap (sel E root s)
  | .selectors ss, ns => selAllSM E root ss ns
  | .descendant s, ns => segSM E root s (ns.flatMap fun n => desc n.1 n.2)
def segsSM (E : Engine) (root : Json) : List Segment → List Node → List Node
  | [], ns => ns
  | s :: ss, ns => segsSM E root ss (segSM E root s ns)
def querySM (E : Engine) (ss : List Segment) (d : Json) : List Node := segsSM E d ss [([], d)]
end Spec

theorem selAll_sm : ∀ (ss : List Selector) (d : Data), ss ≠ [] → okSels ss → d.shaped →
    (Selector.processAll E root ss d).shaped ∧
    nodesOf (Selector.processAll E root ss d) = Spec.selAllSM E root ss (nodesOf d)
  | [], _, hne, _, _ => absurd rfl hne
  | [s], d, _, hs, hd => by
      obtain ⟨h2, h3⟩ := sel_spec E root s d (by simpa [okSels] using hs) hd
      exact ⟨by simpa [Selector.processAll] using h2, by simp [Selector.processAll, h3, Spec.selAllSM]⟩
  | s :: s' :: ss, d, _, hs, hd => by
      have hs' : okSel s ∧ okSels (s' :: ss) := by simpa [okSels] using hs
      obtain ⟨h1, h2⟩ := sel_spec E root s d hs'.1 hd
      obtain ⟨h3, h4⟩ := selAll_sm (s' :: ss) d (by simp) hs'.2 hd
      refine ⟨Data.shaped_reduce _ _, ?_⟩
      have h2' : (s.process E root d).toVec.map toN = (nodesOf d).flatMap (Spec.sel E root s) := h2
      have h4' : (Selector.processAll E root (s' :: ss) d).toVec.map toN = Spec.selAllSM E root (s' :: ss) (nodesOf d) := h4
      simp only [Selector.processAll, nodesOf, Data.toVec_reduce _ _ h1 h3, List.map_append, h2', h4']
      simp [Spec.selAllSM, nodesOf]

theorem selAllSM_filter (ss : List Selector) (ns : List Spec.Node) :
    Spec.selAllSM E root ss (ns.filter isCont) = Spec.selAllSM E root ss ns := by
  unfold Spec.selAllSM
  congr 1; funext s
  exact flatMap_filter_of_nil isCont (Spec.sel E root s) ns (fun n hn => Spec.sel_scalar E root s n hn)

theorem seg_sm (s : Segment) (d : Data) (hs : okSeg s) (hd : d.shaped) :
    (s.process E root d).shaped ∧ nodesOf (s.process E root d) = Spec.segSM E root s (nodesOf d) := by
  match s, hs with
  | .descendant (.descendant _), hs => exact absurd hs (by simp [okSeg])
  | .selector s, hs =>
    obtain ⟨h1, h2⟩ := sel_spec E root s d (by simpa [okSeg] using hs) hd
    exact ⟨by simpa [Segment.process] using h1, by simp [Segment.process, Spec.segSM, h2]⟩
  | .selectors ss, hs =>
    have hs' : ss ≠ [] ∧ okSels ss := by simpa [okSeg] using hs
    simpa [Segment.process, Spec.segSM] using selAll_sm E root ss d hs'.1 hs'.2 hd
  | .descendant (.selector s), hs =>
    have hd' : (d.flatMap processDescendant).shaped := Data.shaped_flatMap _ _ processDescendant_shaped
    obtain ⟨h1, h2⟩ := sel_spec E root s (d.flatMap processDescendant) (by simpa [okSeg] using hs) hd'
    refine ⟨by simpa [Segment.process] using h1, ?_⟩
    simp only [Segment.process, Spec.segSM, h2, desc_nodes d hd]
    rw [flatMap_filter_of_nil isCont (Spec.sel E root s) _ (fun n hn => Spec.sel_scalar E root s n hn)]
  | .descendant (.selectors ss), hs =>
    have hs' : ss ≠ [] ∧ okSels ss := by simpa [okSeg] using hs
    have hd' : (d.flatMap processDescendant).shaped := Data.shaped_flatMap _ _ processDescendant_shaped
    obtain ⟨h1, h2⟩ := selAll_sm E root ss (d.flatMap processDescendant) hs'.1 hs'.2 hd'
    refine ⟨by simpa [Segment.process] using h1, ?_⟩
    simp only [Segment.process, Spec.segSM, h2, desc_nodes d hd]
    exact selAllSM_filter E root ss _

theorem segs_sm : ∀ (ss : List Segment) (d : Data), okSegs ss → d.shaped →
    (Segment.processList E root ss d).shaped ∧
    nodesOf (Segment.processList E root ss d) = Spec.segsSM E root ss (nodesOf d)
  | [], d, _, hd => by simp [Segment.processList, Spec.segsSM, hd]
  | s :: ss, d, hs, hd => by
    have hs' : okSeg s ∧ okSegs ss := by simpa [okSegs] using hs
    obtain ⟨h1, h2⟩ := seg_sm E root s d hs'.1 hd
    obtain ⟨h3, h4⟩ := segs_sm ss (s.process E root d) hs'.2 h1
    exact ⟨by simpa [Segment.processList] using h3, by simp only [Segment.processList, Spec.segsSM, h4, h2]⟩

/-- C02, characterisation: for EVERY well-formed query the result list is the selector-major variant of the RFC nodelist -/
theorem query_characterised (segs : List Segment) (hs : okSegs segs) :
    ∃ ps, jsPathProcess E segs root = .ok ps ∧ ps.map toN = Spec.querySM E segs root := by
  obtain ⟨h1, h2⟩ := segs_sm E root segs (rootData root) hs trivial
  unfold jsPathProcess Spec.querySM
  have hroot : nodesOf (rootData root) = [([], root)] := rfl
  rw [hroot] at h2
  revert h1 h2
  generalize Segment.processList E root segs (rootData root) = r
  intro h1 h2
  cases r with
  | ref p => exact ⟨[p], rfl, by simpa [nodesOf, Data.toVec] using h2⟩
  | refs ps => exact ⟨ps, rfl, by simpa [nodesOf, Data.toVec] using h2⟩
  | nothing => exact ⟨[], rfl, by simpa [nodesOf, Data.toVec] using h2⟩
  | value v => exact absurd h1 (by simp)

/-- with at most one input node the two concatenation orders coincide -/
theorem selAllSM_small (ss : List Selector) (ns : List Spec.Node) (h : ns.length ≤ 1) :
    Spec.selAllSM E root ss ns = ns.flatMap (Spec.selAll E root ss) := by
  match ns, h with
  | [], _ =>
    simp only [Spec.selAllSM, List.flatMap_nil]
    induction ss with
    | nil => rfl
    | cons s ss ih => simpa [List.flatMap_cons] using ih
  | [n], _ =>
    simp only [Spec.selAllSM, List.flatMap_cons, List.flatMap_nil, List.append_nil]
    induction ss with
    | nil => rfl
    | cons s ss ih => simp [List.flatMap_cons, Spec.selAll, ih]

/-- with at most one selector the two concatenation orders coincide as well -/
theorem selAllSM_single (ss : List Selector) (ns : List Spec.Node) (h : ss.length ≤ 1) :
    Spec.selAllSM E root ss ns = ns.flatMap (Spec.selAll E root ss) := by
  match ss, h with
  | [], _ => simp [Spec.selAllSM, Spec.selAll]
  | [s], _ => simp [Spec.selAllSM, Spec.selAll]

/-- a segment agrees with the RFC order unless it has several selectors AND receives several nodes -/
theorem segSM_eq : ∀ (s : Segment) (ns : List Spec.Node), KF.segSelCount s ≤ 1 ∨ (KF.segInput s ns).length ≤ 1 →
    Spec.segSM E root s ns = Spec.seg E root s ns
  | .selector _, _, _ => rfl
  | .selectors ss, ns, h => by
    simp only [Spec.segSM, Spec.seg]
    rcases h with h | h
    · exact selAllSM_single E root ss ns h
    · exact selAllSM_small E root ss ns h
  | .descendant s, ns, h => by
    simp only [Spec.segSM, Spec.seg]
    exact segSM_eq s _ h

def noMultiOnMulti : List Segment → List Spec.Node → Prop
  | [], _ => True
  | s :: ss, ns => (KF.segSelCount s ≤ 1 ∨ (KF.segInput s ns).length ≤ 1) ∧ noMultiOnMulti ss (Spec.seg E root s ns)

/-- the Boolean class evaluated by the check on every generated case is exactly the hypothesis of the theorem -/
theorem noMulti_of_flag : ∀ (ss : List Segment) (ns : List Spec.Node), KF.multiSelOnMulti E root ss ns = false → noMultiOnMulti E root ss ns
  | [], _, _ => trivial
  | s :: ss, ns, h => by
    simp only [KF.multiSelOnMulti, Bool.or_eq_false_iff, Bool.and_eq_false_imp, decide_eq_true_eq, decide_eq_false_iff_not] at h
    refine ⟨?_, noMulti_of_flag ss _ h.2⟩
    by_cases hc : KF.segSelCount s ≥ 2
    · right; have := h.1 hc; omega
    · left; omega

theorem segsSM_eq : ∀ (ss : List Segment) (ns : List Spec.Node), noMultiOnMulti E root ss ns →
    Spec.segsSM E root ss ns = Spec.segs E root ss ns
  | [], _, _ => rfl
  | s :: ss, ns, h => by
    simp only [Spec.segsSM, Spec.segs, segSM_eq E root s ns h.1]
    exact segsSM_eq ss _ h.2

/-- C02 (partial, sharp): RFC order for every well-formed query in which no multi-selector segment receives two or more nodes -/
theorem query_ordered_sharp (segs : List Segment) (hs : okSegs segs) (hm : KF.multiSelOnMulti E root segs [([], root)] = false) :
    ∃ ps, jsPathProcess E segs root = .ok ps ∧ ps.map toN = Spec.query E segs root := by
  obtain ⟨ps, h1, h2⟩ := query_characterised E root segs hs
  exact ⟨ps, h1, by rw [h2]; exact segsSM_eq E root segs _ (noMulti_of_flag E root segs _ hm)⟩

end JP
