import JsonPathVerif.SimG
/-! # C15 – evaluation depends only on the `Queryable` view of the data

`EvalG.lean` is the evaluator written against the trait's accessors only; `SimG.lean` proves that it commutes with any
faithful view `T → Json`. -/
namespace JP.C15
open JP

variable {T : Type} {Q : Queryable T} {view : T → Json}

/-- the four child selectors and the descendant expansion see the data only through the accessors -/
theorem wildcard_view (hf : Faithful Q view) (p : PtrG T) : viewD view (processWildcardG Q p) = processWildcard (viewP view p) :=
  processWildcardG_view hf p
theorem slice_view (hf : Faithful Q view) (a b c : Option Int) (p : PtrG T) :
    viewD view (processSliceG Q a b c p) = processSlice a b c (viewP view p) := processSliceG_view hf a b c p
theorem name_view (hf : Faithful Q view) (k : Str) (p : PtrG T) : viewD view (processKeyG Q k p) = processKey k (viewP view p) :=
  processKeyG_view hf k p
theorem index_view (hf : Faithful Q view) (i : Int) (p : PtrG T) : viewD view (processIndexG Q i p) = processIndex i (viewP view p) :=
  processIndexG_view hf i p
theorem descendant_view (hf : Faithful Q view) (p : PtrG T) : viewD view (descendantG Q p) = processDescendant (viewP view p) :=
  descendantG_view hf p

end JP.C15
