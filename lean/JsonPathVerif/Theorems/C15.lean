import JsonPathVerif.SimG
/-! # C15 – evaluation depends only on the `Queryable` view of the data

`EvalG.lean` is the evaluator of src/query/*.rs written against the trait's accessors only (a second transcription of the Rust
code, generic in the data type); `SimG.lean` proves that it commutes with ANY faithful view `T → Json`, for all queries
(selectors, segments, descendants, unions, nested filters, comparisons, all functions) and all documents. -/
namespace JP.C15
open JP

variable {T : Type} {Q : Queryable T} {view : T → Json}

/-- what a caller observes of a result: path, location and (viewed) value of every node, in order; or the error -/
def observeG (view : T → Json) : Except Unit (List (PtrG T)) → Except Unit (List (Str × Loc × Json))
  | .ok ps => .ok (ps.map fun p => (p.path, p.loc, view p.inner))
  | .error e => .error e
def observe : Except Unit (List Ptr) → Except Unit (List (Str × Loc × Json))
  | .ok ps => .ok (ps.map fun p => (p.path, p.loc, p.inner))
  | .error e => .error e

/-- full statement: running a query over any faithful `Queryable` type yields, position by position, the same paths (and
locations) and the views of the values that running it over the viewed JSON value yields; errors coincide -/
theorem C15 (hf : Faithful Q view) (E : Engine) (q : List Segment) (t : T) :
    observeG view (jsPathProcessG Q E t q) = observe (jsPathProcess E q (view t)) := by
  have h := jsPathProcessG_view hf E t q
  rw [← h]
  cases jsPathProcessG Q E t q <;> simp [observeG, observe, viewP, Function.comp_def]

/-- the `serde_json::Value` instance of the trait, as the model sees it -/
def jsonQ : Queryable Json where
  get := valueGet
  asArray := asArr
  asObject := asObj
  asStr := asStrJ
  num := numOf
  asBool := asBoolJ
  null := .null
  ofBool := .bool
  ofI64 := fun i => .num (.int i)
  ofF64 := fun n d => .num (.flt n d)
  ofStr := .str
  beq := Json.beq
  extensionCustom := extensionCustom
  depth := Json.depth

/-- non-vacuity: the hypothesis of `C15` is satisfiable – the identity is a faithful view of `Json` itself -/
theorem jsonQ_faithful : Faithful jsonQ id where
  asArray := fun t => by cases t <;> simp [jsonQ, asArr]
  asObject := fun t => by cases t <;> simp [jsonQ, asObj]
  get := fun t k => by simp [jsonQ]
  asStr := fun _ => rfl
  num := fun _ => rfl
  asBool := fun _ => rfl
  null := rfl
  ofBool := fun _ => rfl
  ofI64 := fun _ => rfl
  ofF64 := fun _ _ => rfl
  ofStr := fun _ => rfl
  beq := fun _ _ => rfl
  ext := fun _ _ => by simp [jsonQ]
  depth := fun _ => rfl

/-- consequently the accessor-only evaluator, instantiated at `Json`, IS the evaluator all other theorems are about:
the two transcriptions of the Rust code cannot drift apart -/
theorem evalG_at_json_is_eval (E : Engine) (q : List Segment) (d : Json) :
    observeG id (jsPathProcessG jsonQ E d q) = observe (jsPathProcess E q d) := C15 jsonQ_faithful E q d

/-- the building blocks, for reference: each selector, the descendant expansion, comparisons and functions see the data only
through the accessors -/
theorem wildcard_view (hf : Faithful Q view) (p : PtrG T) : viewD view (processWildcardG Q p) = processWildcard (viewP view p) :=
  processWildcardG_view hf p
theorem slice_view (hf : Faithful Q view) (a b c : Option Int) (p : PtrG T) :
    viewD view (processSliceG Q a b c p) = processSlice a b c (viewP view p) := processSliceG_view hf a b c p
theorem name_view (hf : Faithful Q view) (k : Str) (p : PtrG T) : viewD view (processKeyG Q k p) = processKey k (viewP view p) :=
  processKeyG_view hf k p
theorem index_view (hf : Faithful Q view) (i : Int) (p : PtrG T) : viewD view (processIndexG Q i p) = processIndex i (viewP view p) :=
  processIndexG_view hf i p
theorem descendant_view (hf : Faithful Q view) (p : PtrG T) : viewD view (descendantG Q p) = processDescendant (viewP view p) :=
  descendantG_view hf p
theorem comparison_view (hf : Faithful Q view) (op : CmpOp) (l r : DataG T) :
    cmpDataG Q op l r = cmpData op (viewD view l) (viewD view r) := cmpDataG_view hf op l r
theorem deep_equality_view (hf : Faithful Q view) (a b : T) : eqJsonG Q a b = eqJson (view a) (view b) := eqJsonG_view hf a b

end JP.C15
