import JsonPathVerif.Paths
import JsonPathVerif.NPath
import JsonPathVerif.PathAst
/-! # C03 – each reported path is the Normalized Path of the reported node -/
namespace JP.C03
open JP

def C03a_statement : Prop :=
  ∀ (E : Engine) (q : List Segment) (d : Json) (ps : List Ptr), jsPathProcess E q d = .ok ps →
    ∀ p ∈ ps, p.path = Spec.npath p.loc

def E0 : Engine := ⟨fun _ _ _ => false⟩
/-- `$["a"]` on `{"a": 1}` reports `$['"a"']` -/
def witnessQuery : List Segment := [.selector (.name ['"', 'a', '"'])]
def witnessDoc : Json := .obj [(['a'], .num (.int 1))]

theorem witness_path : (match jsPathProcess E0 witnessQuery witnessDoc with
    | .ok [p] => some (p.path, Spec.npath p.loc) | _ => none)
    = some ("$['\"a\"']".toList, "$['a']".toList) := by decide

theorem C03a_refuted : ¬ C03a_statement := by
  intro h
  have hw := witness_path
  cases hr : jsPathProcess E0 witnessQuery witnessDoc with
  | error e => rw [hr] at hw; simp at hw
  | ok ps =>
    rw [hr] at hw
    match ps, hw with
    | [p], hw =>
      have := h E0 witnessQuery witnessDoc [p] hr p (by simp)
      simp only [Option.some.injEq, Prod.mk.injEq] at hw
      rw [hw.1, hw.2] at this
      revert this; decide

theorem C03a_partial (E : Engine) (q : List Segment) (d : Json) (hd : d.plainKeys = true) (hn : nnSegs q)
    (ps : List Ptr) (h : jsPathProcess E q d = .ok ps) : ∀ p ∈ ps, p.path = Spec.npath p.loc :=
  fun p hp => (result_paths E d hd q hn ps h p hp).1

/-- (b) for ALL locations, arbitrary member names included: the Normalized Path determines the node (a decoder inverts it) -/
theorem C03b_injective (l₁ l₂ : Loc) (h : Spec.npath l₁ = Spec.npath l₂) : l₁ = l₂ := NPath.npath_injective l₁ l₂ h
theorem C03b_decodable (l : Loc) : NPath.parseNPath (Spec.npath l) = some l := NPath.parseNPath_npath l

/-- (a)+(b): under the hypotheses of `C03a_partial`, two results of one query carry the same path exactly when they are the same node -/
theorem C03b_results (E : Engine) (q : List Segment) (d : Json) (hd : d.plainKeys = true) (hn : nnSegs q)
    (ps : List Ptr) (h : jsPathProcess E q d = .ok ps) (p₁ p₂ : Ptr) (h₁ : p₁ ∈ ps) (h₂ : p₂ ∈ ps) :
    p₁.path = p₂.path ↔ p₁.loc = p₂.loc := by
  rw [C03a_partial E q d hd hn ps h p₁ h₁, C03a_partial E q d hd hn ps h p₂ h₂]
  exact ⟨NPath.npath_injective _ _, fun e => by rw [e]⟩

/-- (c), AST level: for a location whose member names need no escaping, the AST of its Normalized Path, run as a query, returns
exactly the node at that location, reported with that very path – and nothing if the location does not exist.  (That the parser
maps the text `npath l` to this AST is carried by the correspondence: every reported path is re-queried on the real crate.) -/
theorem C03c_ast (E : Engine) (d : Json) (l : Loc) (h : plainLoc l = true) :
    jsPathProcess E (segsOfLoc l) d = .ok (match d.at l with | some v => [⟨l, v, Spec.npath l⟩] | none => []) :=
  query_of_npath_ast E d l h

/-- non-vacuity: names that need every kind of escape round-trip through the decoder -/
example : NPath.parseNPath (Spec.npath [.key "a'b\\\n".toList, .idx 10, .key [Char.ofNat 1]]) = some [.key "a'b\\\n".toList, .idx 10, .key [Char.ofNat 1]] :=
  NPath.parseNPath_npath _

end JP.C03
