import JsonPathVerif.Paths
/-! # C03 – each reported path is the Normalized Path of the reported node -/
namespace JP.C03
open JP

def C03a_statement : Prop :=
  ∀ (E : Engine) (q : List Segment) (d : Json) (ps : List Ptr), jsPathProcess E q d = .ok ps →
    ∀ p ∈ ps, p.path = Spec.npath p.loc

def E0 : Engine := ⟨fun _ _ _ => false⟩
/-- `$["a"]` on `{"a": 1}` reports `$['"a"']` -/
def witnessQuery : List Segment := [.selector (.name ['"', 'a', '"'])]
def witnessDoc : Json := .obj [(['a'], .num (.int 1))]

theorem witness_path : (match jsPathProcess E0 witnessQuery witnessDoc with
    | .ok [p] => some (p.path, Spec.npath p.loc) | _ => none)
    = some ("$['\"a\"']".toList, "$['a']".toList) := by decide

theorem C03a_refuted : ¬ C03a_statement := by
  intro h
  have hw := witness_path
  cases hr : jsPathProcess E0 witnessQuery witnessDoc with
  | error e => rw [hr] at hw; simp at hw
  | ok ps =>
    rw [hr] at hw
    match ps, hw with
    | [p], hw =>
      have := h E0 witnessQuery witnessDoc [p] hr p (by simp)
      simp only [Option.some.injEq, Prod.mk.injEq] at hw
      rw [hw.1, hw.2] at this
      revert this; decide

theorem C03a_partial (E : Engine) (q : List Segment) (d : Json) (hd : d.plainKeys = true) (hn : nnSegs q)
    (ps : List Ptr) (h : jsPathProcess E q d = .ok ps) : ∀ p ∈ ps, p.path = Spec.npath p.loc :=
  fun p hp => (result_paths E d hd q hn ps h p hp).1

end JP.C03
