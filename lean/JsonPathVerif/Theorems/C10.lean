import JsonPathVerif.Theorem
import JsonPathVerif.Regex
import JsonPathVerif.RegexSem
import JsonPathVerif.RegexFn
/-! # C10 – length, count, value, match and search behave as RFC 9535 defines -/
namespace JP.C10
open JP

/-- `length`: scalars of a string, elements, members; nothing otherwise -/
theorem length_spec (d : Data) (hd : d.cmpShape) : dataVal (lengthFn d) = Spec.lengthOf (dataVal d) :=
  (lengthFn_spec d hd).2
/-- `count`: the number of selected nodes, 0 for none -/
theorem count_spec (d : Data) (hd : d.shaped) : dataVal (countFn d) = some (.num (.int (nodesOf d).length)) :=
  (countFn_spec d hd).2
theorem count_nothing : dataVal (countFn .nothing) = some (.num (.int 0)) := rfl
/-- `value`: the single node's value, nothing otherwise -/
theorem value_spec (d : Data) (hd : d.shaped) :
    dataVal (valueFn d) = (match nodesOf d with | [n] => some n.2 | _ => none) := (valueFn_spec d hd).2
/-- function results inside a query: value-typed calls denote the RFC value … -/
theorem fn_value (E : Engine) (root : Json) (f : TestFunction) (p : Ptr) (hf : okFnValue f) :
    dataVal (f.process E root (.ref p)) = Spec.fnValue E root (toN p) f := (fnValue_spec E root f p hf).2
/-- … and logical-typed calls the RFC truth value (relative to the regular-expression engine `E`) -/
theorem fn_logical (E : Engine) (root : Json) (f : TestFunction) (p : Ptr) (hf : okFnLogical f) :
    boolOf (f.process E root (.ref p)) = Spec.fnLogical E root (toN p) f := fnLogical_spec E root f p hf

/-- `length` counts Unicode scalar values: a non-BMP character counts once -/
example : (match dataVal (lengthFn (.value (.str [Char.ofNat 0x1D11E, 'a']))) with | some (.num (.int n)) => n | _ => -1) = 2 := by decide

-- regular expressions (dialect model): whole-string vs substring
def yes (v : Re.Verdict) : Bool := v == .yes
/-- top-level alternation is anchored as a whole (the defect D18 made this `true`) -/
example : yes (Re.regexFn "ab".toList "a|b".toList false) = false := by decide +kernel
example : yes (Re.regexFn "b".toList "a|b".toList false) = true := by decide +kernel
example : yes (Re.regexFn "xaby".toList "a|b".toList true) = true := by decide +kernel
/-- an invalid pattern is false, also when the wrapper would make it valid -/
example : yes (Re.regexFn "".toList "+x*".toList false) = false := by decide +kernel
/-- `a)|(b` is not a regular expression although `^(?:a)|(b)$` is one (the defect repaired by the second regex fix) -/
example : yes (Re.regexFn "a".toList "a)|(b".toList false) = false ∧ yes (Re.regexFn "xb".toList "a)|(b".toList false) = false := by decide +kernel
/-- a literal pattern loses the doubling of its backslashes, a pattern from the document does not (`toPatD`) -/
example : toPatD (.value (.str ['a', '\\', '\\', 'b'])) = some ['a', '\\', 'b'] ∧
    toPatD (.ref ⟨[], .str ['a', '\\', '\\', 'b'], []⟩) = some ['a', '\\', '\\', 'b'] := by decide


/-! ### `match` / `search` against the textbook semantics of regular expressions
`Re.L r w` is the language of an expression without `^`/`$` (defined by the usual rules, no
algorithm); `Re.M` is the positional relation that also knows the two anchors. The model's matcher
(`Re.isMatch`, what `Regex::is_match` is compared with) decides both, for every expression and
every string – including the fuel it runs on. -/

/-- the matcher finds a match iff one exists (sound, complete, enough fuel) -/
theorem matcher_decides (r : Re.Rx) (s : Str) :
    Re.isMatch r s = true ↔ ∃ i j, i ≤ s.length ∧ Re.M s.toArray r i j := Re.isMatch_iff r s
/-- `match(s, p)`: true iff the **entire** string is in the language of `p` (RFC 9535 2.4.6) -/
theorem match_is_whole_string (r : Re.Rx) (hr : Re.anchorFree r = true) (s : Str) :
    Re.isMatch (Re.anchored r) s = true ↔ Re.L r s := Re.match_whole r hr s
/-- `search(s, p)`: true iff **some substring** is in the language of `p` (RFC 9535 2.4.7) -/
theorem search_is_some_substring (r : Re.Rx) (hr : Re.anchorFree r = true) (s : Str) :
    Re.isMatch r s = true ↔ ∃ pre w post, s = pre ++ w ++ post ∧ Re.L r w := Re.search_substring r hr s

/-- `match(s, p)` as computed from the two strings: whenever the pattern parses to an anchor-free `r`, the answer is `yes` exactly
if the whole of `s` is in the language of `r` -/
theorem match_fn (s p : Str) (r : Re.Rx) (hp : Re.parse p = .ok r) (hr : Re.anchorFree r = true) :
    Re.regexFn s p false = .yes ↔ Re.L r s := Re.regexFn_match s p r hp hr
/-- `search(s, p)` as computed from the two strings -/
theorem search_fn (s p : Str) (r : Re.Rx) (hp : Re.parse p = .ok r) (hr : Re.anchorFree r = true) :
    Re.regexFn s p true = .yes ↔ ∃ pre w post, s = pre ++ w ++ post ∧ Re.L r w := Re.regexFn_search s p r hp hr
/-- a second argument that is not a regular expression gives LogicalFalse – the anchoring wrapper of `match` cannot rescue it -/
theorem invalid_pattern_is_false (s p : Str) (sub : Bool) (hp : Re.parse p = .invalid) : Re.regexFn s p sub = .no :=
  Re.regexFn_invalid s p sub hp

-- the wrapper `^(?:p)$` parses to `anchored` of what `p` parses to (tests on literals, not a theorem)
def sameRx : Re.Rx → Re.Rx → Bool
  | .eps, .eps | .any, .any | .bol, .bol | .eol, .eol => true
  | .chr c, .chr d => c == d
  | .cls n i, .cls m j => n == m && i == j
  | .seq a b, .seq c d | .alt a b, .alt c d => sameRx a c && sameRx b d
  | .star a, .star b | .plus a, .plus b | .opt a, .opt b => sameRx a b
  | _, _ => false
def parsedAs (p : String) (r : Re.Rx) : Bool := match Re.parse p.toList with | .ok r' => sameRx r' r | _ => false
example : parsedAs "^(?:a|b)$" (Re.anchored (.alt (.seq .eps (.chr 'a')) (.seq .eps (.chr 'b')))) = true := by decide +kernel
example : parsedAs "a|b" (.alt (.seq .eps (.chr 'a')) (.seq .eps (.chr 'b'))) = true := by decide +kernel
-- non-vacuity: an anchor-free expression, a word of its language, and the three theorems at work
example : Re.anchorFree (.seq (.star (.chr 'a')) (.chr 'b')) = true := rfl
example : Re.L (.seq (.star (.chr 'a')) (.chr 'b')) ['a', 'a', 'b'] :=
  .seq (u := ['a', 'a']) (.starCons (u := ['a']) (.chr 'a') (.starCons (u := ['a']) (v := []) (.chr 'a') .starNil)) (.chr 'b')

end JP.C10
