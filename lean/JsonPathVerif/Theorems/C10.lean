import JsonPathVerif.Theorem
import JsonPathVerif.Regex
/-! # C10 – length, count, value, match and search behave as RFC 9535 defines -/
namespace JP.C10
open JP

/-- `length`: scalars of a string, elements, members; nothing otherwise -/
theorem length_spec (d : Data) (hd : d.cmpShape) : dataVal (lengthFn d) = Spec.lengthOf (dataVal d) :=
  (lengthFn_spec d hd).2
/-- `count`: the number of selected nodes, 0 for none -/
theorem count_spec (d : Data) (hd : d.shaped) : dataVal (countFn d) = some (.num (.int (nodesOf d).length)) :=
  (countFn_spec d hd).2
theorem count_nothing : dataVal (countFn .nothing) = some (.num (.int 0)) := rfl
/-- `value`: the single node's value, nothing otherwise -/
theorem value_spec (d : Data) (hd : d.shaped) :
    dataVal (valueFn d) = (match nodesOf d with | [n] => some n.2 | _ => none) := (valueFn_spec d hd).2
/-- function results inside a query: value-typed calls denote the RFC value … -/
theorem fn_value (E : Engine) (root : Json) (f : TestFunction) (p : Ptr) (hf : okFnValue f) :
    dataVal (f.process E root (.ref p)) = Spec.fnValue E root (toN p) f := (fnValue_spec E root f p hf).2
/-- … and logical-typed calls the RFC truth value (relative to the regular-expression engine `E`) -/
theorem fn_logical (E : Engine) (root : Json) (f : TestFunction) (p : Ptr) (hf : okFnLogical f) :
    boolOf (f.process E root (.ref p)) = Spec.fnLogical E root (toN p) f := fnLogical_spec E root f p hf

/-- `length` counts Unicode scalar values: a non-BMP character counts once -/
example : (match dataVal (lengthFn (.value (.str [Char.ofNat 0x1D11E, 'a']))) with | some (.num (.int n)) => n | _ => -1) = 2 := by decide

-- regular expressions (dialect model): whole-string vs substring
def yes (v : Re.Verdict) : Bool := v == .yes
/-- top-level alternation is anchored as a whole (the defect D18 made this `true`) -/
example : yes (Re.regexFn "ab".toList "a|b".toList false) = false := by decide
example : yes (Re.regexFn "b".toList "a|b".toList false) = true := by decide
example : yes (Re.regexFn "xaby".toList "a|b".toList true) = true := by decide
/-- an invalid pattern is false, also when the wrapper would make it valid -/
example : yes (Re.regexFn "".toList "+x*".toList false) = false := by decide

end JP.C10
