import JsonPathVerif.Theorem
import JsonPathVerif.C11
import JsonPathVerif.Checked
/-! # C08 – parsing and evaluation never panic, abort or hang (what a total functional model can carry)

* every `Impl` function is a total Lean function; the two `while` loops of `process_slice` are the well-founded
  recursions `loopPos`/`loopNeg`, whose termination measures are accepted by the kernel only because `step ≠ 0` in the
  respective branch;
* evaluating a well-formed query never returns `Err`;
* every index the slice loop produces is inside the array (no out-of-bounds access is attempted).
Stack depth and wall-clock time are outside a functional model: observed by the isolated-worker correspondence. -/
namespace JP.C08
open JP

/-- evaluation of a well-formed query always succeeds -/
theorem eval_never_err (E : Engine) (q : List Segment) (d : Json) (hq : okSegs q) :
    ∃ ps, jsPathProcess E q d = .ok ps := by
  obtain ⟨ps, h, _⟩ := query_perm E d q hq
  exact ⟨ps, h⟩

/-- the slice loop only produces in-range indices: `elements.get(i)` never misses, `as usize` never wraps -/
theorem slice_indices_in_bounds (a b c : Option Int) (len : Nat) :
    ∀ i ∈ sliceIndices a b c len, 0 ≤ i ∧ i < len := by
  rw [sliceIndices_spec]
  exact slice_inRange a b c len (Int.natCast_nonneg len)

theorem loopPos_length (e upper idx : Int) (he : 0 < e) : (loopPos e upper idx he).length ≤ (upper - idx).toNat := by
  fun_induction loopPos e upper idx he with
  | case1 idx h ih => simp only [List.length_cons]; omega
  | case2 idx h => simp

theorem loopNeg_length (e lower idx : Int) (he : e < 0) : (loopNeg e lower idx he).length ≤ (idx - lower).toNat := by
  fun_induction loopNeg e lower idx he with
  | case1 idx h ih => simp only [List.length_cons]; omega
  | case2 idx h => simp

/-- the number of iterations of the slice loops is bounded by the array length, whatever the bounds and the step
(extreme steps included): no unbounded loop -/
theorem slice_iterations_bounded (a b c : Option Int) (len : Nat) : (sliceIndices a b c len).length ≤ len := by
  unfold sliceIndices
  simp only
  split
  · rename_i h
    refine Nat.le_trans (loopPos_length _ _ _ h) ?_
    omega
  · split
    · rename_i h
      refine Nat.le_trans (loopNeg_length _ _ _ h) ?_
      omega
    · simp

/-- no arithmetic overflow in slice selection: with every `i64` operation of `process_slice` checked (`idx.abs()`, `len + i`,
`len - 1`, `-len - 1`, `idx += step`), all bounds and the step in the I-JSON range the parser admits (extremes ±(2^53-1)
included) and any array length up to 2^62, no operation overflows and the result is the unchecked model's -/
theorem slice_no_overflow (a b c : Option Int) (len : Int) (ha : Checked.inJO a) (hb : Checked.inJO b) (hc : Checked.inJO c)
    (h0 : 0 ≤ len) (hlen : len ≤ 4611686018427387904) : Checked.cSlice a b c len = some (sliceIndices a b c len) :=
  Checked.cSlice_ok a b c len ha hb hc h0 hlen

/-- no arithmetic overflow in index selection for every index the parser admits -/
theorem index_no_overflow (idx : Int) (len : Nat) (hi : Checked.inJ idx) (hlen : (len : Int) ≤ 4611686018427387904) :
    Checked.cIndex idx len = some ((implIndex idx len).map fun (n : Nat) => (n : Int)) := Checked.cIndex_ok idx len hi hlen

/-- the range check is necessary: at `i64::MIN` `idx.abs()` overflows (defect D10, repaired in the parser) -/
theorem index_overflow_at_i64_min (len : Int) : Checked.cIndex Checked.I64_MIN len = none := Checked.cIndex_min_panics len

/-- non-vacuity: the extreme slice `[2^53-1 : -(2^53-1) : -(2^53-1)]` satisfies the hypotheses -/
example : Checked.inJO (some 9007199254740991) ∧ Checked.inJO (some (-9007199254740991)) ∧ Checked.inJO none := by
  simp [Checked.inJO, Checked.inJ]

end JP.C08
