import JsonPathVerif.Theorem
import JsonPathVerif.C11
/-! # C08 – parsing and evaluation never panic, abort or hang (what a total functional model can carry)

* every `Impl` function is a total Lean function; the two `while` loops of `process_slice` are the well-founded
  recursions `loopPos`/`loopNeg`, whose termination measures are accepted by the kernel only because `step ≠ 0` in the
  respective branch;
* evaluating a well-formed query never returns `Err`;
* every index the slice loop produces is inside the array (no out-of-bounds access is attempted).
Stack depth and wall-clock time are outside a functional model: observed by the isolated-worker correspondence. -/
namespace JP.C08
open JP

/-- evaluation of a well-formed query always succeeds -/
theorem eval_never_err (E : Engine) (q : List Segment) (d : Json) (hq : okSegs q) :
    ∃ ps, jsPathProcess E q d = .ok ps := by
  obtain ⟨ps, h, _⟩ := query_perm E d q hq
  exact ⟨ps, h⟩

/-- the slice loop only produces in-range indices: `elements.get(i)` never misses, `as usize` never wraps -/
theorem slice_indices_in_bounds (a b c : Option Int) (len : Nat) :
    ∀ i ∈ sliceIndices a b c len, 0 ≤ i ∧ i < len := by
  rw [sliceIndices_spec]
  exact slice_inRange a b c len (Int.natCast_nonneg len)

theorem loopPos_length (e upper idx : Int) (he : 0 < e) : (loopPos e upper idx he).length ≤ (upper - idx).toNat := by
  fun_induction loopPos e upper idx he with
  | case1 idx h ih => simp only [List.length_cons]; omega
  | case2 idx h => simp

theorem loopNeg_length (e lower idx : Int) (he : e < 0) : (loopNeg e lower idx he).length ≤ (idx - lower).toNat := by
  fun_induction loopNeg e lower idx he with
  | case1 idx h ih => simp only [List.length_cons]; omega
  | case2 idx h => simp

/-- the number of iterations of the slice loops is bounded by the array length, whatever the bounds and the step
(extreme steps included): no unbounded loop -/
theorem slice_iterations_bounded (a b c : Option Int) (len : Nat) : (sliceIndices a b c len).length ≤ len := by
  unfold sliceIndices
  simp only
  split
  · rename_i h
    refine Nat.le_trans (loopPos_length _ _ _ h) ?_
    omega
  · split
    · rename_i h
      refine Nat.le_trans (loopNeg_length _ _ _ h) ?_
      omega
    · simp

end JP.C08
