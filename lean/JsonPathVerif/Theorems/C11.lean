import JsonPathVerif.C11
/-! # C11 – index and slice arithmetic is exact for all bounds and lengths -/
namespace JP.C11T
open JP

theorem C11_index (idx : Int) (len : Nat) :
    (implIndex idx len).map (fun (n : Nat) => (n : Int)) = SpecS.index idx len := implIndex_spec idx len
theorem C11_slice (a b c : Option Int) (len : Int) : sliceIndices a b c len = SpecS.slice a b c len :=
  sliceIndices_spec a b c len
theorem C11_inRange (a b c : Option Int) (len : Int) (h : 0 ≤ len) : ∀ x ∈ SpecS.slice a b c len, 0 ≤ x ∧ x < len :=
  slice_inRange a b c len h
theorem C11_step_zero (a b : Option Int) (len : Int) : SpecS.slice a b (some 0) len = [] := slice_step_zero a b len
-- non-vacuity / sanity: RFC example `[1:5:2]` on a length-7 array and a negative step
example : SpecS.slice (some 1) (some 5) (some 2) 7 = [1, 3] := by
  have h : SpecS.slice (some 1) (some 5) (some 2) 7 = SpecS.up 2 5 1 (by decide) := by
    simp [SpecS.slice, SpecS.bounds, SpecS.normalize]
    congr 1
  rw [h, SpecS.up, SpecS.up, SpecS.up]; simp
end JP.C11T
