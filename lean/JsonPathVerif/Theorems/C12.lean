import JsonPathVerif.Api
/-! # C12 – entry points agree and evaluation is a pure function

What Lean carries here is thin and is labelled so (DESIGN 5.12): the *model* of the entry points is a projection of one
result, and a session over the model is stateless by construction.  That the real code has no hidden state (caches,
interior mutability, data races) is carried by the history / thread correspondence of the check. -/
namespace JP.C12
open JP

/-- `query` returns, position by position, the nodes of `query_with_path` -/
theorem query_is_projection (E : Engine) (s : Str) (d : Json) (ps : List Ptr) (h : queryWithPath E s d = .ok ps) :
    queryVals E s d = .ok (ps.map fun p => (p.loc, p.inner)) := by
  simp only [queryWithPath] at h; simp [queryVals, h]
/-- `query_only_path` returns, position by position, the paths of `query_with_path` -/
theorem paths_is_projection (E : Engine) (s : Str) (d : Json) (ps : List Ptr) (h : queryWithPath E s d = .ok ps) :
    queryPaths E s d = .ok (ps.map (·.path)) := by
  simp only [queryWithPath] at h; simp [queryPaths, h]
/-- the three entry points fail together -/
theorem errors_agree (E : Engine) (s : Str) (d : Json) (h : queryWithPath E s d = .error ()) :
    queryVals E s d = .error () ∧ queryPaths E s d = .error () := by
  simp only [queryWithPath] at h; simp [queryVals, queryPaths, h]
/-- same lengths: position-by-position agreement is meaningful -/
theorem same_length (E : Engine) (s : Str) (d : Json) (ps : List Ptr) (vs : List (Loc × Json)) (qs : List Str)
    (h : queryWithPath E s d = .ok ps) (hv : queryVals E s d = .ok vs) (hq : queryPaths E s d = .ok qs) :
    vs.length = ps.length ∧ qs.length = ps.length := by
  rw [query_is_projection E s d ps h] at hv; rw [paths_is_projection E s d ps h] at hq
  cases hv; cases hq; simp
/-- parse once = parse at every call -/
theorem parse_once (E : Engine) (s : Str) (q : List Segment) (h : parseJsonPath s = .ok q) (d : Json) :
    jsPath E s d = jsPathProcess E q d := by simp [jsPath, h]
/-- the result of an operation does not depend on the history before or after it -/
theorem history_independent (E : Engine) (pre post : List Op) (op : Op) :
    (runSession E (pre ++ [op] ++ post))[pre.length]? = some (runOp E op) := by
  simp [runSession]
/-- repetition gives the identical result -/
theorem repeatable (E : Engine) (op : Op) (n : Nat) : ∀ r ∈ runSession E (List.replicate n op), r = runOp E op := by
  intro r hr; simp [runSession] at hr; exact hr.2

end JP.C12
