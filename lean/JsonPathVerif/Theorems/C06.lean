import JsonPathVerif.Lex.Int
import JsonPathVerif.Lex.Names
import JsonPathVerif.Lex.Tokens
import JsonPathVerif.Parser
import JsonPathVerif.Validity
/-! # C06 – every valid RFC 9535 query is accepted (lexical layers proved on the GENERATED grammar)

`PestGrammar.lean` is re-derived from `/repo`'s `.pest` file on every check, so these theorems are re-checked against what
the grammar says now.  Proved so far: the integer layer.  Everything above the proved layers is decided by the
correspondence + oracle search only (see DESIGN 5.6). -/
namespace JP.C06
open JP JP.Pest JP.Lex

/-- full statement (kept visible): every RFC-valid string is accepted by the parser model -/
def C06_statement : Prop := ∀ s : Str, Rfc.verdict s = .valid → ∃ q, parseJsonPath s = .ok q

/-- layer 2, completeness direction: wherever the RFC `int` lexer succeeds, the grammar's `int` rule succeeds and
consumes exactly the same lexeme, in every parsing context -/
theorem C06_partial_int (c : Ctx) (pos : Nat) (r r' : Rest) (h : rfcInt r = some r') :
    ∃ s, int_ c pos r = some s ∧ s.rest = r' := by
  have := int_spec c pos r
  rw [h] at this
  cases hi : int_ c pos r with
  | none => simp [hi] at this
  | some s => simp [hi] at this; exact ⟨s, rfl, this⟩

/-- layer 4a, completeness: wherever RFC `member-name-shorthand` lexes (any name-first character, incl. every non-ASCII one such
as U+00A0 or U+2003, then name-chars), the grammar's rule accepts the same lexeme, in every parsing context -/
theorem C06_partial_shorthand (c : Ctx) (pos : Nat) (r r' : Rest) (h : rfcShorthand r = some r') :
    ∃ s, member_name_shorthand_ c pos r = some s ∧ s.rest = r' := by
  have := member_name_shorthand_spec c pos r
  rw [h] at this
  cases hi : member_name_shorthand_ c pos r with
  | none => simp [hi] at this
  | some s => simp [hi] at this; exact ⟨s, rfl, this⟩

/-- layer 6a, completeness: every RFC `function-name` lexeme is accepted as such -/
theorem C06_partial_function_name (c : Ctx) (pos : Nat) (r r' : Rest) (h : rfcFunctionName r = some r') :
    ∃ s, function_name_ c pos r = some s ∧ s.rest = r' := by
  have := function_name_spec c pos r
  rw [h] at this
  cases hi : function_name_ c pos r with
  | none => simp [hi] at this
  | some s => simp [hi] at this; exact ⟨s, rfl, this⟩

/-- layers 2-4, completeness: whatever the RFC token grammar (Appendix A, `RfcLex`) lexes as `int`, `number` or `string-literal`
the grammar's rule accepts, consuming exactly the same lexeme, in every parsing context: all number formats, both quote styles,
every escape incl. lower-case hex and surrogate pairs -/
theorem C06_partial_tokens (c : Ctx) (pos : Nat) (r r' : Rest) :
    (RfcLex.int r = some r' → ∃ s, int_ c pos r = some s ∧ s.rest = r') ∧
    (RfcLex.number r = some r' → ∃ s, number_ c pos r = some s ∧ s.rest = r') ∧
    (RfcLex.stringLiteral r = some r' → ∃ s, string_ c pos r = some s ∧ s.rest = r') := by
  refine ⟨fun h => ?_, fun h => ?_, fun h => ?_⟩
  · have := int_denotes c pos r; unfold lexR at this; rw [h] at this
    cases hi : int_ c pos r with
    | none => simp [hi] at this
    | some s => simp [hi] at this; exact ⟨s, rfl, this⟩
  · have := number_denotes c pos r; unfold lexR at this; rw [h] at this
    cases hi : number_ c pos r with
    | none => simp [hi] at this
    | some s => simp [hi] at this; exact ⟨s, rfl, this⟩
  · have := string_denotes c pos r; unfold lexR at this; rw [h] at this
    cases hi : string_ c pos r with
    | none => simp [hi] at this
    | some s => simp [hi] at this; exact ⟨s, rfl, this⟩

/-- non-vacuity: `-12]` is lexed up to `]` -/
example : rfcInt "-12]".toList = some "]".toList := by decide

end JP.C06
