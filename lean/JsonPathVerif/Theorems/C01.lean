import JsonPathVerif.Paths
import JsonPathVerif.ParsedOk
import JsonPathVerif.Api
/-! # C01 – selected nodes are exactly the RFC 9535 nodelist (with multiplicity); every result is a borrow -/
namespace JP.C01
open JP

/-- full strength: for every syntactically valid query -/
def C01_statement : Prop :=
  ∀ (E : Engine) (q : List Segment) (d : Json), d.plainKeys = true →
    ∃ ps, jsPathProcess E q d = .ok ps ∧ (ps.map toN).Perm (Spec.query E q d) ∧
      ∀ p ∈ ps, d.at p.loc = some p.inner

def E0 : Engine := ⟨fun _ _ _ => false⟩
/-- `$["a\"b"]` on `{"a\"b": 1}`: the escape is not decoded, nothing is selected -/
def witnessQuery : List Segment := [.selector (.name ['"', 'a', '\\', '"', 'b', '"'])]
def witnessDoc : Json := .obj [(['a', '"', 'b'], .num (.int 1))]

theorem witness_impl : (match jsPathProcess E0 witnessQuery witnessDoc with | .ok ps => ps.length | .error _ => 99) = 0 := by decide
theorem witness_spec : (Spec.query E0 witnessQuery witnessDoc).length = 1 := by decide

theorem C01_refuted : ¬ C01_statement := by
  intro h
  obtain ⟨ps, h1, h2, _⟩ := h E0 witnessQuery witnessDoc (by decide)
  have hl := h2.length_eq
  have hi := witness_impl
  rw [h1] at hi
  simp only [List.length_map, witness_spec] at hl
  simp only at hi
  omega

/-- proved part: escape-free names and literals, well-typed function calls (`okSegs`) -/
theorem C01_partial (E : Engine) (q : List Segment) (d : Json) (hq : okSegs q) :
    ∃ ps, jsPathProcess E q d = .ok ps ∧ (ps.map toN).Perm (Spec.query E q d) :=
  query_perm E d q hq

/-- borrow clause: with plain, distinct member names and normalized name selectors each result is
the value at its location (and carries that location's Normalized Path, C03) -/
theorem C01_borrow (E : Engine) (q : List Segment) (d : Json) (hd : d.plainKeys = true) (hn : nnSegs q)
    (ps : List Ptr) (h : jsPathProcess E q d = .ok ps) : ∀ p ∈ ps, d.at p.loc = some p.inner :=
  fun p hp => (result_paths E d hd q hn ps h p hp).2

/-- end to end, on query STRINGS: for every string the parser accepts whose names and string literals contain no escape sequence
(and which has the plain shape every grammatical query has: no empty bracketed selection, no doubled `..`, custom-function
arguments that are values), evaluating the string over any document returns – as a multiset of (location, value) – exactly the
RFC 9535 nodelist of the parsed query.  The typing hypothesis of `C01_partial` is discharged by `parse_wellTyped`. -/
theorem C01_parsed (E : Engine) (s : Str) (q : List Segment) (d : Json) (hp : parseJsonPath s = .ok q)
    (he : KF.escFreeSegs q = true) (hs : shSegs q = true) :
    ∃ ps, jsPath E s d = .ok ps ∧ (ps.map toN).Perm (Spec.query E q d) := by
  obtain ⟨ps, h1, h2⟩ := query_perm E d q (parsed_ok s q hp he hs)
  exact ⟨ps, by simp [jsPath, hp, h1], h2⟩

/-- in particular such an evaluation never returns `Err`: the only source of `Err` is the parser (C08) -/
theorem parsed_never_errs (E : Engine) (s : Str) (q : List Segment) (d : Json) (hp : parseJsonPath s = .ok q)
    (he : KF.escFreeSegs q = true) (hs : shSegs q = true) : ∃ ps, jsPath E s d = .ok ps := by
  obtain ⟨ps, h, _⟩ := C01_parsed E s q d hp he hs
  exact ⟨ps, h⟩

end JP.C01
