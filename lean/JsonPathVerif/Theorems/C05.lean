import JsonPathVerif.Theorem
import JsonPathVerif.ParserShape
/-! # C05 – filter logic, existence tests and @/$ scoping (evaluator side) -/
namespace JP.C05
open JP

/-- the truth value the evaluator computes for a child is the RFC truth value of the logical expression -/
theorem C05_logical (E : Engine) (root : Json) (f : Filter) (hf : okFlt f) (loc : Loc) (child : Json) :
    boolOf (f.elem E root (.ref (Ptr.empty child loc))) = Spec.logical E root (loc, child) f :=
  flt_spec E root f (Ptr.empty child loc) hf rfl

/-- a filter selector keeps exactly the children for which the expression holds, in their order -/
theorem C05_children (E : Engine) (root : Json) (f : Filter) (hf : okFlt f) (d : Data) (hd : d.shaped) :
    nodesOf ((Selector.filter f).process E root d)
      = (nodesOf d).flatMap fun n => (Spec.children n).filter fun c => Spec.logical E root c f := by
  have := (sel_spec E root (.filter f) d (by simpa [okSel] using hf) hd).2
  simpa [Spec.sel] using this

-- Boolean algebra on the specification side (what the evaluator is proved equal to)
theorem or_spec (E : Engine) (root : Json) (n : Spec.Node) (a b : Filter) :
    Spec.logical E root n (.or [a, b]) = (Spec.logical E root n a || Spec.logical E root n b) := by
  simp [Spec.logical, Spec.logicalAny]
theorem and_spec (E : Engine) (root : Json) (n : Spec.Node) (a b : Filter) :
    Spec.logical E root n (.and [a, b]) = (Spec.logical E root n a && Spec.logical E root n b) := by
  simp [Spec.logical, Spec.logicalAll]
theorem not_spec (E : Engine) (root : Json) (n : Spec.Node) (e : Filter) :
    Spec.logical E root n (.atom (.filter e true)) = !Spec.logical E root n e := by
  simp [Spec.logical, Spec.atom]
/-- an existence test is true exactly when the query selects at least one node, whatever its value -/
theorem exists_spec (E : Engine) (root : Json) (n : Spec.Node) (ss : List Segment) :
    Spec.logical E root n (.atom (.test (.rel ss) false)) = !(Spec.segs E root ss [n]).isEmpty := by
  simp [Spec.logical, Spec.atom, Spec.test]
/-- `$` inside a filter always denotes the document root -/
theorem root_spec (E : Engine) (root : Json) (n m : Spec.Node) (ss : List Segment) :
    Spec.logical E root n (.atom (.test (.abs ss) false)) = Spec.logical E root m (.atom (.test (.abs ss) false)) := by
  simp [Spec.logical, Spec.atom, Spec.test]

/-- parser side of "`&&` binds tighter than `||`": for every pair tree the builder is handed, the logical expression it builds
is an `or` of `and`s of atoms (parenthesised sub-expressions are atoms) -/
theorem C05_precedence_shape (fuel : Nat) (inp : Inp) (p : PairT) (f : Filter) (h : logicalExprB fuel inp p = .ok f) : OrShape f :=
  logicalExprB_shape fuel inp p f h

/-- and such an expression is evaluated as the disjunction of the conjunctions: `a || b && c` is `a || (b && c)` -/
theorem or_of_ands_spec (E : Engine) (root : Json) (n : Spec.Node) (a b c : FilterAtom) :
    Spec.logical E root n (.or [.atom a, .and [.atom b, .atom c]])
      = (Spec.atom E root n a || (Spec.atom E root n b && Spec.atom E root n c)) := by
  simp [Spec.logical, Spec.logicalAny, Spec.logicalAll]

end JP.C05
