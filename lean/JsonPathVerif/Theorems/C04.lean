import JsonPathVerif.Compare
import JsonPathVerif.ParserRG
/-! # C04 – filter comparisons follow the RFC 9535 comparison rules -/
namespace JP.C04
open JP

/-- the six operators on evaluated operands (value, node, nothing) are the RFC operators -/
theorem C04_cmp (op : CmpOp) (l r : Data) (hl : l.cmpShape) (hr : r.cmpShape) :
    cmpData op l r = Spec.cmp op (dataVal l) (dataVal r) := cmpData_spec op l r hl hr

/-- JSON equality of the implementation is RFC equality (numbers by value, containers structurally) -/
theorem C04_eq (a b : Json) : eqJson a b = Spec.jsonEq a b := eqJson_spec a b

-- derived operators, stated on the implementation
theorem ne_is_not_eq (l r : Data) : cmpData .ne l r = !cmpData .eq l r := rfl
theorem le_is_lt_or_eq (l r : Data) : cmpData .le l r = (cmpData .lt l r || cmpData .eq l r) := rfl
theorem gt_is_lt_swapped (l r : Data) : cmpData .gt l r = cmpData .lt r l := rfl
theorem ge_is_gt_or_eq (l r : Data) : cmpData .ge l r = (cmpData .gt l r || cmpData .eq l r) := rfl
theorem nothing_eq_nothing : cmpData .eq .nothing .nothing = true := rfl
theorem nothing_ne_value (v : Json) : cmpData .eq .nothing (.value v) = false := rfl
theorem lt_nothing (d : Data) : cmpData .lt .nothing d = false := by cases d <;> rfl

/-- trichotomy on numbers: exactly one of `<`, `==`, `>` holds (exact values; ints and floats mixed) -/
theorem num_trichotomy (a b : Num) :
    (cmpData .lt (.value (.num a)) (.value (.num b)) = true ∧ cmpData .eq (.value (.num a)) (.value (.num b)) = false ∧ cmpData .gt (.value (.num a)) (.value (.num b)) = false) ∨
    (cmpData .lt (.value (.num a)) (.value (.num b)) = false ∧ cmpData .eq (.value (.num a)) (.value (.num b)) = true ∧ cmpData .gt (.value (.num a)) (.value (.num b)) = false) ∨
    (cmpData .lt (.value (.num a)) (.value (.num b)) = false ∧ cmpData .eq (.value (.num a)) (.value (.num b)) = false ∧ cmpData .gt (.value (.num a)) (.value (.num b)) = true) := by
  simp only [cmpData, ltData, eqData, ltJson, eqJson]
  cases a <;> cases b <;> simp only [Num.lt, Num.exactEq, decide_eq_true_eq, decide_eq_false_iff_not, beq_iff_eq, beq_eq_false_iff_ne, ne_eq] <;> omega

/-- trichotomy on strings (ordered by Unicode scalar value, lexicographically) -/
theorem str_trichotomy (a b : Str) :
    (cmpData .lt (.value (.str a)) (.value (.str b)) = true ∧ cmpData .eq (.value (.str a)) (.value (.str b)) = false ∧ cmpData .gt (.value (.str a)) (.value (.str b)) = false) ∨
    (cmpData .lt (.value (.str a)) (.value (.str b)) = false ∧ cmpData .eq (.value (.str a)) (.value (.str b)) = true ∧ cmpData .gt (.value (.str a)) (.value (.str b)) = false) ∨
    (cmpData .lt (.value (.str a)) (.value (.str b)) = false ∧ cmpData .eq (.value (.str a)) (.value (.str b)) = false ∧ cmpData .gt (.value (.str a)) (.value (.str b)) = true) := by
  simp only [cmpData, ltData, eqData, ltJson, eqJson, decide_eq_true_eq, decide_eq_false_iff_not, beq_iff_eq, beq_eq_false_iff_ne, ne_eq]
  rcases Std.lt_trichotomy a b with h | h | h
  · exact .inl ⟨h, fun e => by subst e; exact List.lt_irrefl _ h, List.lt_asymm h⟩
  · subst h; exact .inr (.inl ⟨List.lt_irrefl _, rfl, List.lt_irrefl _⟩)
  · exact .inr (.inr ⟨List.lt_asymm h, fun e => by subst e; exact List.lt_irrefl _ h, h⟩)

/-- `<` never holds across types -/
theorem lt_across_types (a b : Json) (h : ∀ x y, ¬ (a = .num x ∧ b = .num y)) (h' : ∀ x y, ¬ (a = .str x ∧ b = .str y)) :
    cmpData .lt (.value a) (.value b) = false := by
  cases a <;> cases b <;> simp_all [cmpData, ltData, ltJson]

/-- for ALL strings: every number literal of a query the parser accepts is a number the crate can hold – an integer in the I-JSON range
or a decimal that rounds to a FINITE double (`rgLit`, part of `rgSegs`). A literal such as `1e400`, which used to be read as infinity and
compared as `null` (D30), is rejected; so comparisons are only ever evaluated on operands inside the domain of the theorems above -/
theorem C04_literals_representable (s : Str) (q : List Segment) (h : parseJsonPath s = .ok q) : rgSegs q = true :=
  parse_intsInRange s q h
example : rgLit (.float (10 ^ 400) 1) = false ∧ rgLit (.float 1 0) = false ∧ rgLit (.float 3 2) = true ∧ rgLit (.int 9007199254740992) = false ∧
    rgSegs [.selector (.filter (.atom (.cmp .eq (.sq false []) (.lit (.float (10 ^ 400) 1)))))] = false := by decide +kernel

end JP.C04
