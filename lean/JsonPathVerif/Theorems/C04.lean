import JsonPathVerif.Compare
/-! # C04 – filter comparisons follow the RFC 9535 comparison rules -/
namespace JP.C04
open JP

/-- the six operators on evaluated operands (value, node, nothing) are the RFC operators -/
theorem C04_cmp (op : CmpOp) (l r : Data) (hl : l.cmpShape) (hr : r.cmpShape) :
    cmpData op l r = Spec.cmp op (dataVal l) (dataVal r) := cmpData_spec op l r hl hr

/-- JSON equality of the implementation is RFC equality (numbers by value, containers structurally) -/
theorem C04_eq (a b : Json) : eqJson a b = Spec.jsonEq a b := eqJson_spec a b

-- derived operators, stated on the implementation
theorem ne_is_not_eq (l r : Data) : cmpData .ne l r = !cmpData .eq l r := rfl
theorem le_is_lt_or_eq (l r : Data) : cmpData .le l r = (cmpData .lt l r || cmpData .eq l r) := rfl
theorem gt_is_lt_swapped (l r : Data) : cmpData .gt l r = cmpData .lt r l := rfl
theorem ge_is_gt_or_eq (l r : Data) : cmpData .ge l r = (cmpData .gt l r || cmpData .eq l r) := rfl
theorem nothing_eq_nothing : cmpData .eq .nothing .nothing = true := rfl
theorem nothing_ne_value (v : Json) : cmpData .eq .nothing (.value v) = false := rfl
theorem lt_nothing (d : Data) : cmpData .lt .nothing d = false := by cases d <;> rfl

end JP.C04
