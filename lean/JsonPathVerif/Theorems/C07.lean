import JsonPathVerif.OuterBlank
import JsonPathVerif.Lex.Int
import JsonPathVerif.Lex.Names
import JsonPathVerif.Lex.Tokens
import JsonPathVerif.ParserWT
import JsonPathVerif.ParserRG
import JsonPathVerif.Parser
import JsonPathVerif.Validity
/-! # C07 – every string that is not a valid RFC 9535 query is rejected (lexical layers on the GENERATED grammar) -/
namespace JP.C07
open JP JP.Pest JP.Lex

/-- full statement (kept visible) -/
def C07_statement : Prop := ∀ (s : Str) q, parseJsonPath s = .ok q → Rfc.verdict s ≠ .invalid

/-- layer 2, soundness direction: the grammar's `int` rule accepts nothing but an RFC `int` lexeme – no blank inside,
no leading zero, no `-0`, no `+` – and stops right after it -/
theorem C07_partial_int (c : Ctx) (pos : Nat) (r : Rest) (s : St RuleId) (h : int_ c pos r = some s) :
    rfcInt r = some s.rest := by
  have := int_spec c pos r
  rw [h] at this
  simpa using this.symm

/-- layer 4a, soundness: the `member_name_shorthand` rule accepts nothing but an RFC shorthand name and stops right after it
(`$.a b` cannot be read as the name `a b`) -/
theorem C07_partial_shorthand (c : Ctx) (pos : Nat) (r : Rest) (s : St RuleId) (h : member_name_shorthand_ c pos r = some s) :
    rfcShorthand r = some s.rest := by
  have := member_name_shorthand_spec c pos r
  rw [h] at this
  simpa using this.symm

/-- layer 6a, soundness: no blank or upper-case letter inside a function name (`le ngth`, `Length`) -/
theorem C07_partial_function_name (c : Ctx) (pos : Nat) (r : Rest) (s : St RuleId) (h : function_name_ c pos r = some s) :
    rfcFunctionName r = some s.rest := by
  have := function_name_spec c pos r
  rw [h] at this
  simpa using this.symm

/-- layers 2-4, soundness: the token rules accept nothing but RFC tokens (`1. 5`, `'\\ n'`, `\\u 00 41`, a lone surrogate, `\\'`
inside double quotes are not tokens) and stop right after the token -/
theorem C07_partial_tokens (c : Ctx) (pos : Nat) (r : Rest) (s : St RuleId) :
    (int_ c pos r = some s → RfcLex.int r = some s.rest) ∧
    (number_ c pos r = some s → RfcLex.number r = some s.rest) ∧
    (string_ c pos r = some s → RfcLex.stringLiteral r = some s.rest) := by
  refine ⟨fun h => ?_, fun h => ?_, fun h => ?_⟩
  · have := int_denotes c pos r; unfold lexR at this; rw [h] at this; simpa using this.symm
  · have := number_denotes c pos r; unfold lexR at this; rw [h] at this; simpa using this.symm
  · have := string_denotes c pos r; unfold lexR at this; rw [h] at this; simpa using this.symm

/-- layer 6b (function typing), for ALL strings: a query the parser accepts is well-typed in the sense of RFC 9535 2.4.3 –
`length`, `match`, `search` only receive ValueType arguments, `count` and `value` only queries, arities are right, a
value-returning function is never a test expression and a logical one never a comparison operand.  Proved for every pair tree the
builder of `parser.rs` can be handed (`builderWT`), hence independent of the grammar. -/
theorem C07_partial_typing (s : Str) (q : List Segment) (h : parseJsonPath s = .ok q) : Spec.wtSegs q = true :=
  parse_wellTyped s q h

/-- number ranges, for ALL strings: every integer of an index selector, a slice bound or step, or a singular-query index of an
accepted query lies in the I-JSON range ±(2^53-1), and every number LITERAL is an integer in that range or a decimal that rounds to
a finite double (again for every pair tree the builder can be handed) -/
theorem C07_partial_int_range (s : Str) (q : List Segment) (h : parseJsonPath s = .ok q) : rgSegs q = true :=
  parse_intsInRange s q h

example : rgSegs [.selector (.index 9007199254740992)] = false ∧ rgSegs [.selector (.slice none (some (-9007199254740991)) none)] = true ∧
    rgSegs [.selector (.filter (.atom (.cmp .eq (.sq false [.index (-9223372036854775808)]) (.lit .null))))] = false := by decide

/-- the typing discipline is not vacuous: the ill-typed ASTs of defect D15 are rejected by `Spec.wtSegs` -/
example : Spec.wtSegs [.selector (.filter (.atom (.cmp .eq (.fn (.length (.test (.rel [.selector .wildcard])))) (.lit (.int 2)))))] = false ∧
    Spec.wtSegs [.selector (.filter (.atom (.test (.fn (.length (.test (.rel [])))) false)))] = false ∧
    Spec.wtSegs [.selector (.filter (.atom (.cmp .eq (.fn (.length (.test (.rel [.selector (.name "a".toList)])))) (.lit (.int 2)))))] = true := by
  decide

/-- blank space before `$` or after the last segment, for ALL strings: rejected, whatever lies between (RFC 9535 2.1.1: a query
begins with the root identifier; the ABNF has no trailing `S`) -/
theorem C07_partial_outer_blanks (s : Str) (c : Char) (hb : isBlank c = true) :
    parseJsonPath (c :: s) = err ∧ parseJsonPath (s ++ [c]) = err := outer_blank_rejected s c hb
/-- … and the oracle classifies every string with a leading blank as invalid -/
theorem leading_blank_is_invalid (s : Str) (c : Char) (hb : isBlank c = true) : Rfc.verdict (c :: s) = .invalid :=
  leading_blank_invalid s c hb
example : isBlank ' ' = true ∧ isBlank '\t' = true ∧ isBlank '\n' = true ∧ isBlank '\r' = true ∧ isBlank (Char.ofNat 0xA0) = false := by decide

/-- blanks, leading zeros and `-0` are not `int` lexemes -/
example : rfcInt "1 2".toList = some " 2".toList ∧ rfcInt "- 1".toList = none ∧ rfcInt "-0".toList = none ∧
    rfcInt "01".toList = some "1".toList := by decide

end JP.C07
