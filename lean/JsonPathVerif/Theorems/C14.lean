import JsonPathVerif.Eval
/-! # C14 – in, nin, none_of, any_of, subset_of implement set membership (w.r.t. the data type's `==`) -/
namespace JP.C14
open JP

def mem (x : Json) (l : List Json) : Bool := l.any fun y => y.beq x

theorem in_spec (x : Json) (l : List Json) :
    extensionCustom "in".toList [x, .arr l] = .bool (mem x l) := by
  simp [extensionCustom, asArr, mem]
theorem nin_spec (x : Json) (l : List Json) :
    extensionCustom "nin".toList [x, .arr l] = .bool (!mem x l) := by
  have h1 : ("nin".toList == "in".toList) = false := by decide
  simp [extensionCustom, asArr, mem, h1]
theorem any_of_spec (a b : List Json) :
    extensionCustom "any_of".toList [.arr a, .arr b] = .bool (a.any fun x => mem x b) := by
  have h1 : ("any_of".toList == "in".toList) = false := by decide
  have h2 : ("any_of".toList == "nin".toList) = false := by decide
  have h3 : ("any_of".toList == "none_of".toList) = false := by decide
  simp [extensionCustom, asArr, mem, h1, h2, h3]
theorem none_of_spec (a b : List Json) :
    extensionCustom "none_of".toList [.arr a, .arr b] = .bool (a.all fun x => !mem x b) := by
  have h1 : ("none_of".toList == "in".toList) = false := by decide
  have h2 : ("none_of".toList == "nin".toList) = false := by decide
  simp [extensionCustom, asArr, mem, h1, h2]
theorem subset_of_spec (a b : List Json) :
    extensionCustom "subset_of".toList [.arr a, .arr b] = .bool (a.all fun x => mem x b) := by
  have h1 : ("subset_of".toList == "in".toList) = false := by decide
  have h2 : ("subset_of".toList == "nin".toList) = false := by decide
  have h3 : ("subset_of".toList == "none_of".toList) = false := by decide
  have h4 : ("subset_of".toList == "any_of".toList) = false := by decide
  simp [extensionCustom, asArr, mem, h1, h2, h3, h4]

/-- complement laws -/
theorem nin_is_not_in (x : Json) (l : List Json) :
    extensionCustom "nin".toList [x, .arr l] = .bool (!(mem x l)) := nin_spec x l
theorem none_is_not_any (a b : List Json) :
    (a.all fun x => !mem x b) = !(a.any fun x => mem x b) := by
  induction a with
  | nil => simp
  | cons x xs ih => simp [List.all_cons, List.any_cons, ih, Bool.not_or]
theorem empty_subset (b : List Json) : extensionCustom "subset_of".toList [.arr [], .arr b] = .bool true := by
  simpa using subset_of_spec [] b

/-- the property's wording, as propositions: membership is "some element of L equals x" -/
theorem mem_iff (x : Json) (l : List Json) : mem x l = true ↔ ∃ y ∈ l, y.beq x = true := by
  simp [mem, List.any_eq_true]
theorem in_iff (x : Json) (l : List Json) :
    extensionCustom "in".toList [x, .arr l] = .bool true ↔ ∃ y ∈ l, y.beq x = true := by
  rw [in_spec, ← mem_iff]; simp
theorem any_of_iff (a b : List Json) :
    extensionCustom "any_of".toList [.arr a, .arr b] = .bool true ↔ ∃ x ∈ a, ∃ y ∈ b, y.beq x = true := by
  rw [any_of_spec]; simp [List.any_eq_true, mem_iff]
theorem none_of_iff (a b : List Json) :
    extensionCustom "none_of".toList [.arr a, .arr b] = .bool true ↔ ¬ ∃ x ∈ a, ∃ y ∈ b, y.beq x = true := by
  rw [none_of_spec, none_is_not_any]; simp [mem, List.any_eq_true]
theorem subset_of_iff (a b : List Json) :
    extensionCustom "subset_of".toList [.arr a, .arr b] = .bool true ↔ ∀ x ∈ a, ∃ y ∈ b, y.beq x = true := by
  rw [subset_of_spec]; simp [List.all_eq_true, mem_iff]

/-- arrays are read as SETS: the answer of `subset_of` depends only on which elements occur in A and in B, not on how often or in
which order (so an array with repeated elements that is longer than B can still be a subset of it) -/
theorem subset_of_set_semantics (a a' b b' : List Json) (ha : ∀ x, x ∈ a ↔ x ∈ a') (hb : ∀ y, y ∈ b ↔ y ∈ b') :
    extensionCustom "subset_of".toList [.arr a, .arr b] = extensionCustom "subset_of".toList [.arr a', .arr b'] := by
  have key : (extensionCustom "subset_of".toList [.arr a, .arr b] = .bool true) ↔
      (extensionCustom "subset_of".toList [.arr a', .arr b'] = .bool true) := by
    rw [subset_of_iff, subset_of_iff]
    constructor
    · intro h x hx; obtain ⟨y, hy, e⟩ := h x ((ha x).mpr hx); exact ⟨y, (hb y).mp hy, e⟩
    · intro h x hx; obtain ⟨y, hy, e⟩ := h x ((ha x).mp hx); exact ⟨y, (hb y).mpr hy, e⟩
  rw [subset_of_spec, subset_of_spec] at *
  cases h1 : (a.all fun x => mem x b) <;> cases h2 : (a'.all fun x => mem x b') <;> simp_all
theorem any_of_set_semantics (a a' b b' : List Json) (ha : ∀ x, x ∈ a ↔ x ∈ a') (hb : ∀ y, y ∈ b ↔ y ∈ b') :
    extensionCustom "any_of".toList [.arr a, .arr b] = extensionCustom "any_of".toList [.arr a', .arr b'] := by
  have key : (extensionCustom "any_of".toList [.arr a, .arr b] = .bool true) ↔
      (extensionCustom "any_of".toList [.arr a', .arr b'] = .bool true) := by
    rw [any_of_iff, any_of_iff]
    constructor
    · rintro ⟨x, hx, y, hy, e⟩; exact ⟨x, (ha x).mp hx, y, (hb y).mp hy, e⟩
    · rintro ⟨x, hx, y, hy, e⟩; exact ⟨x, (ha x).mpr hx, y, (hb y).mpr hy, e⟩
  rw [any_of_spec, any_of_spec] at *
  cases h1 : (a.any fun x => mem x b) <;> cases h2 : (a'.any fun x => mem x b') <;> simp_all
/-- a longer array with repeated elements inside a shorter one -/
example : extensionCustom "subset_of".toList [.arr [.null, .null, .bool true, .null], .arr [.bool true, .null]] = .bool true := by rw [subset_of_spec]; rfl
/-- a non-array where an array is required gives `null`, which a test reads as false -/
theorem in_non_array (x y : Json) (h : asArr y = none) : extensionCustom "in".toList [x, y] = .null := by
  simp [extensionCustom, h]
theorem missing_argument (name : Str) (x : Json) : boolOf (.value (extensionCustom name [x])) = false := by
  unfold extensionCustom
  repeat' split
  all_goals first | rfl | (rename_i heq _ _; simp at heq) | (rename_i heq _ _ _; simp at heq) | simp_all

end JP.C14
