import JsonPathVerif.Theorem
import JsonPathVerif.Parser
/-! # C13 – equivalent spellings of a query give the same result (AST level)

`.name`, `['name']`, `["name"]` reach the parser model as the three raw lexemes `name`, `'name'`, `"name"` of one member
name; `.*`/`[*]` and `..x`/`..[x]` are already the same AST; `100`, `1e2`, `100.0` are the literals `int 100`,
`float 100 1`.  Proved here: those ASTs evaluate to the same nodes.  (String level – blank-space invariance of the
parser – is covered by the metamorphic correspondence.) -/
namespace JP.C13
open JP

/-- all spellings of one escape-free member name select the same node of every input node -/
theorem name_spellings (E : Engine) (root : Json) (k raw₁ raw₂ : Str) (h₁ : PlainName raw₁ k) (h₂ : PlainName raw₂ k) (p : Ptr) :
    (processKey raw₁ p).toVec.map toN = (processKey raw₂ p).toVec.map toN := by
  rw [processKey_spec h₁ E root, processKey_spec h₂ E root]
  simp [Spec.sel, Spec.selName, decodeName_plain h₁, decodeName_plain h₂]

/-- the three spellings of the name `a` -/
example : PlainName "a".toList "a".toList ∧ PlainName "'a'".toList "a".toList ∧ PlainName "\"a\"".toList "a".toList :=
  ⟨.shorthand _ (by decide) (by decide) (by decide),
   .quoted '\'' "a".toList (.inl rfl) (by decide) (by decide),
   .quoted '"' "a".toList (.inr rfl) (by decide) (by decide)⟩

/-- a whole query keeps its nodes (as a multiset, in RFC order for union-free queries) when it is replaced by any query with
the same RFC meaning: both are equal to the RFC nodelist -/
theorem same_spec_same_nodes (E : Engine) (d : Json) (q₁ q₂ : List Segment) (h₁ : okSegs q₁) (h₂ : okSegs q₂)
    (hs : Spec.query E q₁ d = Spec.query E q₂ d) :
    ∃ ps₁ ps₂, jsPathProcess E q₁ d = .ok ps₁ ∧ jsPathProcess E q₂ d = .ok ps₂ ∧ (ps₁.map toN).Perm (ps₂.map toN) := by
  obtain ⟨ps₁, e₁, p₁⟩ := query_perm E d q₁ h₁
  obtain ⟨ps₂, e₂, p₂⟩ := query_perm E d q₂ h₂
  exact ⟨ps₁, ps₂, e₁, e₂, p₁.trans (hs ▸ p₂.symm)⟩

/-- integer and float spellings of one number compare alike, against every operand and under every operator -/
theorem number_spellings (op : CmpOp) (n : Int) (x : Data) (hx : x.cmpShape) :
    cmpData op (.value (.num (.int n))) x = cmpData op (.value (.num (.flt n 1))) x ∧
    cmpData op x (.value (.num (.int n))) = cmpData op x (.value (.num (.flt n 1))) := by
  have hi : (Data.value (.num (.int n))).cmpShape := by simp [Data.cmpShape, Json.isScalar]
  have hf : (Data.value (.num (.flt n 1))).cmpShape := by simp [Data.cmpShape, Json.isScalar]
  rw [cmpData_spec op _ x hi hx, cmpData_spec op _ x hf hx, cmpData_spec op x _ hx hi, cmpData_spec op x _ hx hf]
  have key : ∀ y : Option Json, Spec.eqOpt (some (.num (.int n))) y = Spec.eqOpt (some (.num (.flt n 1))) y ∧
      Spec.eqOpt y (some (.num (.int n))) = Spec.eqOpt y (some (.num (.flt n 1))) ∧
      Spec.ltOpt (some (.num (.int n))) y = Spec.ltOpt (some (.num (.flt n 1))) y ∧
      Spec.ltOpt y (some (.num (.int n))) = Spec.ltOpt y (some (.num (.flt n 1))) := by
    intro y
    cases y with
    | none => simp [Spec.eqOpt, Spec.ltOpt]
    | some v => cases v <;> simp [Spec.eqOpt, Spec.ltOpt, Spec.jsonEq, Spec.numEq, Spec.numLt, Spec.numVal]
  obtain ⟨k1, k2, k3, k4⟩ := key (dataVal x)
  simp only [dataVal] at k1 k2 k3 k4 ⊢
  cases op <;> simp [Spec.cmp, k1, k2, k3, k4]

/-- `?expr` = `?(expr)` and redundant parentheses: a parenthesised sub-expression evaluates, for the child under test, to the same
truth value as the expression itself (no well-formedness hypothesis needed) -/
theorem redundant_parentheses (E : Engine) (root : Json) (e : Filter) (p : Ptr) (hp : p.path = []) :
    boolOf ((Filter.atom (.filter e false)).elem E root (.ref p)) = boolOf (e.elem E root (.ref p)) := by
  simp only [Filter.elem, FilterAtom.process, cond_false, filterProcessWith_internal _ p hp]
  cases boolOf (e.elem E root (.ref p)) <;> rfl

/-- `!(!(expr))` = `expr` -/
theorem double_negation (E : Engine) (root : Json) (e : Filter) (p : Ptr) (hp : p.path = []) :
    boolOf ((Filter.atom (.filter (.atom (.filter e true)) true)).elem E root (.ref p)) = boolOf (e.elem E root (.ref p)) := by
  simp only [Filter.elem, FilterAtom.process, cond_true, filterProcessWith_internal _ p hp]
  cases boolOf (e.elem E root (.ref p)) <;> rfl

/-- the same two laws on the RFC side -/
theorem spec_parentheses (E : Engine) (root : Json) (n : Spec.Node) (e : Filter) :
    Spec.logical E root n (.atom (.filter e false)) = Spec.logical E root n e ∧
    Spec.logical E root n (.atom (.filter (.atom (.filter e true)) true)) = Spec.logical E root n e := by
  simp [Spec.logical, Spec.atom]

/-- `1e2` = `100`: the parser's exact decimal value of a float spelling -/
example : parseF64 "1e2".toList = some (100, 1) ∧ parseF64 "100.0".toList = some (1000, 10) ∧
    Spec.numEq (.flt 100 1) (.int 100) = true ∧ Spec.numEq (.flt 1000 10) (.int 100) = true := by decide

end JP.C13
