import JsonPathVerif.Theorem
import JsonPathVerif.Parser
/-! # C13 – equivalent spellings of a query give the same result (AST level)

`.name`, `['name']`, `["name"]` reach the parser model as the three raw lexemes `name`, `'name'`, `"name"` of one member
name; `.*`/`[*]` and `..x`/`..[x]` are already the same AST; `100`, `1e2`, `100.0` are the literals `int 100`,
`float 100 1`.  Proved here: those ASTs evaluate to the same nodes.  (String level – blank-space invariance of the
parser – is covered by the metamorphic correspondence.) -/
namespace JP.C13
open JP

/-- all spellings of one escape-free member name select the same node of every input node -/
theorem name_spellings (E : Engine) (root : Json) (k raw₁ raw₂ : Str) (h₁ : PlainName raw₁ k) (h₂ : PlainName raw₂ k) (p : Ptr) :
    (processKey raw₁ p).toVec.map toN = (processKey raw₂ p).toVec.map toN := by
  rw [processKey_spec h₁ E root, processKey_spec h₂ E root]
  simp [Spec.sel, Spec.selName, decodeName_plain h₁, decodeName_plain h₂]

/-- the three spellings of the name `a` -/
example : PlainName "a".toList "a".toList ∧ PlainName "'a'".toList "a".toList ∧ PlainName "\"a\"".toList "a".toList :=
  ⟨.shorthand _ (by decide) (by decide) (by decide),
   .quoted '\'' "a".toList (.inl rfl) (by decide) (by decide),
   .quoted '"' "a".toList (.inr rfl) (by decide) (by decide)⟩

/-- a whole query keeps its nodes (as a multiset, in RFC order for union-free queries) when it is replaced by any query with
the same RFC meaning: both are equal to the RFC nodelist -/
theorem same_spec_same_nodes (E : Engine) (d : Json) (q₁ q₂ : List Segment) (h₁ : okSegs q₁) (h₂ : okSegs q₂)
    (hs : Spec.query E q₁ d = Spec.query E q₂ d) :
    ∃ ps₁ ps₂, jsPathProcess E q₁ d = .ok ps₁ ∧ jsPathProcess E q₂ d = .ok ps₂ ∧ (ps₁.map toN).Perm (ps₂.map toN) := by
  obtain ⟨ps₁, e₁, p₁⟩ := query_perm E d q₁ h₁
  obtain ⟨ps₂, e₂, p₂⟩ := query_perm E d q₂ h₂
  exact ⟨ps₁, ps₂, e₁, e₂, p₁.trans (hs ▸ p₂.symm)⟩

/-- integer and float spellings of one number compare alike, against every operand and under every operator -/
theorem number_spellings (op : CmpOp) (n : Int) (x : Data) (hx : x.cmpShape) :
    cmpData op (.value (.num (.int n))) x = cmpData op (.value (.num (.flt n 1))) x ∧
    cmpData op x (.value (.num (.int n))) = cmpData op x (.value (.num (.flt n 1))) := by
  have hi : (Data.value (.num (.int n))).cmpShape := by simp [Data.cmpShape, Json.isScalar]
  have hf : (Data.value (.num (.flt n 1))).cmpShape := by simp [Data.cmpShape, Json.isScalar]
  rw [cmpData_spec op _ x hi hx, cmpData_spec op _ x hf hx, cmpData_spec op x _ hx hi, cmpData_spec op x _ hx hf]
  have key : ∀ y : Option Json, Spec.eqOpt (some (.num (.int n))) y = Spec.eqOpt (some (.num (.flt n 1))) y ∧
      Spec.eqOpt y (some (.num (.int n))) = Spec.eqOpt y (some (.num (.flt n 1))) ∧
      Spec.ltOpt (some (.num (.int n))) y = Spec.ltOpt (some (.num (.flt n 1))) y ∧
      Spec.ltOpt y (some (.num (.int n))) = Spec.ltOpt y (some (.num (.flt n 1))) := by
    intro y
    cases y with
    | none => simp [Spec.eqOpt, Spec.ltOpt]
    | some v => cases v <;> simp [Spec.eqOpt, Spec.ltOpt, Spec.jsonEq, Spec.numEq, Spec.numLt, Spec.numVal]
  obtain ⟨k1, k2, k3, k4⟩ := key (dataVal x)
  simp only [dataVal] at k1 k2 k3 k4 ⊢
  cases op <;> simp [Spec.cmp, k1, k2, k3, k4]

/-- every decimal spelling of the integer `n` (numerator `n*d` over a positive power-of-ten – or any positive – denominator `d`:
`100.0` = 1000/10, `1.00e2` = 100/1, `10000e-2` = 10000/100 …) compares like `n`, against every operand and under every operator -/
theorem number_spellings_scaled (op : CmpOp) (n : Int) (d : Nat) (hd : 0 < d) (x : Data) (hx : x.cmpShape) :
    cmpData op (.value (.num (.int n))) x = cmpData op (.value (.num (.flt (n * d) d))) x ∧
    cmpData op x (.value (.num (.int n))) = cmpData op x (.value (.num (.flt (n * d) d))) := by
  have hi : (Data.value (.num (.int n))).cmpShape := by simp [Data.cmpShape, Json.isScalar]
  have hf : (Data.value (.num (.flt (n * d) d))).cmpShape := by simp [Data.cmpShape, Json.isScalar]
  rw [cmpData_spec op _ x hi hx, cmpData_spec op _ x hf hx, cmpData_spec op x _ hx hi, cmpData_spec op x _ hx hf]
  have hdz : (0 : Int) < (d : Int) := by exact_mod_cast hd
  have key : ∀ y : Option Json, Spec.eqOpt (some (.num (.int n))) y = Spec.eqOpt (some (.num (.flt (n * d) d))) y ∧
      Spec.eqOpt y (some (.num (.int n))) = Spec.eqOpt y (some (.num (.flt (n * d) d))) ∧
      Spec.ltOpt (some (.num (.int n))) y = Spec.ltOpt (some (.num (.flt (n * d) d))) y ∧
      Spec.ltOpt y (some (.num (.int n))) = Spec.ltOpt y (some (.num (.flt (n * d) d))) := by
    intro y
    cases y with
    | none => simp [Spec.eqOpt, Spec.ltOpt]
    | some v =>
      cases v with
      | num b =>
        have e1 : ∀ a c : Int, (n * c == a * 1) = (n * (d:Int) * c == a * (d:Int)) := by
          intro a c
          rw [Bool.eq_iff_iff]; simp only [beq_iff_eq]
          constructor
          · intro h; rw [Int.mul_right_comm, h]; simp
          · intro h; rw [Int.mul_right_comm, Int.mul_one] at *; exact Int.eq_of_mul_eq_mul_right (Int.ne_of_gt hdz) (by simpa using h)
        have e2 : ∀ a c : Int, (a * 1 == n * c) = (a * (d:Int) == n * (d:Int) * c) := by
          intro a c
          rw [Bool.beq_comm, e1 a c, Bool.beq_comm]
        have l1 : ∀ a c : Int, (decide (n * c < a * 1)) = decide (n * (d:Int) * c < a * (d:Int)) := by
          intro a c
          rw [Int.mul_right_comm, Int.mul_one]
          exact decide_eq_decide.mpr ⟨fun h => Int.mul_lt_mul_of_pos_right h hdz, fun h => Int.lt_of_mul_lt_mul_right h (Int.le_of_lt hdz)⟩
        have l2 : ∀ a c : Int, (decide (a * 1 < n * c)) = decide (a * (d:Int) < n * (d:Int) * c) := by
          intro a c
          rw [Int.mul_right_comm, Int.mul_one]
          exact decide_eq_decide.mpr ⟨fun h => Int.mul_lt_mul_of_pos_right h hdz, fun h => Int.lt_of_mul_lt_mul_right h (Int.le_of_lt hdz)⟩
        cases b with
        | int i => simp only [Spec.eqOpt, Spec.ltOpt, Spec.jsonEq, Spec.numEq, Spec.numLt, Spec.numVal, Int.natCast_one]; exact ⟨e1 i 1, e2 i 1, l1 i 1, l2 i 1⟩
        | flt bn bd => simp only [Spec.eqOpt, Spec.ltOpt, Spec.jsonEq, Spec.numEq, Spec.numLt, Spec.numVal, Int.natCast_one]; exact ⟨e1 bn bd, e2 bn bd, l1 bn bd, l2 bn bd⟩
      | _ => simp [Spec.eqOpt, Spec.ltOpt, Spec.jsonEq]
  obtain ⟨k1, k2, k3, k4⟩ := key (dataVal x)
  simp only [dataVal] at k1 k2 k3 k4 ⊢
  cases op <;> simp [Spec.cmp, k1, k2, k3, k4]
/-- `100.0` and `1.00e2` as the parser reads them are instances of `number_spellings_scaled` (n = 100; d = 10, d = 1) -/
example : parseF64 "100.0".toList = some (100 * 10, 10) ∧ parseF64 "1.00e2".toList = some (100 * 1, 1) := by decide

/-- `?expr` = `?(expr)` and redundant parentheses: a parenthesised sub-expression evaluates, for the child under test, to the same
truth value as the expression itself (no well-formedness hypothesis needed) -/
theorem redundant_parentheses (E : Engine) (root : Json) (e : Filter) (p : Ptr) (hp : p.path = []) :
    boolOf ((Filter.atom (.filter e false)).elem E root (.ref p)) = boolOf (e.elem E root (.ref p)) := by
  simp only [Filter.elem, FilterAtom.process, cond_false, filterProcessWith_internal _ p hp]
  cases boolOf (e.elem E root (.ref p)) <;> rfl

/-- `!(!(expr))` = `expr` -/
theorem double_negation (E : Engine) (root : Json) (e : Filter) (p : Ptr) (hp : p.path = []) :
    boolOf ((Filter.atom (.filter (.atom (.filter e true)) true)).elem E root (.ref p)) = boolOf (e.elem E root (.ref p)) := by
  simp only [Filter.elem, FilterAtom.process, cond_true, filterProcessWith_internal _ p hp]
  cases boolOf (e.elem E root (.ref p)) <;> rfl

/-- the same two laws on the RFC side -/
theorem spec_parentheses (E : Engine) (root : Json) (n : Spec.Node) (e : Filter) :
    Spec.logical E root n (.atom (.filter e false)) = Spec.logical E root n e ∧
    Spec.logical E root n (.atom (.filter (.atom (.filter e true)) true)) = Spec.logical E root n e := by
  simp [Spec.logical, Spec.atom]

/-- `1e2` = `100`: the parser's exact decimal value of a float spelling -/
example : parseF64 "1e2".toList = some (100, 1) ∧ parseF64 "100.0".toList = some (1000, 10) ∧
    Spec.numEq (.flt 100 1) (.int 100) = true ∧ Spec.numEq (.flt 1000 10) (.int 100) = true := by decide

end JP.C13
