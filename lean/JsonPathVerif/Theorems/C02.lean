import JsonPathVerif.OrderSM
import JsonPathVerif.ParsedOk
/-! # C02 – results are in RFC 9535 document order, duplicates preserved

Full statement, refutation on the model (replayed on the crate by the check: known finding
KF-union-order), and the partial theorem that is proved. -/
namespace JP.C02
open JP

def locsOf (r : Except Unit (List Ptr)) : Option (List Loc) :=
  match r with | .ok ps => some (ps.map (·.loc)) | .error _ => none

/-- full strength: for every well-formed query and document the locations come out in RFC order -/
def C02_statement : Prop :=
  ∀ (E : Engine) (q : List Segment) (d : Json), okSegs q →
    locsOf (jsPathProcess E q d) = some ((Spec.query E q d).map (·.1))

def E0 : Engine := ⟨fun _ _ _ => false⟩
def witnessDoc : Json := .arr [.arr [.num (.int 1), .num (.int 2)], .arr [.num (.int 3), .num (.int 4)]]
/-- `$[*][0,1]` -/
def witnessQuery : List Segment := [.selector .wildcard, .selectors [.index 0, .index 1]]

theorem witness_ok : okSegs witnessQuery := by
  simp [witnessQuery, okSegs, okSeg, okSel, okSels]

/-- the code (as modelled) returns `$[0][0], $[1][0], $[0][1], $[1][1]` -/
theorem witness_impl : locsOf (jsPathProcess E0 witnessQuery witnessDoc)
    = some [[.idx 0, .idx 0], [.idx 1, .idx 0], [.idx 0, .idx 1], [.idx 1, .idx 1]] := by decide

theorem C02_refuted : ¬ C02_statement := by
  intro h
  have := h E0 witnessQuery witnessDoc witness_ok
  revert this
  decide

/-- proved part: no multi-selector segment at the top level (filters are unconstrained) -/
theorem C02_partial (E : Engine) (q : List Segment) (d : Json) (hq : okSegs q) (hu : unionFreeSegs q) :
    locsOf (jsPathProcess E q d) = some ((Spec.query E q d).map (·.1)) := by
  obtain ⟨ps, h1, h2⟩ := query_ordered E d q hq hu
  simp only [locsOf, h1]
  congr 1
  have := congrArg (List.map (·.1)) h2
  simpa [List.map_map, Function.comp_def, toN] using this

/-- exact content of the deviation: for EVERY well-formed query the result is, as a list, the RFC nodelist with multi-selector
segments concatenated selector-major (`Spec.querySM`) -/
theorem C02_characterised (E : Engine) (q : List Segment) (d : Json) (hq : okSegs q) :
    locsOf (jsPathProcess E q d) = some ((Spec.querySM E q d).map (·.1)) := by
  obtain ⟨ps, h1, h2⟩ := query_characterised E d q hq
  simp only [locsOf, h1]
  congr 1
  have := congrArg (List.map (·.1)) h2
  simpa [List.map_map, Function.comp_def, toN] using this

/-- sharp partial form: RFC order whenever no multi-selector segment receives two or more nodes; the hypothesis is the
Boolean class `KF.multiSelOnMulti` that the check evaluates on every generated case (known finding KF-union-order) -/
theorem C02_partial_sharp (E : Engine) (q : List Segment) (d : Json) (hq : okSegs q)
    (hm : KF.multiSelOnMulti E d q [([], d)] = false) :
    locsOf (jsPathProcess E q d) = some ((Spec.query E q d).map (·.1)) := by
  obtain ⟨ps, h1, h2⟩ := query_ordered_sharp E d q hq hm
  simp only [locsOf, h1]
  congr 1
  have := congrArg (List.map (·.1)) h2
  simpa [List.map_map, Function.comp_def, toN] using this

/-- end to end, on query strings: for every accepted, escape-free query string of plain shape the result list is the
selector-major variant of the RFC nodelist, and it is the RFC nodelist itself (order included) unless some multi-selector
segment receives two or more nodes -/
theorem C02_parsed (E : Engine) (s : Str) (q : List Segment) (d : Json) (hp : parseJsonPath s = .ok q)
    (he : KF.escFreeSegs q = true) (hs : shSegs q = true) :
    locsOf (jsPathProcess E q d) = some ((Spec.querySM E q d).map (·.1)) ∧
    (KF.multiSelOnMulti E d q [([], d)] = false → locsOf (jsPathProcess E q d) = some ((Spec.query E q d).map (·.1))) :=
  ⟨C02_characterised E q d (parsed_ok s q hp he hs), C02_partial_sharp E q d (parsed_ok s q hp he hs)⟩

/-- non-vacuity of the sharp form: `$[0][0,1]` has a union but it receives one node -/
example : KF.multiSelOnMulti E0 witnessDoc [.selector (.index 0), .selectors [.index 0, .index 1]] [([], witnessDoc)] = false := by decide
/-- and the refuting witness is inside the class -/
example : KF.multiSelOnMulti E0 witnessDoc witnessQuery [([], witnessDoc)] = true := by decide

/-- non-vacuity: a query with a descendant segment, a filter and duplicates satisfies the hypotheses -/
example : okSegs [.descendant (.selector (.name "a".toList)), .selector (.filter (.atom (.test (.rel [.selector .wildcard]) false)))]
    ∧ unionFreeSegs [.descendant (.selector (.name "a".toList)), .selector (.filter (.atom (.test (.rel [.selector .wildcard]) false)))] := by
  refine ⟨?_, ?_⟩
  · simp only [okSegs, okSeg, okSel, okFlt, okAtom, okTest, and_true]
    exact ⟨"a".toList, PlainName.shorthand _ (by decide) (by decide) (by decide)⟩
  · simp [unionFreeSegs, unionFreeSeg]

end JP.C02
