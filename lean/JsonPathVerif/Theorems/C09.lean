import JsonPathVerif.Pointer
import JsonPathVerif.PathAst
/-! # C09 – reference / reference_mut resolve a path to exactly its node (step-list layer)

Lens laws of the repaired walk over name/index steps. The connection between a Normalized Path string
and its step list (`pathSteps (parse (npath l))`) is a parser lemma proved separately. -/
namespace JP.C09
open JP

/-- value at a step list (the same walk without locations) -/
def getAt : Json → List PStep → Option Json
  | j, [] => some j
  | .obj kvs, .name k :: r => (lookup k kvs).bind fun v => getAt v r
  | .arr xs, .index i :: r => (xs[i]?).bind fun v => getAt v r
  | _, _ => none

def stepLoc : List PStep → Loc
  | [] => []
  | .name k :: r => .key k :: stepLoc r
  | .index i :: r => .idx i :: stepLoc r

/-- `reference` returns the node at exactly that location -/
theorem walk_spec : ∀ (steps : List PStep) (j : Json) (l : Loc),
    walk j l steps = (getAt j steps).map fun v => (l ++ stepLoc steps, v)
  | [], j, l => by simp [walk, getAt, stepLoc]
  | .name k :: r, j, l => by
    cases j <;> simp [walk, getAt, stepLoc]
    rename_i kvs
    cases lookup k kvs <;> simp [walk_spec r, List.append_assoc]
  | .index i :: r, j, l => by
    cases j <;> simp [walk, getAt, stepLoc]
    rename_i xs
    cases xs[i]? <;> simp [walk_spec r, List.append_assoc]

-- members
theorem setMember_same (k : Str) (f : Json → Option Json) : ∀ (kvs kvs' : List (Str × Json)),
    setMember k f kvs = some kvs' → ∃ v v', lookup k kvs = some v ∧ f v = some v' ∧ lookup k kvs' = some v'
  | [], _, h => by simp [setMember] at h
  | (k', v) :: kvs, kvs', h => by
    unfold setMember at h
    by_cases hk : (k' == k) = true
    · simp only [hk, if_true] at h
      cases hf : f v with
      | none => simp [hf] at h
      | some v' =>
        simp only [hf, Option.map_some, Option.some.injEq] at h
        subst h
        exact ⟨v, v', by simp [lookup, hk], hf, by simp [lookup, hk]⟩
    · have hk' : (k' == k) = false := by simpa using hk
      simp only [hk', Bool.false_eq_true, if_false] at h
      cases hs : setMember k f kvs with
      | none => simp [hs] at h
      | some t =>
        simp only [hs, Option.map_some, Option.some.injEq] at h
        subst h
        obtain ⟨a, b, h1, h2, h3⟩ := setMember_same k f kvs t hs
        exact ⟨a, b, by simp [lookup, hk', h1], h2, by simp [lookup, hk', h3]⟩

theorem setMember_other (k k2 : Str) (hne : (k2 == k) = false) (f : Json → Option Json) : ∀ (kvs kvs' : List (Str × Json)),
    setMember k f kvs = some kvs' → lookup k2 kvs' = lookup k2 kvs
  | [], _, h => by simp [setMember] at h
  | (k', v) :: kvs, kvs', h => by
    unfold setMember at h
    by_cases hk : (k' == k) = true
    · simp only [hk, if_true] at h
      cases hf : f v with
      | none => simp [hf] at h
      | some v' =>
        simp only [hf, Option.map_some, Option.some.injEq] at h
        subst h
        have : (k' == k2) = false := by
          have e : k' = k := by simpa using hk
          subst e
          simp only [beq_eq_false_iff_ne, ne_eq] at hne ⊢
          exact fun e => hne e.symm
        simp [lookup, this]
    · have hk' : (k' == k) = false := by simpa using hk
      simp only [hk', Bool.false_eq_true, if_false] at h
      cases hs : setMember k f kvs with
      | none => simp [hs] at h
      | some t =>
        simp only [hs, Option.map_some, Option.some.injEq] at h
        subst h
        have ih := setMember_other k k2 hne f kvs t hs
        unfold lookup
        by_cases h2 : (k' == k2) = true
        · simp [h2]
        · have h2' : (k' == k2) = false := by simpa using h2
          simp [h2', ih]

-- elements
theorem setElem_same (f : Json → Option Json) : ∀ (i : Nat) (xs xs' : List Json),
    setElem i f xs = some xs' → ∃ v v', xs[i]? = some v ∧ f v = some v' ∧ xs'[i]? = some v'
  | _, [], _, h => by simp [setElem] at h
  | 0, x :: xs, xs', h => by
    simp only [setElem] at h
    cases hf : f x with
    | none => simp [hf] at h
    | some v' => simp only [hf, Option.map_some, Option.some.injEq] at h; subst h; exact ⟨x, v', by simp, hf, by simp⟩
  | i+1, x :: xs, xs', h => by
    simp only [setElem] at h
    cases hs : setElem i f xs with
    | none => simp [hs] at h
    | some t =>
      simp only [hs, Option.map_some, Option.some.injEq] at h; subst h
      obtain ⟨a, b, h1, h2, h3⟩ := setElem_same f i xs t hs
      exact ⟨a, b, by simpa using h1, h2, by simpa using h3⟩

theorem setElem_other (f : Json → Option Json) : ∀ (i j : Nat) (xs xs' : List Json), j ≠ i →
    setElem i f xs = some xs' → xs'[j]? = xs[j]?
  | _, _, [], _, _, h => by simp [setElem] at h
  | 0, j, x :: xs, xs', hne, h => by
    simp only [setElem] at h
    cases hf : f x with
    | none => simp [hf] at h
    | some v' =>
      simp only [hf, Option.map_some, Option.some.injEq] at h; subst h
      cases j with
      | zero => exact absurd rfl hne
      | succ j => simp
  | i+1, j, x :: xs, xs', hne, h => by
    simp only [setElem] at h
    cases hs : setElem i f xs with
    | none => simp [hs] at h
    | some t =>
      simp only [hs, Option.map_some, Option.some.injEq] at h; subst h
      cases j with
      | zero => simp
      | succ j => simpa using setElem_other f i j xs t (by omega) hs

/-- put-get: after a successful write, reading the same steps gives the written value; and a write
succeeds only where a read does -/
theorem put_get (v : Json) : ∀ (steps : List PStep) (d d' : Json), setAt v d steps = some d' →
    getAt d' steps = some v ∧ (getAt d steps).isSome
  | [], d, d', h => by simp [setAt] at h; subst h; simp [getAt]
  | .name k :: r, d, d', h => by
    cases d <;> simp [setAt] at h
    rename_i kvs
    obtain ⟨kvs', hs, rfl⟩ := h
    obtain ⟨a, b, h1, h2, h3⟩ := setMember_same k _ kvs kvs' hs
    obtain ⟨ih1, ih2⟩ := put_get v r a b h2
    simp [getAt, h1, h3, ih1, ih2]
  | .index i :: r, d, d', h => by
    cases d <;> simp [setAt] at h
    rename_i xs
    obtain ⟨xs', hs, rfl⟩ := h
    obtain ⟨a, b, h1, h2, h3⟩ := setElem_same _ i xs xs' hs
    obtain ⟨ih1, ih2⟩ := put_get v r a b h2
    simp [getAt, h1, h3, ih1, ih2]

/-- two step lists part ways: at the first difference they name different members / indices -/
inductive Diverge : List PStep → List PStep → Prop
  | name (k k' : Str) (r r') : (k' == k) = false → Diverge (.name k :: r) (.name k' :: r')
  | index (i j : Nat) (r r') : j ≠ i → Diverge (.index i :: r) (.index j :: r')
  | mixed1 (k : Str) (j : Nat) (r r') : Diverge (.name k :: r) (.index j :: r')
  | mixed2 (i : Nat) (k' : Str) (r r') : Diverge (.index i :: r) (.name k' :: r')
  | consN (k : Str) (r r') : Diverge r r' → Diverge (.name k :: r) (.name k :: r')
  | consI (i : Nat) (r r') : Diverge r r' → Diverge (.index i :: r) (.index i :: r')

/-- frame: a write changes nothing at any location that diverges from the written one -/
theorem frame (v : Json) : ∀ (steps other : List PStep) (d d' : Json), Diverge steps other →
    setAt v d steps = some d' → getAt d' other = getAt d other
  | _, _, d, d', .name k k' r r' hne, h => by
    cases d <;> simp [setAt] at h
    rename_i kvs
    obtain ⟨kvs', hs, rfl⟩ := h
    simp [getAt, setMember_other k k' hne _ kvs kvs' hs]
  | _, _, d, d', .index i j r r' hne, h => by
    cases d <;> simp [setAt] at h
    rename_i xs
    obtain ⟨xs', hs, rfl⟩ := h
    simp [getAt, setElem_other _ i j xs xs' hne hs]
  | _, _, d, d', .mixed1 k j r r', h => by
    cases d <;> simp [setAt] at h
    rename_i kvs
    obtain ⟨kvs', _, rfl⟩ := h
    simp [getAt]
  | _, _, d, d', .mixed2 i k' r r', h => by
    cases d <;> simp [setAt] at h
    rename_i xs
    obtain ⟨xs', _, rfl⟩ := h
    simp [getAt]
  | _, _, d, d', .consN k r r' hd, h => by
    cases d <;> simp [setAt] at h
    rename_i kvs
    obtain ⟨kvs', hs, rfl⟩ := h
    obtain ⟨a, b, h1, h2, h3⟩ := setMember_same k _ kvs kvs' hs
    simp [getAt, h1, h3, frame v r r' a b hd h2]
  | _, _, d, d', .consI i r r' hd, h => by
    cases d <;> simp [setAt] at h
    rename_i xs
    obtain ⟨xs', hs, rfl⟩ := h
    obtain ⟨a, b, h1, h2, h3⟩ := setElem_same _ i xs xs' hs
    simp [getAt, h1, h3, frame v r r' a b hd h2]

#print axioms put_get
#print axioms frame
#print axioms walk_spec
theorem Diverge.symm : ∀ {a b : List PStep}, Diverge a b → Diverge b a
  | _, _, .name k k' r r' h => .name k' k r' r (by
      cases hk : (k == k') with
      | false => rfl
      | true => have : k = k' := by simpa using hk
                subst this; simp at h)
  | _, _, .index i j r r' h => .index j i r' r (fun e => h e.symm)
  | _, _, .mixed1 k j r r' => .mixed2 j k r' r
  | _, _, .mixed2 i k' r r' => .mixed1 k' i r' r
  | _, _, .consN k r r' h => .consN k r' r h.symm
  | _, _, .consI i r r' h => .consI i r' r h.symm

/-- a sequence of writes `*reference_mut(pathᵢ)? = vᵢ`, each applied to the document left by the previous one -/
def writeAll : Json → List (List PStep × Json) → Option Json
  | d, [] => some d
  | d, (s, v) :: ws => (setAt v d s).bind fun d1 => writeAll d1 ws

/-- nothing outside the written locations changes, however many writes there are -/
theorem history_frame : ∀ (ws : List (List PStep × Json)) (d d' : Json) (other : List PStep),
    (∀ sv ∈ ws, Diverge sv.1 other) → writeAll d ws = some d' → getAt d' other = getAt d other
  | [], d, d', _, _, h => by simp [writeAll] at h; subst h; rfl
  | (s, v) :: ws, d, d', other, hdiv, h => by
    simp only [writeAll] at h
    cases h1 : setAt v d s with
    | none => simp [h1] at h
    | some d1 =>
      simp only [h1, Option.bind_some] at h
      rw [history_frame ws d1 d' other (fun sv hsv => hdiv sv (List.mem_cons_of_mem _ hsv)) h]
      exact frame v s other d d1 (hdiv (s, v) (by simp)) h1

/-- history: updates through pairwise diverging paths (e.g. the paths one query returned for different, non-nested nodes)
each take effect – afterwards every written location holds its new value -/
theorem history_put_get : ∀ (ws : List (List PStep × Json)) (d d' : Json),
    ws.Pairwise (fun a b => Diverge a.1 b.1) → writeAll d ws = some d' → ∀ sv ∈ ws, getAt d' sv.1 = some sv.2
  | [], _, _, _, _, sv, hsv => by simp at hsv
  | (s, v) :: ws, d, d', hp, h, sv, hsv => by
    simp only [writeAll] at h
    rw [List.pairwise_cons] at hp
    cases h1 : setAt v d s with
    | none => simp [h1] at h
    | some d1 =>
      simp only [h1, Option.bind_some] at h
      simp only [List.mem_cons] at hsv
      rcases hsv with rfl | hsv
      · -- the first write survives all later ones: they diverge from it
        rw [history_frame ws d1 d' s (fun sv' hsv' => (hp.1 sv' hsv').symm) h]
        exact (put_get v s d d1 h1).1
      · exact history_put_get ws d1 d' hp.2 h sv hsv

/-- get law tied to locations and to queries (AST level): the walk that `reference` performs over the AST of the Normalized Path of
`l` returns the node at `l` – the same node, at the same location, that running that path as a query returns (`C03c_ast`) – and
`None` when `l` does not exist -/
theorem reference_get_ast (d : Json) (l : Loc) (h : plainLoc l = true) :
    (pathSteps (segsOfLoc l)).bind (walk d []) = (d.at l).map fun v => (l, v) := reference_of_npath_ast d l h

/-- non-vacuity: names with `/`, `~`, blanks and digits are plain (they need no escaping in a Normalized Path) -/
example : plainLoc [.key "a/b".toList, .idx 3, .key "~0".toList, .key "x y".toList, .key "10".toList] = true := by decide

end JP.C09
