import JsonPathVerif.Refine
import JsonPathVerif.KF
/-! Boolean mirror of the hypothesis `okSegs` of the partial theorems, so that the driver can report
for every generated case whether it lies inside the proved fragment. -/
namespace JP
open KF

def okLitB : Literal → Bool := litPlain
def okSQB : SQSeg → Bool
  | .name raw => plainRaw raw
  | .index _ => true

mutual
def okSegB : Segment → Bool
  | .descendant (.descendant _) => false
  | .descendant (.selector s) => okSelB s
  | .descendant (.selectors ss) => !ss.isEmpty && okSelsB ss
  | .selector s => okSelB s
  | .selectors ss => !ss.isEmpty && okSelsB ss
def okSelsB : List Selector → Bool
  | [] => true
  | s :: ss => okSelB s && okSelsB ss
def okSelB : Selector → Bool
  | .name raw => plainRaw raw
  | .filter f => okFltB f
  | _ => true
def okSegsB : List Segment → Bool
  | [] => true
  | s :: ss => okSegB s && okSegsB ss
def okFltB : Filter → Bool
  | .or fs => okFltsB fs
  | .and fs => okFltsB fs
  | .atom a => okAtomB a
def okFltsB : List Filter → Bool
  | [] => true
  | f :: fs => okFltB f && okFltsB fs
def okAtomB : FilterAtom → Bool
  | .filter e _ => okFltB e
  | .test t _ => okTestB t
  | .cmp _ l r => okCmpB l && okCmpB r
def okTestB : Test → Bool
  | .rel ss => okSegsB ss
  | .abs ss => okSegsB ss
  | .fn f => okFnLogicalB f
def okCmpB : Comparable → Bool
  | .lit l => okLitB l
  | .sq _ segs => segs.all okSQB
  | .fn f => okFnValueB f
def okFnValueB : TestFunction → Bool
  | .length a => okArgValueB a
  | .count a => okArgNodesB a
  | .value a => okArgNodesB a
  | _ => false
def okFnLogicalB : TestFunction → Bool
  | .match a b => okArgValueB a && okArgValueB b
  | .search a b => okArgValueB a && okArgValueB b
  | .custom _ args => okArgsCustomB args
  | _ => false
def okArgValueB : FnArg → Bool
  | .lit l => okLitB l
  | .test (.rel ss) => Spec.isSingularSegs ss && okSegsB ss
  | .test (.abs ss) => Spec.isSingularSegs ss && okSegsB ss
  | .test (.fn f) => okFnValueB f
  | .filter _ => false
def okArgNodesB : FnArg → Bool
  | .test (.rel ss) => okSegsB ss
  | .test (.abs ss) => okSegsB ss
  | _ => false
def okArgsCustomB : List FnArg → Bool
  | [] => true
  | a :: as => okArgValueB a && okArgsCustomB as
end

theorem plainName_of_plainRaw (raw : Str) (h : plainRaw raw = true) : ∃ k, PlainName raw k := by
  unfold plainRaw hasBackslash at h
  simp only [Bool.and_eq_true, Bool.not_eq_true', List.any_eq_false, beq_iff_eq] at h
  obtain ⟨hb, hq⟩ := h
  have hnb : '\\' ∉ raw := fun hm => hb '\\' hm rfl
  match raw, hq, hnb with
  | [], _, hnb => exact ⟨[], PlainName.shorthand [] hnb (by simp) (by simp)⟩
  | q :: r, hq, hnb =>
    by_cases hqq : (q == '\'' || q == '"') = true
    · simp only [hqq, if_true, Bool.and_eq_true, decide_eq_true_eq, beq_iff_eq, Bool.not_eq_true', List.any_eq_false] at hq
      obtain ⟨⟨hlen, hlast⟩, hnq⟩ := hq
      have hr : r = r.dropLast ++ [q] := by
        have hne : r ≠ [] := by intro e; subst e; simp at hlen
        have h1 := List.dropLast_concat_getLast hne
        have h2 : r.getLast? = some (r.getLast hne) := List.getLast?_eq_some_getLast hne
        rw [h2] at hlast
        have h3 : r.getLast hne = q := by simpa using hlast
        rw [h3] at h1
        exact h1.symm
      refine ⟨r.dropLast, ?_⟩
      have hq' : q = '\'' ∨ q = '"' := by simpa using hqq
      have h1 : q ∉ r.dropLast := fun hm => by
        have := hnq q hm; simp at this
      have h2 : '\\' ∉ r.dropLast := fun hm => hnb (List.mem_cons_of_mem _ (List.dropLast_subset r hm))
      have := PlainName.quoted q r.dropLast hq' h1 h2
      rw [← hr] at this
      exact this
    · have hqq' : (q == '\'' || q == '"') = false := by simpa using hqq
      have h1 : q ≠ '\'' := by intro e; subst e; simp at hqq'
      have h2 : q ≠ '"' := by intro e; subst e; simp at hqq'
      exact ⟨q :: r, PlainName.shorthand _ hnb (by simp [h1]) (by simp [h2])⟩

theorem okLit_of (l : Literal) (h : okLitB l = true) : okLit l := by
  cases l <;> simp_all [okLitB, litPlain, okLit, hasBackslash]
  intro hm; exact absurd (h _ hm) (by simp)

theorem okSQ_of (s : SQSeg) (h : okSQB s = true) : okSQ s := by
  cases s with
  | name raw => exact plainName_of_plainRaw raw h
  | index i => trivial

mutual
theorem okSeg_of : ∀ (s : Segment), okSegB s = true → okSeg s
  | .descendant (.descendant _), h => by simp [okSegB] at h
  | .descendant (.selector s), h => by simpa [okSeg] using okSel_of s (by simpa [okSegB] using h)
  | .descendant (.selectors ss), h => by
      simp only [okSegB, Bool.and_eq_true, Bool.not_eq_true', List.isEmpty_eq_false_iff] at h
      simpa [okSeg] using ⟨h.1, okSels_of ss h.2⟩
  | .selector s, h => by simpa [okSeg] using okSel_of s (by simpa [okSegB] using h)
  | .selectors ss, h => by
      simp only [okSegB, Bool.and_eq_true, Bool.not_eq_true', List.isEmpty_eq_false_iff] at h
      simpa [okSeg] using ⟨h.1, okSels_of ss h.2⟩
theorem okSels_of : ∀ (ss : List Selector), okSelsB ss = true → okSels ss
  | [], _ => by simp [okSels]
  | s :: ss, h => by
      simp only [okSelsB, Bool.and_eq_true] at h
      simpa [okSels] using ⟨okSel_of s h.1, okSels_of ss h.2⟩
theorem okSel_of : ∀ (s : Selector), okSelB s = true → okSel s
  | .name raw, h => by simpa [okSel] using plainName_of_plainRaw raw (by simpa [okSelB] using h)
  | .filter f, h => by simpa [okSel] using okFlt_of f (by simpa [okSelB] using h)
  | .wildcard, _ => by simp [okSel]
  | .index _, _ => by simp [okSel]
  | .slice _ _ _, _ => by simp [okSel]
theorem okSegs_of : ∀ (ss : List Segment), okSegsB ss = true → okSegs ss
  | [], _ => by simp [okSegs]
  | s :: ss, h => by
      simp only [okSegsB, Bool.and_eq_true] at h
      simpa [okSegs] using ⟨okSeg_of s h.1, okSegs_of ss h.2⟩
theorem okFlt_of : ∀ (f : Filter), okFltB f = true → okFlt f
  | .or fs, h => by simpa [okFlt] using okFlts_of fs (by simpa [okFltB] using h)
  | .and fs, h => by simpa [okFlt] using okFlts_of fs (by simpa [okFltB] using h)
  | .atom a, h => by simpa [okFlt] using okAtom_of a (by simpa [okFltB] using h)
theorem okFlts_of : ∀ (fs : List Filter), okFltsB fs = true → okFlts fs
  | [], _ => by simp [okFlts]
  | f :: fs, h => by
      simp only [okFltsB, Bool.and_eq_true] at h
      simpa [okFlts] using ⟨okFlt_of f h.1, okFlts_of fs h.2⟩
theorem okAtom_of : ∀ (a : FilterAtom), okAtomB a = true → okAtom a
  | .filter e _, h => by simpa [okAtom] using okFlt_of e (by simpa [okAtomB] using h)
  | .test t _, h => by simpa [okAtom] using okTest_of t (by simpa [okAtomB] using h)
  | .cmp _ l r, h => by
      simp only [okAtomB, Bool.and_eq_true] at h
      simpa [okAtom] using ⟨okCmp_of l h.1, okCmp_of r h.2⟩
theorem okTest_of : ∀ (t : Test), okTestB t = true → okTest t
  | .rel ss, h => by simpa [okTest] using okSegs_of ss (by simpa [okTestB] using h)
  | .abs ss, h => by simpa [okTest] using okSegs_of ss (by simpa [okTestB] using h)
  | .fn f, h => by simpa [okTest] using okFnLogical_of f (by simpa [okTestB] using h)
theorem okCmp_of : ∀ (c : Comparable), okCmpB c = true → okCmp c
  | .lit l, h => by simpa [okCmp] using okLit_of l (by simpa [okCmpB] using h)
  | .sq _ segs, h => by
      simp only [okCmpB, List.all_eq_true] at h
      simpa [okCmp] using fun s hs => okSQ_of s (h s hs)
  | .fn f, h => by simpa [okCmp] using okFnValue_of f (by simpa [okCmpB] using h)
theorem okFnValue_of : ∀ (f : TestFunction), okFnValueB f = true → okFnValue f
  | .length a, h => by simpa [okFnValue] using okArgValue_of a (by simpa [okFnValueB] using h)
  | .count a, h => by simpa [okFnValue] using okArgNodes_of a (by simpa [okFnValueB] using h)
  | .value a, h => by simpa [okFnValue] using okArgNodes_of a (by simpa [okFnValueB] using h)
  | .match _ _, h => by simp [okFnValueB] at h
  | .search _ _, h => by simp [okFnValueB] at h
  | .custom _ _, h => by simp [okFnValueB] at h
theorem okFnLogical_of : ∀ (f : TestFunction), okFnLogicalB f = true → okFnLogical f
  | .match a b, h => by
      simp only [okFnLogicalB, Bool.and_eq_true] at h
      simpa [okFnLogical] using ⟨okArgValue_of a h.1, okArgValue_of b h.2⟩
  | .search a b, h => by
      simp only [okFnLogicalB, Bool.and_eq_true] at h
      simpa [okFnLogical] using ⟨okArgValue_of a h.1, okArgValue_of b h.2⟩
  | .custom _ args, h => by simpa [okFnLogical] using okArgsCustom_of args (by simpa [okFnLogicalB] using h)
  | .length _, h => by simp [okFnLogicalB] at h
  | .count _, h => by simp [okFnLogicalB] at h
  | .value _, h => by simp [okFnLogicalB] at h
theorem okArgValue_of : ∀ (a : FnArg), okArgValueB a = true → okArgValue a
  | .lit l, h => by simpa [okArgValue] using okLit_of l (by simpa [okArgValueB] using h)
  | .test (.rel ss), h => by
      simp only [okArgValueB, Bool.and_eq_true] at h
      simpa [okArgValue] using ⟨h.1, okSegs_of ss h.2⟩
  | .test (.abs ss), h => by
      simp only [okArgValueB, Bool.and_eq_true] at h
      simpa [okArgValue] using ⟨h.1, okSegs_of ss h.2⟩
  | .test (.fn f), h => by simpa [okArgValue] using okFnValue_of f (by simpa [okArgValueB] using h)
  | .filter _, h => by simp [okArgValueB] at h
theorem okArgNodes_of : ∀ (a : FnArg), okArgNodesB a = true → okArgNodes a
  | .test (.rel ss), h => by simpa [okArgNodes] using okSegs_of ss (by simpa [okArgNodesB] using h)
  | .test (.abs ss), h => by simpa [okArgNodes] using okSegs_of ss (by simpa [okArgNodesB] using h)
  | .test (.fn _), h => by simp [okArgNodesB] at h
  | .lit _, h => by simp [okArgNodesB] at h
  | .filter _, h => by simp [okArgNodesB] at h
theorem okArgsCustom_of : ∀ (as : List FnArg), okArgsCustomB as = true → okArgsCustom as
  | [], _ => by simp [okArgsCustom]
  | a :: as, h => by
      simp only [okArgsCustomB, Bool.and_eq_true] at h
      simpa [okArgsCustom] using ⟨okArgValue_of a h.1, okArgsCustom_of as h.2⟩
end

#print axioms okSegs_of
end JP
