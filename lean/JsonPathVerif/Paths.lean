import JsonPathVerif.Theorem
/-! C03 / C01-borrow prototype: every pointer produced in the main pipeline points at the node that
lives at `loc` in the document, and its path string is the Normalized Path of `loc` – for documents
with plain member names and queries whose name selectors are shorthand or single-quoted plain. -/
namespace JP
open List

def Json.at : Json → Loc → Option Json
  | j, [] => some j
  | .arr xs, .idx i :: l => (xs[i]?).bind fun x => Json.at x l
  | .obj kvs, .key k :: l => (lookup k kvs).bind fun x => Json.at x l
  | _, _ => none

theorem Json.at_append : ∀ (l l' : Loc) (j : Json), j.at (l ++ l') = (j.at l).bind fun x => x.at l'
  | [], l', j => by cases j <;> simp [Json.at]
  | s :: l, l', j => by
    cases j <;> cases s <;> simp [Json.at]
    · rename_i xs i; cases xs[i]? <;> simp [Json.at_append l l']
    · rename_i kvs k; cases lookup k kvs <;> simp [Json.at_append l l']

def plainChar (c : Char) : Bool := c != '\'' && c != '\\' && decide (c.toNat ≥ 0x20)
def plainKey (k : Str) : Bool := k.all plainChar

mutual
def Json.plainKeys : Json → Bool
  | .arr xs => plainKeysL xs
  | .obj kvs => plainKeysM kvs
  | _ => true
def plainKeysL : List Json → Bool
  | [] => true
  | x :: xs => x.plainKeys && plainKeysL xs
def plainKeysM : List (Str × Json) → Bool
  | [] => true
  | (k, v) :: kvs => plainKey k && v.plainKeys && !(kvs.any fun kv => kv.1 == k) && plainKeysM kvs
end

theorem escChar_plain (c : Char) (h : plainChar c = true) : Spec.escChar c = [c] := by
  unfold plainChar at h
  simp only [Bool.and_eq_true, bne_iff_ne, ne_eq, decide_eq_true_eq] at h
  obtain ⟨⟨h1, h2⟩, h3⟩ := h
  unfold Spec.escChar
  have e1 : (c == '\'') = false := by simpa using h1
  have e2 : (c == '\\') = false := by simpa using h2
  have n8 : ¬ (c.toNat = 8) := by omega
  have n12 : ¬ (c.toNat = 12) := by omega
  have nn : (c == '\n') = false := by
    simp only [beq_eq_false_iff_ne, ne_eq]; intro e; subst e; simp at h3
  have nr : (c == '\r') = false := by
    simp only [beq_eq_false_iff_ne, ne_eq]; intro e; subst e; simp at h3
  have nt : (c == '\t') = false := by
    simp only [beq_eq_false_iff_ne, ne_eq]; intro e; subst e; simp at h3
  have nl : ¬ (c.toNat < 0x20) := by omega
  simp [e1, e2, n8, n12, nn, nr, nt, nl]

theorem flatMap_esc_plain : ∀ (k : Str), plainKey k = true → k.flatMap Spec.escChar = k
  | [], _ => rfl
  | c :: r, h => by
    simp only [plainKey, List.all_cons, Bool.and_eq_true] at h
    simp [escChar_plain c h.1, flatMap_esc_plain r (by simpa [plainKey] using h.2)]

theorem npath_snoc_idx (l : Loc) (i : Nat) : Spec.npath (l ++ [.idx i]) = Spec.npath l ++ ['['] ++ natStr i ++ [']'] := by
  simp [Spec.npath, List.flatMap_append]

theorem npath_snoc_key (l : Loc) (k : Str) (hk : plainKey k = true) :
    Spec.npath (l ++ [.key k]) = Spec.npath l ++ ['[', '\''] ++ k ++ ['\'', ']'] := by
  simp [Spec.npath, List.flatMap_append, flatMap_esc_plain k hk]

/-- pointer invariant of the main pipeline -/
structure PtrOk (root : Json) (p : Ptr) : Prop where
  at_loc : root.at p.loc = some p.inner
  path_eq : p.path = Spec.npath p.loc
  plain : p.inner.plainKeys = true

theorem lookup_plain : ∀ (kvs : List (Str × Json)) (k : Str) (v : Json), plainKeysM kvs = true → lookup k kvs = some v →
    plainKey k = true ∧ v.plainKeys = true
  | [], _, _, _, h => by simp [lookup] at h
  | (k', v') :: kvs, k, v, hp, h => by
    simp only [plainKeysM, Bool.and_eq_true] at hp
    unfold lookup at h
    split at h
    · rename_i heq
      have : k' = k := by simpa using heq
      subst this
      simp at h; subst h; exact ⟨hp.1.1.1, hp.1.1.2⟩
    · exact lookup_plain kvs k v hp.2 h

theorem getElem_plain : ∀ (xs : List Json) (i : Nat) (x : Json), plainKeysL xs = true → xs[i]? = some x → x.plainKeys = true
  | [], _, _, _, h => by simp at h
  | y :: ys, 0, x, hp, h => by
    simp only [plainKeysL, Bool.and_eq_true] at hp
    simp at h; subst h; exact hp.1
  | y :: ys, i+1, x, hp, h => by
    simp only [plainKeysL, Bool.and_eq_true] at hp
    exact getElem_plain ys i x hp.2 (by simpa using h)

theorem ok_idx {root : Json} {p : Ptr} (hp : PtrOk root p) {xs : List Json} (hx : p.inner = .arr xs)
    {i : Nat} {x : Json} (hi : xs[i]? = some x) : PtrOk root (Ptr.idx x p.loc p.path i) := by
  have hpl : plainKeysL xs = true := by have := hp.plain; rw [hx] at this; simpa [Json.plainKeys] using this
  refine ⟨?_, ?_, getElem_plain xs i x hpl hi⟩
  · simp [Ptr.idx, Json.at_append, hp.at_loc, hx, Json.at, hi]
  · simp only [Ptr.idx, npath_snoc_idx, hp.path_eq]

theorem ok_key {root : Json} {p : Ptr} (hp : PtrOk root p) {kvs : List (Str × Json)} (hx : p.inner = .obj kvs)
    {k : Str} {v : Json} (hk : lookup k kvs = some v) (raw : Str)
    (hraw : raw = k ∨ raw = '\'' :: (k ++ ['\''])) (hhead : raw = k → raw.head? ≠ some '\'') :
    PtrOk root (Ptr.key v p.loc k p.path raw) := by
  have hpl : plainKeysM kvs = true := by have := hp.plain; rw [hx] at this; simpa [Json.plainKeys] using this
  obtain ⟨hk1, hk2⟩ := lookup_plain kvs k v hpl hk
  refine ⟨?_, ?_, hk2⟩
  · simp [Ptr.key, Json.at_append, hp.at_loc, hx, Json.at, hk]
  · rcases hraw with rfl | rfl
    · have : (raw.head? == some '\'' && raw.getLast? == some '\'') = false := by
        have := hhead rfl; simp [this]
      simp only [Ptr.key, this, npath_snoc_key _ _ hk1, hp.path_eq]
      simp
    · have : (('\'' :: (k ++ ['\''])).head? == some '\'' && ('\'' :: (k ++ ['\''])).getLast? == some '\'') = true := by
        simp [getLast_q]
      simp only [Ptr.key, this, npath_snoc_key _ _ hk1, hp.path_eq]
      simp

theorem lookup_of_mem : ∀ (kvs : List (Str × Json)) (k : Str) (v : Json), plainKeysM kvs = true → (k, v) ∈ kvs →
    lookup k kvs = some v
  | [], _, _, _, h => by simp at h
  | (k', v') :: kvs, k, v, hp, h => by
    simp only [plainKeysM, Bool.and_eq_true] at hp
    simp only [List.mem_cons, Prod.mk.injEq] at h
    unfold lookup
    rcases h with ⟨rfl, rfl⟩ | h
    · simp
    · have hne : (k' == k) = false := by
        have hnot := hp.1.2
        simp only [Bool.not_eq_true', List.any_eq_false, beq_iff_eq] at hnot
        have := hnot (k, v) h
        simp only [beq_eq_false_iff_ne, ne_eq]
        intro e; exact this e.symm
      simp [hne, lookup_of_mem kvs k v hp.2 h]

theorem zipIdxFrom_mem {α} : ∀ (xs : List α) (i : Nat) (x : α) (j : Nat), (x, j) ∈ zipIdxFrom xs i → i ≤ j ∧ xs[j - i]? = some x
  | [], _, _, _, h => by simp [zipIdxFrom] at h
  | y :: ys, i, x, j, h => by
    simp only [zipIdxFrom, List.mem_cons, Prod.mk.injEq] at h
    rcases h with ⟨rfl, rfl⟩ | h
    · simp
    · obtain ⟨h1, h2⟩ := zipIdxFrom_mem ys (i+1) x j h
      refine ⟨by omega, ?_⟩
      have : j - i = (j - (i+1)) + 1 := by omega
      rw [this]; simpa using h2

theorem childrenPtr_ok {root : Json} {p : Ptr} (hp : PtrOk root p) : ∀ c ∈ childrenPtr p, PtrOk root c := by
  intro c hc
  unfold childrenPtr at hc
  cases hx : p.inner with
  | arr xs =>
    simp only [hx, List.mem_map] at hc
    obtain ⟨⟨x, j⟩, hm, rfl⟩ := hc
    obtain ⟨_, h2⟩ := zipIdxFrom_mem xs 0 x j hm
    exact ok_idx hp hx (by simpa using h2)
  | obj kvs =>
    simp only [hx, List.mem_map] at hc
    obtain ⟨⟨k, v⟩, hm, rfl⟩ := hc
    have hpl : plainKeysM kvs = true := by have := hp.plain; rw [hx] at this; simpa [Json.plainKeys] using this
    have hl := lookup_of_mem kvs k v hpl hm
    have hk := (lookup_plain kvs k v hpl hl).1
    refine ok_key hp hx hl k (Or.inl rfl) ?_
    intro _ hh
    cases k with
    | nil => simp at hh
    | cons c r =>
      simp at hh; subst hh
      simp [plainKey, plainChar] at hk
  | null => simp [hx] at hc
  | bool _ => simp [hx] at hc
  | num _ => simp [hx] at hc
  | str _ => simp [hx] at hc

def AllOk (root : Json) (d : Data) : Prop := ∀ p ∈ d.toVec, PtrOk root p

theorem AllOk.flatMap {root : Json} {d : Data} {f : Ptr → Data} (hd : AllOk root d) (hs : d.shaped)
    (hf : ∀ p, PtrOk root p → AllOk root (f p)) : AllOk root (d.flatMap f) := by
  intro q hq
  rw [Data.toVec_flatMap _ _ hs] at hq
  simp only [List.mem_flatMap] at hq
  obtain ⟨p, hp, hq⟩ := hq
  exact hf p (hd p hp) q hq

theorem AllOk.reduce {root : Json} {a b : Data} (ha : AllOk root a) (hb : AllOk root b) (sa : a.shaped) (sb : b.shaped) :
    AllOk root (a.reduce b) := by
  intro q hq
  rw [Data.toVec_reduce _ _ sa sb] at hq
  simp only [List.mem_append] at hq
  rcases hq with h | h
  · exact ha q h
  · exact hb q h

/-- name selectors whose echo is already normalized: shorthand, or single-quoted plain text -/
inductive NormalName : Str → Str → Prop
  | shorthand (k : Str) : '\\' ∉ k → k.head? ≠ some '\'' → k.head? ≠ some '"' → NormalName k k
  | squoted (k : Str) : '\'' ∉ k → '\\' ∉ k → NormalName ('\'' :: (k ++ ['\''])) k

theorem NormalName.plain {raw k : Str} (h : NormalName raw k) : PlainName raw k := by
  cases h with
  | shorthand _ h1 h2 h3 => exact PlainName.shorthand _ h1 h2 h3
  | squoted _ h1 h2 => exact PlainName.quoted '\'' _ (Or.inl rfl) h1 h2

theorem processKey_ok {root : Json} {raw k : Str} (hn : NormalName raw k) {p : Ptr} (hp : PtrOk root p) :
    AllOk root (processKey raw p) := by
  intro q hq
  unfold processKey at hq
  rw [valueGet_plain hn.plain] at hq
  cases hx : p.inner with
  | obj kvs =>
    simp only [hx] at hq
    cases hl : lookup k kvs with
    | none => simp [hl, Data.toVec] at hq
    | some v =>
      simp only [hl, Option.map_some, Data.toVec, List.mem_singleton] at hq
      subst hq
      cases hn with
      | shorthand _ h1 h2 h3 => exact ok_key hp hx hl _ (Or.inl rfl) (fun _ => h2)
      | squoted _ h1 h2 =>
        refine ok_key hp hx hl _ (Or.inr rfl) ?_
        intro e
        have := congrArg List.length e
        simp at this
        omega
  | null => simp [hx, Data.toVec] at hq
  | bool _ => simp [hx, Data.toVec] at hq
  | num _ => simp [hx, Data.toVec] at hq
  | str _ => simp [hx, Data.toVec] at hq
  | arr _ => simp [hx, Data.toVec] at hq

theorem processIndex_ok {root : Json} (i : Int) {p : Ptr} (hp : PtrOk root p) : AllOk root (processIndex i p) := by
  intro q hq
  unfold processIndex at hq
  cases hx : p.inner with
  | arr xs =>
    simp only [hx] at hq
    split at hq
    · split at hq
      · simp [Data.toVec] at hq
      · split at hq
        · rename_i x hxi
          simp only [Data.toVec, List.mem_singleton] at hq; subst hq
          exact ok_idx hp hx hxi
        · simp [Data.toVec] at hq
    · split at hq
      · simp [Data.toVec] at hq
      · split at hq
        · rename_i x hxi
          simp only [Data.toVec, List.mem_singleton] at hq; subst hq
          exact ok_idx hp hx hxi
        · simp [Data.toVec] at hq
  | null => simp [hx, Data.toVec] at hq
  | bool _ => simp [hx, Data.toVec] at hq
  | num _ => simp [hx, Data.toVec] at hq
  | str _ => simp [hx, Data.toVec] at hq
  | obj _ => simp [hx, Data.toVec] at hq

theorem processSlice_ok {root : Json} (a b c : Option Int) {p : Ptr} (hp : PtrOk root p) : AllOk root (processSlice a b c p) := by
  intro q hq
  unfold processSlice at hq
  cases hx : p.inner with
  | arr xs =>
    simp only [hx, Data.toVec, List.mem_filterMap] at hq
    obtain ⟨i, _, hi⟩ := hq
    split at hi
    · rename_i x hxi
      simp at hi; subst hi
      exact ok_idx hp hx hxi
    · simp at hi
  | null => simp [hx, Data.toVec] at hq
  | bool _ => simp [hx, Data.toVec] at hq
  | num _ => simp [hx, Data.toVec] at hq
  | str _ => simp [hx, Data.toVec] at hq
  | obj _ => simp [hx, Data.toVec] at hq

theorem processWildcard_ok {root : Json} {p : Ptr} (hp : PtrOk root p) : AllOk root (processWildcard p) := by
  intro q hq
  have hsub : q ∈ childrenPtr p := by
    unfold processWildcard at hq
    cases hx : p.inner <;> simp only [hx] at hq
    all_goals first
      | (simp [Data.toVec] at hq; done)
      | (split at hq
         · simp [Data.toVec] at hq
         · simpa [Data.toVec] using hq)
  exact childrenPtr_ok hp q hsub

theorem filterChildrenWith_ok {root : Json} (item : Ptr → Bool) {d : Data} (hd : AllOk root d) (hs : d.shaped) :
    AllOk root (filterChildrenWith item d) := by
  unfold filterChildrenWith
  apply AllOk.flatMap hd hs
  intro p hp q hq
  have hsub : q ∈ childrenPtr p := by
    cases hx : p.inner <;> simp [hx, Data.toVec] at hq
    all_goals exact hq.1
  exact childrenPtr_ok hp q hsub

mutual
theorem descendant_ok (root : Json) : ∀ (j : Json) (loc : Loc) (path : Str), PtrOk root ⟨loc, j, path⟩ →
    ∀ q ∈ (descendant ⟨loc, j, path⟩ j).toVec, PtrOk root q
  | .null, _, _, _ => by simp [descendant, Data.toVec]
  | .bool _, _, _, _ => by simp [descendant, Data.toVec]
  | .num _, _, _, _ => by simp [descendant, Data.toVec]
  | .str _, _, _, _ => by simp [descendant, Data.toVec]
  | .arr xs, loc, path, hp => by
      intro q hq
      simp only [descendant, Data.reduce, Data.toVec, List.mem_cons] at hq
      rcases hq with rfl | hq
      · exact hp
      · refine descList_ok root xs loc path 0 ?_ q hq
        intro k x hk
        simpa [Ptr.idx] using ok_idx hp rfl (by simpa using hk)
  | .obj kvs, loc, path, hp => by
      intro q hq
      simp only [descendant, Data.reduce, Data.toVec, List.mem_cons] at hq
      rcases hq with rfl | hq
      · exact hp
      · refine descMembers_ok root kvs loc path ?_ q hq
        intro k v hm
        have hc := childrenPtr_ok hp (Ptr.key v loc k path k) (by simp [childrenPtr]; exact ⟨k, v, hm, rfl⟩)
        exact hc
theorem descList_ok (root : Json) : ∀ (xs : List Json) (loc : Loc) (path : Str) (i : Nat),
    (∀ k x, xs[k]? = some x → PtrOk root (Ptr.idx x loc path (i + k))) →
    ∀ q ∈ descList loc path i xs, PtrOk root q
  | [], _, _, _, _ => by simp [descList]
  | x :: xs, loc, path, i, h => by
      intro q hq
      simp only [descList, List.mem_append] at hq
      rcases hq with hq | hq
      · have hx := h 0 x (by simp)
        exact descendant_ok root x _ _ (by simpa [Ptr.idx] using hx) q (by simpa [Ptr.idx] using hq)
      · refine descList_ok root xs loc path (i+1) ?_ q hq
        intro k y hk
        have := h (k+1) y (by simpa using hk)
        have e : i + 1 + k = i + (k + 1) := by omega
        rw [e]; exact this
theorem descMembers_ok (root : Json) : ∀ (kvs : List (Str × Json)) (loc : Loc) (path : Str),
    (∀ k v, (k, v) ∈ kvs → PtrOk root (Ptr.key v loc k path k)) →
    ∀ q ∈ descMembers loc path kvs, PtrOk root q
  | [], _, _, _ => by simp [descMembers]
  | (k, v) :: kvs, loc, path, h => by
      intro q hq
      simp only [descMembers, List.mem_append] at hq
      rcases hq with hq | hq
      · have hx := h k v (by simp)
        exact descendant_ok root v _ _ (by simpa [Ptr.key] using hx) q (by simpa [Ptr.key] using hq)
      · exact descMembers_ok root kvs loc path (fun k' v' hm => h k' v' (by simp [hm])) q hq
end

theorem processDescendant_ok {root : Json} {p : Ptr} (hp : PtrOk root p) : AllOk root (processDescendant p) := by
  intro q hq
  exact descendant_ok root p.inner p.loc p.path hp q hq

/-- name selectors of the main query are normalized spellings (filters are unconstrained) -/
def nnSel : Selector → Prop
  | .name raw => ∃ k, NormalName raw k
  | _ => True
def nnSels : List Selector → Prop
  | [] => True
  | s :: ss => nnSel s ∧ nnSels ss
def nnSeg : Segment → Prop
  | .descendant (.selector s) => nnSel s
  | .descendant (.selectors ss) => ss ≠ [] ∧ nnSels ss
  | .descendant (.descendant _) => False
  | .selector s => nnSel s
  | .selectors ss => ss ≠ [] ∧ nnSels ss
def nnSegs : List Segment → Prop
  | [] => True
  | s :: ss => nnSeg s ∧ nnSegs ss

variable (E : Engine)

theorem sel_ok {root : Json} (s : Selector) (hn : nnSel s) {d : Data} (hd : AllOk root d) (hs : d.shaped) :
    AllOk root (s.process E root d) ∧ (s.process E root d).shaped := by
  cases s with
  | name raw =>
    obtain ⟨k, hk⟩ := hn
    exact ⟨by simpa [Selector.process] using AllOk.flatMap hd hs (fun p hp => processKey_ok hk hp),
           by simpa [Selector.process] using Data.shaped_flatMap _ _ (processKey_shaped raw)⟩
  | index i =>
    exact ⟨by simpa [Selector.process] using AllOk.flatMap hd hs (fun p hp => processIndex_ok i hp),
           by simpa [Selector.process] using Data.shaped_flatMap _ _ (processIndex_shaped i)⟩
  | wildcard =>
    exact ⟨by simpa [Selector.process] using AllOk.flatMap hd hs (fun p hp => processWildcard_ok hp),
           by simpa [Selector.process] using Data.shaped_flatMap _ _ processWildcard_shaped⟩
  | slice a b c =>
    exact ⟨by simpa [Selector.process] using AllOk.flatMap hd hs (fun p hp => processSlice_ok a b c hp),
           by simpa [Selector.process] using Data.shaped_flatMap _ _ (processSlice_shaped a b c)⟩
  | filter f =>
    exact ⟨by simpa [Selector.process] using filterChildrenWith_ok _ hd hs,
           by simpa [Selector.process] using filterChildrenWith_shaped _ _⟩

theorem selAll_ok {root : Json} : ∀ (ss : List Selector), ss ≠ [] → nnSels ss → ∀ {d : Data}, AllOk root d → d.shaped →
    AllOk root (Selector.processAll E root ss d) ∧ (Selector.processAll E root ss d).shaped
  | [], hne, _, _, _, _ => absurd rfl hne
  | [s], _, hn, d, hd, hs => by simpa [Selector.processAll] using sel_ok E s hn.1 hd hs
  | s :: s' :: ss, _, hn, d, hd, hs => by
      obtain ⟨h1, h2⟩ := sel_ok E s hn.1 hd hs
      obtain ⟨h3, h4⟩ := selAll_ok (s' :: ss) (by simp) hn.2 hd hs
      exact ⟨by simpa [Selector.processAll] using AllOk.reduce h1 h3 h2 h4, by simpa [Selector.processAll] using Data.shaped_reduce _ _⟩

theorem seg_ok {root : Json} (s : Segment) (hn : nnSeg s) {d : Data} (hd : AllOk root d) (hs : d.shaped) :
    AllOk root (s.process E root d) ∧ (s.process E root d).shaped := by
  match s, hn with
  | .selector s, hn => simpa [Segment.process] using sel_ok E s hn hd hs
  | .selectors ss, hn => simpa [Segment.process] using selAll_ok E ss hn.1 hn.2 hd hs
  | .descendant (.selector s), hn =>
    have hd' := AllOk.flatMap hd hs (fun p hp => processDescendant_ok (root := root) hp)
    have hs' := Data.shaped_flatMap processDescendant d processDescendant_shaped
    simpa [Segment.process] using sel_ok E s hn hd' hs'
  | .descendant (.selectors ss), hn =>
    have hd' := AllOk.flatMap hd hs (fun p hp => processDescendant_ok (root := root) hp)
    have hs' := Data.shaped_flatMap processDescendant d processDescendant_shaped
    simpa [Segment.process] using selAll_ok E ss hn.1 hn.2 hd' hs'

theorem segs_ok {root : Json} : ∀ (ss : List Segment), nnSegs ss → ∀ {d : Data}, AllOk root d → d.shaped →
    AllOk root (Segment.processList E root ss d)
  | [], _, d, hd, _ => by simpa [Segment.processList] using hd
  | s :: ss, hn, d, hd, hs => by
      obtain ⟨h1, h2⟩ := seg_ok E s hn.1 hd hs
      simpa [Segment.processList] using segs_ok ss hn.2 h1 h2

/-- C03(a) + the borrow clause of C01 (prototype): for a document with plain, distinct member names and a query
whose name selectors are shorthand or single-quoted plain text, every result carries the Normalized
Path of the node it points at, and its value is the value at that location. -/
theorem result_paths (root : Json) (hroot : root.plainKeys = true) (segs : List Segment) (hn : nnSegs segs)
    (ps : List Ptr) (h : jsPathProcess E segs root = .ok ps) :
    ∀ p ∈ ps, p.path = Spec.npath p.loc ∧ root.at p.loc = some p.inner := by
  have hroot' : AllOk root (rootData root) := by
    intro p hp
    simp only [rootData, Data.toVec, List.mem_singleton] at hp
    subst hp
    exact ⟨by simp [Json.at], by simp [Spec.npath], hroot⟩
  have hall := segs_ok E segs hn hroot' trivial
  unfold jsPathProcess at h
  intro p hp
  have hmem : p ∈ (Segment.processList E root segs (rootData root)).toVec := by
    revert h
    generalize Segment.processList E root segs (rootData root) = r
    intro h
    cases r <;> simp [Data.toVec] at h ⊢
    · subst h; simpa using hp
    · subst h; exact hp
    · subst h; simp at hp
  have := hall p hmem
  exact ⟨this.path_eq, this.at_loc⟩

#print axioms result_paths
#print axioms childrenPtr_ok
#print axioms ok_key
#print axioms ok_idx
end JP
