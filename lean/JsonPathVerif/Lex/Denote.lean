import JsonPathVerif.PestGrammar
/-! Denotation of PEG terms as plain functions on the remaining input, valid in every context that does not skip implicit
whitespace (atomic `@{}` and compound-atomic `${}` rules and everything called from inside them).  One lemma per combinator;
the denotation of a grammar rule is then obtained by composing them, rule by rule, following the generated file. -/
namespace JP
namespace Lex
open JP.Pest

abbrev LexFn := Rest → Option Rest

def lexR (p : PEG) (c : Ctx) (pos : Nat) (r : Rest) : Option Rest := (p c pos r).map (·.rest)

/-- no implicit whitespace is skipped in this context -/
def Tight (c : Ctx) : Prop := c.atom ≠ .nonAtomic

/-- `p` denotes `f` wherever no whitespace is skipped -/
def Denotes (p : PEG) (f : LexFn) : Prop := ∀ (c : Ctx) (pos : Nat) (r : Rest), Tight c → lexR p c pos r = f r

theorem skip_tight (c : Ctx) (h : Tight c) (pos : Nat) (r : Rest) : skip c pos r = (pos, r) := by
  unfold skip Tight at *
  cases hc : c.atom <;> simp_all

-- functional counterparts of the combinators
def fSeq (f g : LexFn) : LexFn := fun r => (f r).bind g
def fAlt (f g : LexFn) : LexFn := fun r => match f r with | some x => some x | none => g r
def fOpt (f : LexFn) : LexFn := fun r => match f r with | some x => some x | none => some r
def fClass (P : Char → Bool) : LexFn := fun r => match r with | x :: r' => if P x then some r' else none | [] => none
def fStarGo (f : LexFn) : Nat → Rest → Rest
  | 0, r => r
  | n+1, r => match f r with
    | some r' => if r'.length < r.length then fStarGo f n r' else r
    | none => r
/-- greedy repetition, exactly as pest's `repeat` (the first iteration is not progress-checked, like the generated code) -/
def fStar (f : LexFn) : LexFn := fun r => match f r with
  | none => some r
  | some r1 => some (fStarGo f (r.length + 1) r1)
def fNot (f : LexFn) : LexFn := fun r => match f r with | some _ => none | none => some r

theorem den_pstr (s : List Char) : Denotes (pstr s) (matchStr s) := by
  intro c pos r _; unfold lexR pstr; cases matchStr s r <;> rfl
theorem den_pinsens (s : List Char) : Denotes (pinsens s) (matchInsens s) := by
  intro c pos r _; unfold lexR pinsens; cases matchInsens s r <;> rfl
theorem den_prange (lo hi : Char) : Denotes (prange lo hi) (fClass fun x => decide (lo ≤ x ∧ x ≤ hi)) := by
  intro c pos r _
  unfold lexR prange fClass
  cases r with
  | nil => rfl
  | cons x r' => by_cases h : lo ≤ x ∧ x ≤ hi <;> simp [h]

theorem den_seq {a b : PEG} {f g : LexFn} (ha : Denotes a f) (hb : Denotes b g) : Denotes (a ~~ b) (fSeq f g) := by
  intro c pos r hc
  have h1 := ha c pos r hc
  unfold lexR at h1 ⊢
  unfold pseq fSeq
  cases hA : a c pos r with
  | none => rw [hA] at h1; simp [← h1]
  | some s1 =>
    rw [hA] at h1
    simp only [Option.map_some] at h1
    simp only [skip_tight c hc, ← h1, Option.bind_some]
    have h2 := hb c s1.pos s1.rest hc
    unfold lexR at h2
    cases hB : b c s1.pos s1.rest with
    | none => rw [hB] at h2; simp [← h2]
    | some s2 => rw [hB] at h2; simpa using h2

theorem den_choice {a b : PEG} {f g : LexFn} (ha : Denotes a f) (hb : Denotes b g) : Denotes (a // b) (fAlt f g) := by
  intro c pos r hc
  have h1 := ha c pos r hc
  have h2 := hb c pos r hc
  unfold lexR at h1 h2 ⊢
  unfold pchoice fAlt
  cases hA : a c pos r with
  | none => rw [hA] at h1; simp only [Option.map_none] at h1; rw [← h1]; exact h2
  | some s1 => rw [hA] at h1; simp only [Option.map_some] at h1; rw [← h1]; rfl

theorem den_opt {a : PEG} {f : LexFn} (ha : Denotes a f) : Denotes (popt a) (fOpt f) := by
  intro c pos r hc
  have h1 := ha c pos r hc
  unfold lexR at h1 ⊢
  unfold popt fOpt
  cases hA : a c pos r with
  | none => rw [hA] at h1; simp only [Option.map_none] at h1; rw [← h1]; rfl
  | some s1 => rw [hA] at h1; simp only [Option.map_some] at h1; rw [← h1]; rfl

theorem prepGo_den {a : PEG} {f : LexFn} (ha : Denotes a f) (c : Ctx) (hc : Tight c) :
    ∀ (n : Nat) (s : St RuleId), (prepGo a c n s).rest = fStarGo f n s.rest
  | 0, _ => rfl
  | n+1, s => by
    unfold prepGo fStarGo
    simp only [skip_tight c hc]
    have h1 := ha c s.pos s.rest hc
    unfold lexR at h1
    cases hA : a c s.pos s.rest with
    | none => rw [hA] at h1; simp only [Option.map_none] at h1; rw [← h1]
    | some s' =>
      rw [hA] at h1; simp only [Option.map_some] at h1; rw [← h1]
      by_cases hl : s'.rest.length < s.rest.length
      · simp only [hl, if_true]; exact prepGo_den ha c hc n _
      · simp [hl]

theorem den_rep {a : PEG} {f : LexFn} (ha : Denotes a f) : Denotes (prep a) (fStar f) := by
  intro c pos r hc
  have h1 := ha c pos r hc
  unfold lexR at h1 ⊢
  unfold prep fStar
  cases hA : a c pos r with
  | none => rw [hA] at h1; simp only [Option.map_none] at h1; rw [← h1]; rfl
  | some s1 =>
    rw [hA] at h1; simp only [Option.map_some] at h1; rw [← h1]
    simp [prepGo_den ha c hc]

theorem den_silent {a : PEG} {f : LexFn} (ha : Denotes a f) : Denotes (psilent a) f := ha

theorem den_rule_normal {a : PEG} {f : LexFn} (id : RuleId) (ha : Denotes a f) : Denotes (prule id .normal a) f := by
  intro c pos r hc
  have h1 := ha c pos r hc
  unfold lexR at h1 ⊢
  unfold prule
  simp only
  cases hA : a c pos r with
  | none => rw [hA] at h1; simpa using h1
  | some s => rw [hA] at h1; simpa using h1

/-- an atomic or compound-atomic rule denotes its body's function in EVERY outer context -/
theorem den_rule_atomic {a : PEG} {f : LexFn} (id : RuleId) (ha : Denotes a f) (c : Ctx) (pos : Nat) (r : Rest) :
    lexR (prule id .atomic a) c pos r = f r := by
  have h1 := ha { c with atom := .atomic } pos r (by simp [Tight])
  unfold lexR at h1 ⊢
  unfold prule
  simp only
  cases hA : a { c with atom := .atomic } pos r with
  | none => rw [hA] at h1; simpa using h1
  | some s => rw [hA] at h1; simpa using h1
theorem den_rule_compound {a : PEG} {f : LexFn} (id : RuleId) (ha : Denotes a f) (c : Ctx) (pos : Nat) (r : Rest) :
    lexR (prule id .compound a) c pos r = f r := by
  have h1 := ha { c with atom := .compound } pos r (by simp [Tight])
  unfold lexR at h1 ⊢
  unfold prule
  simp only
  cases hA : a { c with atom := .compound } pos r with
  | none => rw [hA] at h1; simpa using h1
  | some s => rw [hA] at h1; simpa using h1
/-- …and inside a tight context as well (nested atomic rule, e.g. `int` inside `number`) -/
theorem den_rule_atomic' {a : PEG} {f : LexFn} (id : RuleId) (ha : Denotes a f) : Denotes (prule id .atomic a) f :=
  fun c pos r _ => den_rule_atomic id ha c pos r

theorem den_congr {a : PEG} {f g : LexFn} (ha : Denotes a f) (h : ∀ r, f r = g r) : Denotes a g :=
  fun c pos r hc => (ha c pos r hc).trans (h r)

end Lex
end JP
