import JsonPathVerif.PestGrammar
import JsonPathVerif.Abnf
/-! Lexical layers of C06/C07 on the GENERATED grammar: generic lemmas for "one character of a class" PEGs in atomic
context, greedy repetition of a class, and from them: `member_name_shorthand` and `function_name` accept exactly the RFC 9535
lexemes (first character of the name-first class, then greedily the name-char class) – in every parsing context,
because both rules are atomic. -/
namespace JP
namespace Lex
open JP.Pest

/-- observable result of a PEG for lexical purposes: position and remaining input -/
def lexOf (p : PEG) (c : Ctx) (pos : Nat) (r : Rest) : Option (Nat × Rest) := (p c pos r).map fun s => (s.pos, s.rest)

/-- `p` consumes exactly one character satisfying `P` (in atomic context), and fails otherwise -/
def IsClass (p : PEG) (P : Char → Bool) : Prop :=
  ∀ (c : Ctx) (pos : Nat) (r : Rest), c.atom = .atomic →
    lexOf p c pos r = match r with
      | x :: r' => if P x then some (pos + 1, r') else none
      | [] => none

theorem isClass_prange (lo hi : Char) : IsClass (prange lo hi) (fun x => decide (lo ≤ x ∧ x ≤ hi)) := by
  intro c pos r _
  unfold lexOf prange
  cases r with
  | nil => simp
  | cons x r' => by_cases h : lo ≤ x ∧ x ≤ hi <;> simp [h]

theorem isClass_pstr1 (ch : Char) : IsClass (pstr [ch]) (fun x => x == ch) := by
  intro c pos r _
  unfold lexOf pstr
  cases r with
  | nil => simp [matchStr]
  | cons x r' => by_cases h : x = ch <;> simp [matchStr, h]

theorem isClass_choice {a b : PEG} {P Q : Char → Bool} (ha : IsClass a P) (hb : IsClass b Q) :
    IsClass (a // b) (fun x => P x || Q x) := by
  intro c pos r hc
  have h1 := ha c pos r hc
  have h2 := hb c pos r hc
  unfold lexOf at *
  unfold pchoice
  cases hr : r with
  | nil => subst hr; cases hA : a c pos [] <;> simp_all
  | cons x r' =>
    subst hr
    by_cases hP : P x = true
    · cases hA : a c pos (x :: r') with
      | some s => simp only [hA, Option.map_some, hP, if_true] at h1 ⊢; simpa [hP] using h1
      | none => simp [hA, hP] at h1
    · have hP' : P x = false := by simpa using hP
      cases hA : a c pos (x :: r') with
      | some s => simp [hA, hP'] at h1
      | none => simp only [hA, Option.map_none, hP', Bool.false_or] at h1 ⊢; exact h2

theorem isClass_rule {a : PEG} {P : Char → Bool} (id : RuleId) (ha : IsClass a P) : IsClass (prule id .normal a) P := by
  intro c pos r hc
  have h1 := ha c pos r hc
  unfold lexOf at *
  unfold prule
  simp only
  cases hA : a c pos r with
  | none => rw [hA] at h1; simpa using h1
  | some s => rw [hA] at h1; simpa using h1

theorem isClass_silent {a : PEG} {P : Char → Bool} (ha : IsClass a P) : IsClass (psilent a) P := ha

theorem isClass_congr {a : PEG} {P Q : Char → Bool} (ha : IsClass a P) (h : ∀ x, P x = Q x) : IsClass a Q := by
  intro c pos r hc
  rw [ha c pos r hc]
  cases r <;> simp [h]

theorem skip_atomic' (c : Ctx) (h : c.atom = .atomic) (pos : Nat) (r : Rest) : skip c pos r = (pos, r) := by
  simp [skip, h]

/-- greedy repetition of a class eats exactly the leading characters of the class -/
theorem prepGo_class {a : PEG} {P : Char → Bool} (ha : IsClass a P) (c : Ctx) (hc : c.atom = .atomic) :
    ∀ (n : Nat) (s : St RuleId), s.rest.length < n →
      (prepGo a c n s).rest = s.rest.dropWhile P ∧ (prepGo a c n s).pos = s.pos + (s.rest.takeWhile P).length
  | 0, s, h => by simp at h
  | n+1, s, h => by
    unfold prepGo
    simp only [skip_atomic' c hc]
    have hA := ha c s.pos s.rest hc
    unfold lexOf at hA
    cases hr : s.rest with
    | nil =>
      rw [hr] at hA
      cases hq : a c s.pos [] with
      | none => simp [hr]
      | some s' => simp [hq] at hA
    | cons x r' =>
      rw [hr] at hA
      by_cases hx : P x = true
      · simp only [hx, if_true] at hA
        cases hq : a c s.pos (x :: r') with
        | none => simp [hq] at hA
        | some s' =>
          simp only [hq, Option.map_some, Option.some.injEq, Prod.mk.injEq] at hA
          have hlen : s'.rest.length < (x :: r').length := by rw [hA.2]; simp
          simp only [hlen, if_true]
          have ih := prepGo_class ha c hc n ⟨s'.pos, s'.rest, s.out ++ s'.out⟩ (by simp [hA.2]; simp [hr] at h; omega)
          simp only [hA.1, hA.2] at ih ⊢
          simp only [List.dropWhile_cons, List.takeWhile_cons, hx, if_true, List.length_cons]
          exact ⟨ih.1, by rw [ih.2]; omega⟩
      · have hx' : P x = false := by simpa using hx
        simp only [hx', Bool.false_eq_true, if_false] at hA
        cases hq : a c s.pos (x :: r') with
        | none => simp [List.dropWhile_cons, List.takeWhile_cons, hx', hr]
        | some s' => simp [hq] at hA

theorem prep_class {a : PEG} {P : Char → Bool} (ha : IsClass a P) (c : Ctx) (hc : c.atom = .atomic) (pos : Nat) (r : Rest) :
    lexOf (prep a) c pos r = some (pos + (r.takeWhile P).length, r.dropWhile P) := by
  unfold lexOf prep
  have hA := ha c pos r hc
  unfold lexOf at hA
  cases r with
  | nil =>
    cases hq : a c pos [] with
    | none => simp
    | some s => simp [hq] at hA
  | cons x r' =>
    by_cases hx : P x = true
    · simp only [hx, if_true] at hA
      cases hq : a c pos (x :: r') with
      | none => simp [hq] at hA
      | some s1 =>
        simp only [hq, Option.map_some, Option.some.injEq, Prod.mk.injEq] at hA
        obtain ⟨h1, h2⟩ := prepGo_class ha c hc (r'.length + 1 + 1) s1 (by rw [hA.2]; omega)
        simp only [Option.map_some, List.length_cons, h1, h2, hA.1, hA.2, List.dropWhile_cons, List.takeWhile_cons, hx, if_true]
        congr 2; omega
    · have hx' : P x = false := by simpa using hx
      simp only [hx', Bool.false_eq_true, if_false] at hA
      cases hq : a c pos (x :: r') with
      | none => simp [List.dropWhile_cons, List.takeWhile_cons, hx']
      | some s => simp [hq] at hA

/-- first character of class `P`, then greedily class `Q` -/
def lexFirstRest (P Q : Char → Bool) : Rest → Option Rest
  | x :: r => if P x then some (r.dropWhile Q) else none
  | [] => none

/-- `first ~ rest*` inside an atomic rule, in ANY outer context -/
theorem atomic_first_rest {a b : PEG} {P Q : Char → Bool} (ha : IsClass a P) (hb : IsClass b Q) (id : RuleId)
    (c : Ctx) (pos : Nat) (r : Rest) :
    (prule id .atomic (a ~~ prep b) c pos r).map (·.rest) = lexFirstRest P Q r := by
  unfold prule
  simp only
  have hc : ({ c with atom := Atomicity.atomic } : Ctx).atom = .atomic := rfl
  generalize ({ c with atom := Atomicity.atomic } : Ctx) = ca at hc
  have hA := ha ca pos r hc
  unfold lexOf at hA
  unfold pseq
  cases r with
  | nil =>
    cases hq : a ca pos [] with
    | none => simp [lexFirstRest]
    | some s => simp [hq] at hA
  | cons x r' =>
    by_cases hx : P x = true
    · simp only [hx, if_true] at hA
      cases hq : a ca pos (x :: r') with
      | none => simp [hq] at hA
      | some s1 =>
        simp only [hq, Option.map_some, Option.some.injEq, Prod.mk.injEq] at hA
        have hB := prep_class hb ca hc s1.pos s1.rest
        unfold lexOf at hB
        simp only [skip_atomic' ca hc]
        cases hq2 : prep b ca s1.pos s1.rest with
        | none => simp [hq2] at hB
        | some s2 =>
          simp only [hq2, Option.map_some, Option.some.injEq, Prod.mk.injEq] at hB
          simp [lexFirstRest, hx, hB.2, hA.2]
    · have hx' : P x = false := by simpa using hx
      simp only [hx', Bool.false_eq_true, if_false] at hA
      cases hq : a ca pos (x :: r') with
      | none => simp [lexFirstRest, hx']
      | some s => simp [hq] at hA

end Lex
end JP
