import JsonPathVerif.Lex.Denote
import JsonPathVerif.Abnf
/-! Lexical layers 2-4 of C06/C07: the token rules of the GENERATED grammar (`int`, `number`, `string`) denote exactly the
RFC 9535 ABNF token definitions, transcribed here (namespace `RfcLex`) from Appendix A of the RFC as ordered-choice functions
over the RFC's character classes (ABNF string literals are case-insensitive, `%x` terminals exact; the alternatives of each
ABNF rule used here start with distinct characters or are tried longest-first, so ordered choice decides the same language).
Because `int`/`string` are atomic and `number` compound-atomic, the statements hold in every parsing context. -/
namespace JP
namespace Lex
open JP.Pest

theorem toNat_inj' {a b : Char} (h : a.toNat = b.toNat) : a = b := by
  apply Char.ext; apply UInt32.toNat_inj.mp; exact h

theorem matchStr_single (ch : Char) : matchStr [ch] = fClass (fun x => x == ch) := by
  funext r
  cases r with
  | nil => rfl
  | cons x r' => by_cases h : x = ch <;> simp [matchStr, fClass, h]

/-- pest's `^"X"` for an upper-case ASCII letter X = the ABNF's case-insensitive "X": X or its lower-case form -/
theorem matchInsens_upper (u l : Char) (hu : 65 ≤ u.toNat ∧ u.toNat ≤ 90) (hl : l.toNat = u.toNat + 32) :
    matchInsens [u] = fClass (fun x => x == u || x == l) := by
  funext r
  cases r with
  | nil => rfl
  | cons x r' =>
    have key : ciEq x u = (x == u || x == l) := by
      unfold ciEq isUpperAZ
      by_cases h1 : x = u
      · simp [h1]
      · by_cases h2 : x = l
        · subst h2
          have : ¬ (65 ≤ x.toNat ∧ x.toNat ≤ 90) := by omega
          simp [h1, this, hl, hu]
        · have n1 : x.toNat ≠ u.toNat := fun e => h1 (toNat_inj' e)
          have n2 : x.toNat ≠ l.toNat := fun e => h2 (toNat_inj' e)
          have a1 : (decide (65 ≤ x.toNat ∧ x.toNat ≤ 90) && x.toNat + 32 == u.toNat) = false := by
            by_cases hx : 65 ≤ x.toNat ∧ x.toNat ≤ 90
            · have : x.toNat + 32 ≠ u.toNat := by omega
              simp [hx, this]
            · simp [hx]
          have a2 : (u.toNat + 32 == x.toNat) = false := by simp; omega
          have e1 : (x == u) = false := by simpa using h1
          have e2 : (x == l) = false := by simpa using h2
          simp only [a1, a2, e1, e2, Bool.and_false, Bool.or_false]
    simp [matchInsens, fClass, key]

theorem fAlt_class (P Q : Char → Bool) : fAlt (fClass P) (fClass Q) = fClass (fun x => P x || Q x) := by
  funext r
  cases r with
  | nil => rfl
  | cons x r' => cases hP : P x <;> cases hQ : Q x <;> simp [fAlt, fClass, hP, hQ]

theorem fClass_congr {P Q : Char → Bool} (h : ∀ x, P x = Q x) : fClass P = fClass Q := by
  funext r; cases r <;> simp [fClass, h]

theorem char_le_iff' (a b : Char) : a ≤ b ↔ a.toNat ≤ b.toNat := by
  rw [Char.le_def]; exact UInt32.le_iff_toNat_le

/-! ### the RFC 9535 token grammar (Appendix A), as functions -/
namespace RfcLex
open Abnf
def ci (u l : Char) : LexFn := fClass fun x => x == u || x == l       -- ABNF "X" (case-insensitive string literal)
def DIGIT : LexFn := fClass isDigit
def DIGIT1 : LexFn := fClass isDigit1
def HEXDIG : LexFn := fClass isHex
/-- int = "0" / (["-"] DIGIT1 *DIGIT) -/
def int : LexFn := fAlt (fClass (· == '0')) (fSeq (fOpt (fClass (· == '-'))) (fSeq DIGIT1 (fStar DIGIT)))
/-- frac = "." 1*DIGIT -/
def frac : LexFn := fSeq (fClass (· == '.')) (fSeq DIGIT (fStar DIGIT))
/-- exp = "e" [ "-" / "+" ] 1*DIGIT -/
def exp : LexFn := fSeq (ci 'e' 'E') (fSeq (fOpt (fClass fun x => x == '-' || x == '+')) (fSeq DIGIT (fStar DIGIT)))
/-- number = (int / "-0") [ frac ] [ exp ] -/
def number : LexFn := fSeq (fAlt int (matchStr ['-', '0'])) (fSeq (fOpt frac) (fOpt exp))
/-- non-surrogate = ((DIGIT / "A"/"B"/"C" / "E"/"F") 3HEXDIG) / ("D" %x30-37 2HEXDIG ) -/
def nonSurrogate : LexFn :=
  fAlt (fSeq (fClass fun x => isDigit x || x == 'A' || x == 'a' || x == 'B' || x == 'b' || x == 'C' || x == 'c' || x == 'E' || x == 'e' || x == 'F' || x == 'f')
          (fSeq HEXDIG (fSeq HEXDIG HEXDIG)))
       (fSeq (ci 'D' 'd') (fSeq (fClass fun x => decide ('0' ≤ x ∧ x ≤ '7')) (fSeq HEXDIG HEXDIG)))
/-- high-surrogate = "D" ("8"/"9"/"A"/"B") 2HEXDIG -/
def highSurrogate : LexFn :=
  fSeq (ci 'D' 'd') (fSeq (fClass fun x => x == '8' || x == '9' || x == 'A' || x == 'a' || x == 'B' || x == 'b') (fSeq HEXDIG HEXDIG))
/-- low-surrogate = "D" ("C"/"D"/"E"/"F") 2HEXDIG -/
def lowSurrogate : LexFn :=
  fSeq (ci 'D' 'd') (fSeq (fClass fun x => x == 'C' || x == 'c' || x == 'D' || x == 'd' || x == 'E' || x == 'e' || x == 'F' || x == 'f') (fSeq HEXDIG HEXDIG))
/-- hexchar = non-surrogate / (high-surrogate "\" %x75 low-surrogate) -/
def hexchar : LexFn := fAlt nonSurrogate (fSeq highSurrogate (fSeq (fClass (· == '\\')) (fSeq (fClass (· == 'u')) lowSurrogate)))
/-- escapable = %x62 / %x66 / %x6E / %x72 / %x74 / "/" / "\" / (%x75 hexchar) -/
def escapable : LexFn :=
  fAlt (fClass fun x => x == 'b' || x == 'f' || x == 'n' || x == 'r' || x == 't' || x == '/' || x == '\\') (fSeq (fClass (· == 'u')) hexchar)
def unescaped : LexFn := fClass isUnescaped
def ESC : LexFn := fClass (· == '\\')
/-- double-quoted = unescaped / %x27 / ESC %x22 / ESC escapable -/
def doubleQuoted : LexFn := fAlt unescaped (fAlt (fClass (· == '\'')) (fAlt (fSeq ESC (fClass (· == '"'))) (fSeq ESC escapable)))
/-- single-quoted = unescaped / %x22 / ESC %x27 / ESC escapable -/
def singleQuoted : LexFn := fAlt unescaped (fAlt (fClass (· == '"')) (fAlt (fSeq ESC (fClass (· == '\''))) (fSeq ESC escapable)))
/-- string-literal = %x22 *double-quoted %x22 / %x27 *single-quoted %x27 -/
def stringLiteral : LexFn :=
  fAlt (fSeq (fClass (· == '"')) (fSeq (fStar doubleQuoted) (fClass (· == '"'))))
       (fSeq (fClass (· == '\'')) (fSeq (fStar singleQuoted) (fClass (· == '\''))))
end RfcLex

/-! ### denotations of the generated grammar rules -/
theorem den_DIGIT : Denotes DIGIT_ RfcLex.DIGIT := by
  refine den_congr (den_silent (den_prange '0' '9')) (fun r => ?_)
  rw [RfcLex.DIGIT, fClass_congr (Q := Abnf.isDigit) (fun x => by simp [Abnf.isDigit])]
theorem den_DIGIT1 : Denotes DIGIT1_ RfcLex.DIGIT1 := by
  refine den_congr (den_silent (den_prange '1' '9')) (fun r => ?_)
  rw [RfcLex.DIGIT1, fClass_congr (Q := Abnf.isDigit1) (fun x => by simp [Abnf.isDigit1])]

theorem den_int_body : Denotes ((pstr ['0'] // (popt (pstr ['-']) ~~ (DIGIT1_ ~~ prep (DIGIT_))))) RfcLex.int := by
  have h := den_choice (den_pstr ['0']) (den_seq (den_opt (den_pstr ['-'])) (den_seq den_DIGIT1 (den_rep den_DIGIT)))
  simp only [matchStr_single] at h
  exact h

/-- layer 2: the `int` rule denotes RFC `int`, in every parsing context -/
theorem int_denotes (c : Ctx) (pos : Nat) (r : Rest) : lexR int_ c pos r = RfcLex.int r :=
  den_rule_atomic _ den_int_body c pos r

theorem den_frac : Denotes frac_ RfcLex.frac := by
  have h := den_rule_normal .r_frac (den_seq (den_pstr ['.']) (den_seq den_DIGIT (den_rep den_DIGIT)))
  simp only [matchStr_single] at h
  exact h
theorem den_exp : Denotes exp_ RfcLex.exp := by
  have h := den_rule_normal .r_exp (den_seq (den_choice (den_pstr ['e']) (den_pstr ['E']))
    (den_seq (den_opt (den_choice (den_pstr ['-']) (den_pstr ['+']))) (den_seq den_DIGIT (den_rep den_DIGIT))))
  simp only [matchStr_single, fAlt_class] at h
  exact h

/-- layer 3: the `number` rule denotes RFC `number`, in every parsing context -/
theorem number_denotes (c : Ctx) (pos : Nat) (r : Rest) : lexR number_ c pos r = RfcLex.number r :=
  den_rule_compound _ (den_seq (den_choice (den_rule_atomic' _ den_int_body) (den_pstr ['-', '0'])) (den_seq (den_opt den_frac) (den_opt den_exp))) c pos r

theorem beq_char_toNat (x c : Char) : (x == c) = (x.toNat == c.toNat) := by
  by_cases h : x = c
  · subst h; simp
  · have : x.toNat ≠ c.toNat := fun e => h (toNat_inj' e)
    rw [beq_eq_false_iff_ne.mpr h, beq_eq_false_iff_ne.mpr this]
theorem le_char_toNat (a b : Char) : decide (a ≤ b) = decide (a.toNat ≤ b.toNat) := by simp [char_le_iff']

/-- proves Boolean equations between character-class predicates by moving to code points and `omega` -/
macro "char_class" : tactic => `(tactic| (
  simp only [le_char_toNat, beq_char_toNat, Char.reduceToNat, Bool.decide_and]
  generalize Char.toNat _ = n
  rw [Bool.eq_iff_iff]
  simp only [Bool.or_eq_true, Bool.and_eq_true, decide_eq_true_eq, beq_iff_eq]
  omega))

theorem isHex_eq (x : Char) : Abnf.isHex x =
    (Abnf.isDigit x || (x == 'A' || x == 'a') || (x == 'B' || x == 'b') || (x == 'C' || x == 'c') || (x == 'D' || x == 'd') ||
      (x == 'E' || x == 'e') || (x == 'F' || x == 'f')) := by
  unfold Abnf.isHex Abnf.isDigit
  char_class

theorem den_HEXDIG : Denotes HEXDIG_ RfcLex.HEXDIG := by
  have h := den_silent (den_choice den_DIGIT (den_choice (den_pinsens ['A']) (den_choice (den_pinsens ['B']) (den_choice (den_pinsens ['C'])
    (den_choice (den_pinsens ['D']) (den_choice (den_pinsens ['E']) (den_pinsens ['F'])))))))
  rw [matchInsens_upper 'A' 'a' (by decide) (by decide), matchInsens_upper 'B' 'b' (by decide) (by decide),
    matchInsens_upper 'C' 'c' (by decide) (by decide), matchInsens_upper 'D' 'd' (by decide) (by decide),
    matchInsens_upper 'E' 'e' (by decide) (by decide), matchInsens_upper 'F' 'f' (by decide) (by decide)] at h
  simp only [RfcLex.DIGIT, fAlt_class] at h
  refine den_congr h (fun r => ?_)
  rw [RfcLex.HEXDIG, fClass_congr (Q := Abnf.isHex) (fun x => by rw [isHex_eq]; simp [Bool.or_assoc])]

theorem ci_D : matchInsens ['D'] = RfcLex.ci 'D' 'd' := matchInsens_upper 'D' 'd' (by decide) (by decide)

theorem den_non_surrogate : Denotes non_surrogate_ RfcLex.nonSurrogate := by
  have h := den_silent (den_choice
    (den_seq (den_choice den_DIGIT (den_choice (den_pinsens ['A']) (den_choice (den_pinsens ['B']) (den_choice (den_pinsens ['C'])
      (den_choice (den_pinsens ['E']) (den_pinsens ['F'])))))) (den_seq den_HEXDIG (den_seq den_HEXDIG den_HEXDIG)))
    (den_seq (den_pinsens ['D']) (den_seq (den_prange '0' '7') (den_seq den_HEXDIG den_HEXDIG))))
  rw [matchInsens_upper 'A' 'a' (by decide) (by decide), matchInsens_upper 'B' 'b' (by decide) (by decide),
    matchInsens_upper 'C' 'c' (by decide) (by decide), matchInsens_upper 'E' 'e' (by decide) (by decide),
    matchInsens_upper 'F' 'f' (by decide) (by decide), ci_D] at h
  simp only [RfcLex.DIGIT, fAlt_class] at h
  refine den_congr h (fun r => ?_)
  unfold RfcLex.nonSurrogate
  congr 3
  funext x
  simp only [Bool.or_assoc]

theorem den_high_surrogate : Denotes high_surrogate_ RfcLex.highSurrogate := by
  have h := den_silent (den_seq (den_pinsens ['D']) (den_seq (den_choice (den_pstr ['8']) (den_choice (den_pstr ['9'])
    (den_choice (den_pinsens ['A']) (den_pinsens ['B'])))) (den_seq den_HEXDIG den_HEXDIG)))
  rw [matchInsens_upper 'A' 'a' (by decide) (by decide), matchInsens_upper 'B' 'b' (by decide) (by decide), ci_D] at h
  simp only [matchStr_single, fAlt_class] at h
  refine den_congr h (fun r => ?_)
  unfold RfcLex.highSurrogate
  congr 3
  funext x
  simp only [Bool.or_assoc]

theorem den_low_surrogate : Denotes low_surrogate_ RfcLex.lowSurrogate := by
  have h := den_silent (den_seq (den_pinsens ['D']) (den_seq (den_choice (den_pinsens ['C']) (den_choice (den_pinsens ['D'])
    (den_choice (den_pinsens ['E']) (den_pinsens ['F'])))) (den_seq den_HEXDIG den_HEXDIG)))
  rw [matchInsens_upper 'C' 'c' (by decide) (by decide), matchInsens_upper 'E' 'e' (by decide) (by decide),
    matchInsens_upper 'F' 'f' (by decide) (by decide), ci_D] at h
  simp only [RfcLex.ci, fAlt_class] at h
  refine den_congr h (fun r => ?_)
  unfold RfcLex.lowSurrogate RfcLex.ci
  congr 3
  funext x
  simp only [Bool.or_assoc]

theorem den_hexchar : Denotes hexchar_ RfcLex.hexchar := by
  have h := den_silent (den_choice den_non_surrogate (den_seq den_high_surrogate (den_seq (den_pstr ['\\']) (den_seq (den_pstr ['u']) den_low_surrogate))))
  simp only [matchStr_single] at h
  exact h

theorem den_escapable : Denotes escapable_ RfcLex.escapable := by
  have h := den_silent (den_choice (den_pstr ['b']) (den_choice (den_pstr ['f']) (den_choice (den_pstr ['n']) (den_choice (den_pstr ['r'])
    (den_choice (den_pstr ['t']) (den_choice (den_pstr ['/']) (den_choice (den_pstr ['\\']) (den_seq (den_pstr ['u']) den_hexchar))))))))
  simp only [matchStr_single] at h
  refine den_congr h (fun r => ?_)
  unfold RfcLex.escapable
  -- seven single-character alternatives followed by the `u hexchar` alternative
  cases r with
  | nil => rfl
  | cons x r' =>
    simp only [fAlt, fClass, fSeq]
    by_cases h1 : x = 'b' <;> by_cases h2 : x = 'f' <;> by_cases h3 : x = 'n' <;> by_cases h4 : x = 'r' <;>
      by_cases h5 : x = 't' <;> by_cases h6 : x = '/' <;> by_cases h7 : x = '\\' <;> simp_all

theorem den_unescaped : Denotes unescaped_ RfcLex.unescaped := by
  have h := den_silent (den_choice (den_prange ' ' '!') (den_choice (den_prange '#' '&') (den_choice (den_prange '(' '[')
    (den_choice (den_prange ']' (Char.ofNat 0xD7FF)) (den_prange (Char.ofNat 0xE000) (Char.ofNat 0x10FFFF))))))
  simp only [fAlt_class] at h
  refine den_congr h (fun r => ?_)
  unfold RfcLex.unescaped
  refine congrFun (fClass_congr (fun x => ?_)) r
  unfold Abnf.isUnescaped
  have e1 : (Char.ofNat 0xD7FF).toNat = 0xD7FF := by decide
  have e2 : (Char.ofNat 0xE000).toNat = 0xE000 := by decide
  have e3 : (Char.ofNat 0x10FFFF).toNat = 0x10FFFF := by decide
  simp only [le_char_toNat, Char.reduceToNat, Bool.decide_and, e1, e2, e3]
  generalize x.toNat = n
  rw [Bool.eq_iff_iff]
  simp only [Bool.or_eq_true, Bool.and_eq_true, decide_eq_true_eq]
  omega

theorem den_double_quoted : Denotes double_quoted_ RfcLex.doubleQuoted := by
  have h := den_silent (den_choice den_unescaped (den_choice (den_pstr ['\''])
    (den_choice (den_seq (den_silent (den_pstr ['\\'])) (den_pstr ['"'])) (den_seq (den_silent (den_pstr ['\\'])) den_escapable))))
  simp only [matchStr_single] at h
  exact h
theorem den_single_quoted : Denotes single_quoted_ RfcLex.singleQuoted := by
  have h := den_silent (den_choice den_unescaped (den_choice (den_pstr ['"'])
    (den_choice (den_seq (den_silent (den_pstr ['\\'])) (den_pstr ['\''])) (den_seq (den_silent (den_pstr ['\\'])) den_escapable))))
  simp only [matchStr_single] at h
  exact h

/-- layer 4: the `string` rule denotes RFC `string-literal`, in every parsing context: both quote styles, every escape the RFC
allows (upper- and lower-case hex, surrogate pairs only as pairs), nothing else -/
theorem string_denotes (c : Ctx) (pos : Nat) (r : Rest) : lexR string_ c pos r = RfcLex.stringLiteral r := by
  have h := den_choice (den_seq (den_pstr ['"']) (den_seq (den_rep den_double_quoted) (den_pstr ['"'])))
    (den_seq (den_pstr ['\'']) (den_seq (den_rep den_single_quoted) (den_pstr ['\''])))
  simp only [matchStr_single] at h
  exact den_rule_atomic _ h c pos r

-- sanity / non-vacuity (kernel-evaluated)
example : RfcLex.stringLiteral "'a\\u00e9\\uD83D\\ude00' x".toList = some " x".toList := by decide
example : RfcLex.stringLiteral "'\\uD83D'".toList = none := by decide          -- lone high surrogate
example : RfcLex.stringLiteral "\"a\\'b\"".toList = none := by decide        -- \' is not an escape inside double quotes
example : RfcLex.number "-0.50e+10,".toList = some ",".toList := by decide
example : RfcLex.number "1. 5".toList = some ". 5".toList := by decide           -- stops before the blank: no `1. 5`
example : RfcLex.int "01".toList = some "1".toList := by decide

end Lex
end JP
