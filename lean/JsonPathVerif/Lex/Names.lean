import JsonPathVerif.Lex.Class
/-! `member_name_shorthand` and `function_name` of the generated grammar = the RFC 9535 lexemes. -/
namespace JP
namespace Lex
open JP.Pest

theorem char_le_iff (a b : Char) : a ≤ b ↔ a.toNat ≤ b.toNat := by
  rw [Char.le_def]
  exact UInt32.le_iff_toNat_le

theorem isClass_ALPHA : IsClass ALPHA_ Abnf.isAlpha := by
  refine isClass_congr (isClass_rule _ (isClass_choice (isClass_prange 'a' 'z') (isClass_prange 'A' 'Z'))) ?_
  intro x; simp [Abnf.isAlpha]

theorem isClass_DIGIT : IsClass DIGIT_ Abnf.isDigit := by
  refine isClass_congr (isClass_silent (isClass_prange '0' '9')) ?_
  intro x; simp [Abnf.isDigit]

theorem isClass_name_first : IsClass name_first_ Abnf.isNameFirst := by
  refine isClass_congr (isClass_rule _ (isClass_choice isClass_ALPHA (isClass_choice (isClass_pstr1 '_')
    (isClass_choice (isClass_prange (Char.ofNat 0x80) (Char.ofNat 0xD7FF)) (isClass_prange (Char.ofNat 0xE000) (Char.ofNat 0x10FFFF)))))) ?_
  intro x
  have e1 : (Char.ofNat 0x80).toNat = 0x80 := by decide
  have e2 : (Char.ofNat 0xD7FF).toNat = 0xD7FF := by decide
  have e3 : (Char.ofNat 0xE000).toNat = 0xE000 := by decide
  have e4 : (Char.ofNat 0x10FFFF).toNat = 0x10FFFF := by decide
  simp only [Abnf.isNameFirst, char_le_iff, Bool.or_assoc, e1, e2, e3, e4, Bool.decide_and]

theorem isClass_name_char : IsClass name_char_ Abnf.isNameChar :=
  isClass_congr (isClass_rule _ (isClass_choice isClass_name_first isClass_DIGIT)) (fun _ => rfl)

/-- RFC 9535 `member-name-shorthand = name-first *name-char`, as a greedy lexer -/
def rfcShorthand : Rest → Option Rest := lexFirstRest Abnf.isNameFirst Abnf.isNameChar

/-- layers 4a of C06/C07: in every parsing context the grammar's `member_name_shorthand` rule accepts exactly an RFC
shorthand name and stops right after it: no blank inside or after, any name-first character (incl. non-ASCII) accepted -/
theorem member_name_shorthand_spec (c : Ctx) (pos : Nat) (r : Rest) :
    (member_name_shorthand_ c pos r).map (·.rest) = rfcShorthand r :=
  atomic_first_rest isClass_name_first isClass_name_char _ c pos r

theorem isClass_LCALPHA : IsClass LCALPHA_ Abnf.isLc := by
  refine isClass_congr (isClass_rule _ (isClass_prange 'a' 'z')) ?_
  intro x; simp [Abnf.isLc]

def isFnChar (x : Char) : Bool := Abnf.isLc x || x == '_' || Abnf.isDigit x

theorem isClass_function_name_char : IsClass function_name_char_ isFnChar := by
  refine isClass_congr (isClass_rule _ (isClass_choice (isClass_rule _ isClass_LCALPHA) (isClass_choice (isClass_pstr1 '_') isClass_DIGIT))) ?_
  intro x; simp [isFnChar, Bool.or_assoc]

/-- RFC 9535 `function-name = function-name-first *function-name-char` -/
def rfcFunctionName : Rest → Option Rest := lexFirstRest Abnf.isLc isFnChar

theorem function_name_spec (c : Ctx) (pos : Nat) (r : Rest) :
    (function_name_ c pos r).map (·.rest) = rfcFunctionName r :=
  atomic_first_rest (isClass_rule _ isClass_LCALPHA) isClass_function_name_char _ c pos r

-- non-vacuity / sanity
example : rfcShorthand "ab c".toList = some " c".toList := by decide
example : rfcShorthand "1a".toList = none := by decide
example : rfcFunctionName "le ngth(".toList = some " ngth(".toList := by decide

end Lex
end JP
