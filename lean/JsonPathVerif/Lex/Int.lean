import JsonPathVerif.PestGrammar
/-! Lexical layer prototype: the (atomic) `int` rule of the grammar consumes exactly an RFC 9535 `int`
lexeme: "0" / (["-"] DIGIT1 *DIGIT), greedy on digits. -/
namespace JP
namespace Lex
open JP.Pest

def isDigit (c : Char) : Bool := decide ('0' ≤ c ∧ c ≤ '9')
def isDigit1 (c : Char) : Bool := decide ('1' ≤ c ∧ c ≤ '9')

/-- RFC `int`, as a greedy lexer on the remaining input: returns the remaining input after the lexeme -/
def rfcInt : Rest → Option Rest
  | '0' :: r => some r
  | '-' :: d :: r => if isDigit1 d then some (r.dropWhile isDigit) else none
  | d :: r => if isDigit1 d then some (r.dropWhile isDigit) else none
  | [] => none

def atomicCtx (c : Ctx) : Ctx := { c with atom := .atomic }

theorem skip_atomic (c : Ctx) (h : c.atom = .atomic) (pos : Nat) (r : Rest) : skip c pos r = (pos, r) := by
  simp [skip, h]

theorem DIGIT_spec (c : Ctx) (pos : Nat) (r : Rest) :
    (DIGIT_ c pos r : Option (St RuleId)) = match r with
      | x :: r' => if isDigit x then some ⟨pos + 1, r', []⟩ else none
      | [] => none := by
  unfold DIGIT_ psilent prange isDigit
  cases r <;> simp

theorem DIGIT1_spec (c : Ctx) (pos : Nat) (r : Rest) :
    (DIGIT1_ c pos r : Option (St RuleId)) = match r with
      | x :: r' => if isDigit1 x then some ⟨pos + 1, r', []⟩ else none
      | [] => none := by
  unfold DIGIT1_ psilent prange isDigit1
  cases r <;> simp

/-- repetition of DIGIT in atomic context eats exactly the leading digits -/
theorem prepGo_digits (c : Ctx) (hc : c.atom = .atomic) : ∀ (n : Nat) (s : St RuleId), s.rest.length < n → s.out = [] →
    (prepGo DIGIT_ c n s).rest = s.rest.dropWhile isDigit ∧
    (prepGo DIGIT_ c n s).pos = s.pos + (s.rest.takeWhile isDigit).length ∧ (prepGo DIGIT_ c n s).out = []
  | 0, s, h, _ => by simp at h
  | n+1, s, h, ho => by
    unfold prepGo
    simp only [skip_atomic c hc, DIGIT_spec]
    cases hr : s.rest with
    | nil => simp [hr, ho]
    | cons x r' =>
      by_cases hx : isDigit x = true
      · have ih := prepGo_digits c hc n ⟨s.pos + 1, r', s.out ++ []⟩ (by simp [hr] at h; simpa using h) (by simp [ho])
        simp only [hr] at ih ⊢
        have hlt : r'.length < r'.length + 1 := Nat.lt_succ_self _
        simp only [hx, if_true, List.dropWhile_cons, List.takeWhile_cons, List.length_cons, hlt]
        refine ⟨ih.1, ?_, ih.2.2⟩
        rw [ih.2.1]; omega
      · have hx' : isDigit x = false := by simpa using hx
        simp [hx', hr, ho]

theorem prep_digits (c : Ctx) (hc : c.atom = .atomic) (pos : Nat) (r : Rest) :
    ∃ s, prep DIGIT_ c pos r = some s ∧ s.rest = r.dropWhile isDigit ∧ s.pos = pos + (r.takeWhile isDigit).length ∧ s.out = [] := by
  unfold prep
  rw [DIGIT_spec]
  cases r with
  | nil => exact ⟨_, rfl, rfl, rfl, rfl⟩
  | cons x r' =>
    by_cases hx : isDigit x = true
    · simp only [hx, if_true]
      obtain ⟨h1, h2, h3⟩ := prepGo_digits c hc ((x :: r').length + 1) ⟨pos + 1, r', []⟩ (by simp; omega) rfl
      refine ⟨_, rfl, ?_, ?_, h3⟩
      · simpa [List.dropWhile_cons, hx] using h1
      · simp only [List.takeWhile_cons, hx, if_true, List.length_cons] at h2 ⊢
        omega
    · have hx' : isDigit x = false := by simpa using hx
      simp only [hx', Bool.false_eq_true, if_false]
      exact ⟨_, rfl, by simp [List.dropWhile_cons, List.takeWhile_cons, hx']⟩

/-- the `int` rule accepts exactly an RFC `int` lexeme and stops right after it -/
theorem int_spec (c : Ctx) (pos : Nat) (r : Rest) :
    (int_ c pos r).map (·.rest) = rfcInt r := by
  unfold int_ prule
  simp only
  have hc : ({ c with atom := Atomicity.atomic } : Ctx).atom = .atomic := rfl
  generalize ({ c with atom := Atomicity.atomic } : Ctx) = ca at hc
  unfold pchoice pstr
  cases r with
  | nil => simp [matchStr, pseq, popt, pstr, DIGIT1_spec, rfcInt, skip_atomic ca hc]
  | cons x r' =>
    by_cases h0 : x = '0'
    · subst h0; simp [matchStr, rfcInt]
    · have hm : matchStr ['0'] (x :: r') = none := by simp [matchStr, h0]
      simp only [hm, Option.map_none]
      by_cases hneg : x = '-'
      · subst hneg
        simp only [pseq, popt, pstr, matchStr, if_true, Option.map_some, skip_atomic ca hc, DIGIT1_spec]
        cases r' with
        | nil => simp [rfcInt]; decide
        | cons d r'' =>
          by_cases hd : isDigit1 d = true
          · obtain ⟨s, hs, hs1, _, _⟩ := prep_digits ca hc (pos + 1 + 1) r''
            have hd0 : d ≠ '0' := by intro e; subst e; revert hd; decide
            simp [hd, hs, hs1, rfcInt, skip_atomic ca hc]
          · have hd' : isDigit1 d = false := by simpa using hd
            simp [hd', rfcInt]
      · have hm2 : matchStr ['-'] (x :: r') = none := by simp [matchStr, hneg]
        simp only [pseq, popt, pstr, hm2, Option.map_none, skip_atomic ca hc, DIGIT1_spec]
        by_cases hd : isDigit1 x = true
        · obtain ⟨s, hs, hs1, _, _⟩ := prep_digits ca hc (pos + 1) r'
          simp [hd, hs, hs1, rfcInt, h0, hneg, skip_atomic ca hc]
        · have hd' : isDigit1 x = false := by simpa using hd
          simp [hd', rfcInt, h0, hneg]

end Lex
end JP
