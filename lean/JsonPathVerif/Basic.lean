def hello := "world"
