import JsonPathVerif.C11
/-! C08 (ii): the integer arithmetic of `process_index` / `process_slice` (src/query/selector.rs) with Rust's overflow checks
made explicit.  Every `i64` operation is a function into `Option` (`none` = the panic "attempt to … with overflow" of a build
with overflow checks; in a release build the value would wrap).  Theorems: for all indices/bounds/steps in the I-JSON range the
parser admits, and every array length below 2^62, no checked operation fails and the checked functions compute exactly the
unchecked model used everywhere else. -/
namespace JP
namespace Checked

/-- `i64::MIN` = -2^63 -/
def I64_MIN : Int := -9223372036854775808
/-- is `x` representable as `i64` (between -2^63 and 2^63-1)? -/
def inI64 (x : Int) : Bool := decide (-9223372036854775808 ≤ x ∧ x ≤ 9223372036854775807)
theorem inI64_of {x : Int} (h1 : -9223372036854775808 ≤ x) (h2 : x ≤ 9223372036854775807) : inI64 x = true := by
  simp [inI64, h1, h2]
/-- the integers the parser lets through (`validate_range`): |x| ≤ 2^53 - 1 -/
def inJ (x : Int) : Prop := -9007199254740991 ≤ x ∧ x ≤ 9007199254740991
def inJO : Option Int → Prop | none => True | some x => inJ x

def cAdd (a b : Int) : Option Int := if inI64 (a + b) then some (a + b) else none
def cSub (a b : Int) : Option Int := if inI64 (a - b) then some (a - b) else none
def cNeg (a : Int) : Option Int := if inI64 (-a) then some (-a) else none
/-- `i64::abs`: overflows exactly at `i64::MIN` -/
def cAbs (a : Int) : Option Int := if a < 0 then cNeg a else some a

/-- `process_index` on an array of length `len`: the position selected, `none` inside = nothing selected; outer `none` = panic -/
def cIndex (idx : Int) (len : Int) : Option (Option Int) :=
  if idx ≥ 0 then (if idx ≥ len then some none else some (some idx))
  else
    match cAbs idx with
    | none => none
    | some a => if a > len then some none else (cSub len a).map some

def cNorm (len i : Int) : Option Int := if i ≥ 0 then some i else cAdd len i

def cLoopPos (e upper idx : Int) (he : 0 < e) : Option (List Int) :=
  if idx < upper then
    (if inI64 (idx + e) then (cLoopPos e upper (idx + e) he).map (idx :: ·) else none)   -- `idx += e`
  else some []
termination_by (upper - idx).toNat
decreasing_by omega

def cLoopNeg (e lower idx : Int) (he : e < 0) : Option (List Int) :=
  if lower < idx then
    (if inI64 (idx + e) then (cLoopNeg e lower (idx + e) he).map (idx :: ·) else none)
  else some []
termination_by (idx - lower).toNat
decreasing_by omega

/-- `process_slice`'s `extract_elems`, every arithmetic step checked -/
def cSlice (a b c : Option Int) (len : Int) : Option (List Int) :=
  let e := c.getD 1
  if h : e > 0 then
    (cNorm len (a.getD 0)).bind fun ns =>
    (cNorm len (b.getD len)).bind fun ne =>
    cLoopPos e (min (max ne 0) len) (min (max ns 0) len) h
  else if h : e < 0 then
    (cSub len 1).bind fun lm1 =>
    (cNeg len).bind fun nl => (cSub nl 1).bind fun nlm1 =>
    (cNorm len (a.getD lm1)).bind fun ns =>
    (cNorm len (b.getD nlm1)).bind fun ne =>
    cLoopNeg e (min (max ne (-1)) lm1) (min (max ns (-1)) lm1) h
  else some []

theorem cLoopPos_ok (e upper idx : Int) (he : 0 < e) (hej : e ≤ 9007199254740991) (hu : upper ≤ 4611686018427387904) (hi : -1 ≤ idx) :
    cLoopPos e upper idx he = some (loopPos e upper idx he) := by
  fun_induction loopPos e upper idx he with
  | case1 idx h ih =>
    unfold cLoopPos
    have : inI64 (idx + e) = true := inI64_of (by omega) (by omega)
    simp [h, this, ih (by omega)]
  | case2 idx h => unfold cLoopPos; simp [h]

theorem cLoopNeg_ok (e lower idx : Int) (he : e < 0) (hej : -9007199254740991 ≤ e) (hl : -1 ≤ lower) (hi : idx ≤ 4611686018427387904) :
    cLoopNeg e lower idx he = some (loopNeg e lower idx he) := by
  fun_induction loopNeg e lower idx he with
  | case1 idx h ih =>
    unfold cLoopNeg
    have : inI64 (idx + e) = true := inI64_of (by omega) (by omega)
    simp [h, this, ih (by omega)]
  | case2 idx h => unfold cLoopNeg; simp [h]

/-- no overflow in the slice arithmetic, and the checked function is the unchecked model -/
theorem cSlice_ok (a b c : Option Int) (len : Int) (ha : inJO a) (hb : inJO b) (hc : inJO c)
    (h0 : 0 ≤ len) (hlen : len ≤ 4611686018427387904) : cSlice a b c len = some (sliceIndices a b c len) := by
  unfold cSlice sliceIndices
  simp only
  have hcj : inJ (c.getD 1) := by
    cases c with
    | none => simp [inJ]
    | some x => simpa [inJO] using hc
  have norm_ok : ∀ i, (inJ i ∨ i = len ∨ i = len - 1 ∨ i = -len - 1) → cNorm len i = some (normI len i) := by
    intro i hi
    unfold cNorm normI cAdd
    split
    · rfl
    · have : inI64 (len + i) = true := by
        rcases hi with hi | hi | hi | hi
        · unfold inJ at hi; exact inI64_of (by omega) (by omega)
        · exact inI64_of (by omega) (by omega)
        · exact inI64_of (by omega) (by omega)
        · exact inI64_of (by omega) (by omega)
      simp [this]
  have hja : ∀ d, inJ d → inJ (a.getD d) := by
    intro d hd; cases a with
    | none => simpa using hd
    | some x => simpa [inJO] using ha
  have hjb : ∀ d, inJ d → inJ (b.getD d) := by
    intro d hd; cases b with
    | none => simpa using hd
    | some x => simpa [inJO] using hb
  unfold inJ at hcj
  split
  · rename_i he
    have h1 := norm_ok (a.getD 0) (Or.inl (hja 0 (by simp [inJ])))
    have h2 := norm_ok (b.getD len) (by
      cases b with
      | none => exact Or.inr (Or.inl rfl)
      | some x => exact Or.inl (by simpa [inJO] using hb))
    simp only [h1, h2, Option.bind_some]
    exact cLoopPos_ok _ _ _ he hcj.2 (by omega) (by omega)
  · split
    · rename_i he
      have s1 : cSub len 1 = some (len - 1) := by simp [cSub, inI64_of (x := len - 1) (by omega) (by omega)]
      have s2 : cNeg len = some (-len) := by simp [cNeg, inI64_of (x := -len) (by omega) (by omega)]
      have s3 : cSub (-len) 1 = some (-len - 1) := by simp [cSub, inI64_of (x := -len - 1) (by omega) (by omega)]
      have h1 := norm_ok (a.getD (len - 1)) (by
        cases a with
        | none => exact Or.inr (Or.inr (Or.inl rfl))
        | some x => exact Or.inl (by simpa [inJO] using ha))
      have h2 := norm_ok (b.getD (-len - 1)) (by
        cases b with
        | none => exact Or.inr (Or.inr (Or.inr rfl))
        | some x => exact Or.inl (by simpa [inJO] using hb))
      simp only [s1, s2, s3, h1, h2, Option.bind_some]
      exact cLoopNeg_ok _ _ _ he hcj.1 (by omega) (by omega)
    · rfl

/-- no overflow in `process_index`: `idx.abs()` cannot overflow for an index the parser admits -/
theorem cIndex_ok (idx : Int) (len : Nat) (hi : inJ idx) (hlen : (len : Int) ≤ 4611686018427387904) :
    cIndex idx len = some ((implIndex idx len).map fun (n : Nat) => (n : Int)) := by
  unfold cIndex implIndex
  unfold inJ at hi
  by_cases h : idx ≥ 0
  · simp only [h, if_true]
    by_cases h2 : idx ≥ (len : Int)
    · simp [h2]
    · simp [h2]; omega
  · simp only [h, if_false]
    have hab : cAbs idx = some (-idx) := by
      have : idx < 0 := by omega
      simp [cAbs, this, cNeg, inI64_of (x := -idx) (by omega) (by omega)]
    simp only [hab]
    by_cases h2 : idx.natAbs > len
    · have : -idx > (len : Int) := by omega
      simp [h2, this]
    · have : ¬ (-idx > (len : Int)) := by omega
      simp only [this, if_false, h2, if_false, Option.map_some]
      have hin : inI64 ((len : Int) - -idx) = true := inI64_of (by omega) (by omega)
      simp only [cSub, hin, if_true, Option.map_some, Option.some.injEq]
      omega

/-- …and it DOES overflow at `i64::MIN`, which is why the singular-query index had to be range-checked (defect D10) -/
theorem cIndex_min_panics (len : Int) : cIndex I64_MIN len = none := by
  simp [cIndex, cAbs, cNeg, inI64, I64_MIN]

end Checked
end JP
