import JsonPathVerif.Abnf
import JsonPathVerif.Spec
namespace JP
namespace Rfc

structure Facts where
  fnNames : List Str := []
  selInts : List Int := []
  litInts : List Int := []
  litFloats : List (Int × Nat) := []

def Facts.app (a b : Facts) : Facts := ⟨a.fnNames ++ b.fnNames, a.selInts ++ b.selInts, a.litInts ++ b.litInts, a.litFloats ++ b.litFloats⟩
instance : Append Facts := ⟨Facts.app⟩

def litFacts : Literal → Facts
  | .int i => { litInts := [i] }
  | .float n d => { litFloats := [(n, d)] }
  | _ => {}
def oiL : Option Int → List Int | some i => [i] | none => []

mutual
def fSeg : Segment → Facts
  | .descendant s => fSeg s
  | .selector s => fSel s
  | .selectors ss => fSels ss
def fSels : List Selector → Facts
  | [] => {}
  | s :: ss => fSel s ++ fSels ss
def fSel : Selector → Facts
  | .index i => { selInts := [i] }
  | .slice a b c => { selInts := oiL a ++ oiL b ++ oiL c }
  | .filter f => fFlt f
  | _ => {}
def fSegs : List Segment → Facts
  | [] => {}
  | s :: ss => fSeg s ++ fSegs ss
def fFlt : Filter → Facts
  | .or fs => fFlts fs
  | .and fs => fFlts fs
  | .atom a => fAtom a
def fFlts : List Filter → Facts
  | [] => {}
  | f :: fs => fFlt f ++ fFlts fs
def fAtom : FilterAtom → Facts
  | .filter e _ => fFlt e
  | .test t _ => fTest t
  | .cmp _ l r => fCmp l ++ fCmp r
def fCmp : Comparable → Facts
  | .lit l => litFacts l
  | .sq _ segs => { selInts := segs.filterMap fun s => match s with | .index i => some i | _ => none }
  | .fn f => fFn f
def fTest : Test → Facts
  | .rel ss => fSegs ss
  | .abs ss => fSegs ss
  | .fn f => fFn f
def fFn : TestFunction → Facts
  | .custom n args => { fnNames := [n] } ++ fArgs args
  | .length a => fArg a
  | .count a => fArg a
  | .value a => fArg a
  | .match a b => fArg a ++ fArg b
  | .search a b => fArg a ++ fArg b
def fArgs : List FnArg → Facts
  | [] => {}
  | a :: as => fArg a ++ fArgs as
def fArg : FnArg → Facts
  | .lit l => litFacts l
  | .test t => fTest t
  | .filter f => fFlt f
end

def inRange (i : Int) : Bool := -9007199254740991 ≤ i && i ≤ 9007199254740991

inductive Verdict where | valid | invalid | custom | unjudged
  deriving Repr, DecidableEq

def verdictOf (q : List Segment) : Verdict :=
  let f := fSegs q
  if f.fnNames.any (fun n => n.head? == some '!') then .invalid
  else if !f.selInts.all inRange then .invalid
  else if !Spec.wtSegs q then .invalid
  else if !f.fnNames.isEmpty then .custom
  else if !f.litInts.all inRange then .unjudged
  else if !f.litFloats.all (fun nd => f64Finite nd.1 nd.2) then .unjudged
  else .valid

def rank : Verdict → Nat | .valid => 3 | .custom => 2 | .unjudged => 1 | .invalid => 0

/-- best verdict over all syntactic parses; no parse → invalid -/
def verdict (s : Str) : Verdict :=
  (Abnf.parseAll s).foldl (fun acc q => let v := verdictOf q; if rank v > rank acc then v else acc) .invalid

end Rfc
end JP
