import JsonPathVerif.Selectors
namespace JP

def Json.isScalar : Json → Bool
  | .arr _ => false | .obj _ => false | _ => true

mutual
theorem eqJson_spec : ∀ (a b : Json), eqJson a b = Spec.jsonEq a b
  | .null, b => by cases b <;> simp [eqJson, Spec.jsonEq]
  | .bool x, b => by cases b <;> simp [eqJson, Spec.jsonEq]
  | .num x, b => by
      cases b <;> simp [eqJson, Spec.jsonEq, Num.exactEq, Spec.numEq, Spec.numVal]
      rename_i y; cases x <;> cases y <;> simp
  | .str x, b => by cases b <;> simp [eqJson, Spec.jsonEq]
  | .arr xs, b => by
      cases b <;> simp [eqJson, Spec.jsonEq]
      exact eqJsonL_spec xs _
  | .obj xs, b => by
      cases b <;> simp [eqJson, Spec.jsonEq]
      rw [eqJsonSub_spec]
theorem eqJsonL_spec : ∀ (xs ys : List Json), eqJsonL xs ys = Spec.jsonEqL xs ys
  | [], ys => by cases ys <;> simp [eqJsonL, Spec.jsonEqL]
  | x :: xs, ys => by
      cases ys with
      | nil => simp [eqJsonL, Spec.jsonEqL]
      | cons y ys => simp [eqJsonL, Spec.jsonEqL, eqJson_spec x y, eqJsonL_spec xs ys]
theorem eqJsonSub_spec : ∀ (xs ys : List (Str × Json)), eqJsonSub xs ys = Spec.jsonSubM xs ys
  | [], ys => by simp [eqJsonSub, Spec.jsonSubM]
  | (k, x) :: xs, ys => by simp [eqJsonSub, Spec.jsonSubM, eqJsonFind_spec k x ys, eqJsonSub_spec xs ys]
theorem eqJsonFind_spec : ∀ (k : Str) (x : Json) (ys : List (Str × Json)), eqJsonFind k x ys = Spec.jsonFind k x ys
  | k, x, [] => by simp [eqJsonFind, Spec.jsonFind]
  | k, x, (k', y) :: ys => by simp [eqJsonFind, Spec.jsonFind, eqJson_spec x y, eqJsonFind_spec k x ys]
end

theorem jsonEq_scalar_symm (v x : Json) (hv : v.isScalar = true) : Spec.jsonEq v x = Spec.jsonEq x v := by
  cases v <;> cases x <;> simp_all [Spec.jsonEq, Json.isScalar, Spec.numEq, Bool.beq_comm, eq_comm]
  all_goals (try (rename_i a b; cases a <;> cases b <;> simp [Spec.numVal, Bool.beq_comm, eq_comm]))

/-- the value a comparable denotes, if its state is a value, a single node, or nothing -/
def dataVal : Data → Option Json
  | .ref p => some p.inner
  | .value v => some v
  | _ => none

/-- states a comparable can evaluate to: no `refs`, and owned values are scalars -/
def Data.cmpShape : Data → Prop
  | .refs _ => False
  | .value v => v.isScalar = true
  | _ => True

theorem ltJson_spec (a b : Json) : ltJson a b = Spec.ltOpt (some a) (some b) := by
  cases a <;> cases b <;> simp [ltJson, Spec.ltOpt, Num.lt, Spec.numLt, Spec.numVal]
  rename_i x y; cases x <;> cases y <;> simp <;> first | rfl | exact decide_eq_decide.mpr Iff.rfl

theorem eqData_spec (l r : Data) (hl : l.cmpShape) (hr : r.cmpShape) :
    eqData l r = Spec.eqOpt (dataVal l) (dataVal r) := by
  cases l <;> cases r <;> simp_all [eqData, dataVal, Data.cmpShape, eqJson_spec, Spec.eqOpt]
  all_goals (apply jsonEq_scalar_symm; assumption)

theorem ltData_spec (l r : Data) (hl : l.cmpShape) (hr : r.cmpShape) :
    ltData l r = Spec.ltOpt (dataVal l) (dataVal r) := by
  cases l <;> cases r <;> simp_all [ltData, dataVal, Data.cmpShape, ltJson_spec, Spec.ltOpt]

theorem cmpData_spec (op : CmpOp) (l r : Data) (hl : l.cmpShape) (hr : r.cmpShape) :
    cmpData op l r = Spec.cmp op (dataVal l) (dataVal r) := by
  unfold cmpData Spec.cmp
  cases op <;> simp [eqData_spec l r hl hr, ltData_spec l r hl hr, ltData_spec r l hr hl]

#print axioms cmpData_spec
end JP
