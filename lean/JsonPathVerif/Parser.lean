import JsonPathVerif.PestGrammar
import JsonPathVerif.Ast
/-! Model of src/parser.rs + model.rs `try_new`s: Pair tree → AST, with the post-checks. -/
namespace JP
open JP.Pest

abbrev R := Except Unit
def err {α} : R α := .error ()

/-- Rust `char::is_whitespace` / `str::trim` : Unicode White_Space -/
def isUWs (c : Char) : Bool :=
  let n := c.toNat
  (0x9 ≤ n && n ≤ 0xD) || n == 0x20 || n == 0x85 || n == 0xA0 || n == 0x1680 ||
  (0x2000 ≤ n && n ≤ 0x200A) || n == 0x2028 || n == 0x2029 || n == 0x202F || n == 0x205F || n == 0x3000

def trimStart (s : Str) : Str := s.dropWhile isUWs
def trimEnd (s : Str) : Str := (s.reverse.dropWhile isUWs).reverse
def trim (s : Str) : Str := trimEnd (trimStart s)

abbrev Inp := Array Char
abbrev PairT := Pair RuleId
def Pair.rule : PairT → RuleId | .mk r _ _ _ => r
def Pair.s : PairT → Nat | .mk _ s _ _ => s
def Pair.e : PairT → Nat | .mk _ _ e _ => e
def Pair.inner : PairT → List PairT | .mk _ _ _ i => i
def Pair.str (inp : Inp) (p : PairT) : Str := (inp.extract p.s p.e).toList

/-- RFC 9535 blank space (the repaired parser trims only these) -/
def isBlank (c : Char) : Bool := c == ' ' || c == '\t' || c == '\n' || c == '\r'
def trimBlank (s : Str) : Str := ((s.dropWhile isBlank).reverse.dropWhile isBlank).reverse

def isDigit (c : Char) : Bool := '0' ≤ c && c ≤ '9'
def digitsVal (ds : Str) : Nat := ds.foldl (fun acc c => acc * 10 + (c.toNat - '0'.toNat)) 0

/-- Rust `str::parse::<i64>` -/
def parseI64 (s : Str) : Option Int :=
  let (neg, ds) := match s with
    | '-' :: ds => (true, ds)
    | '+' :: ds => (false, ds)
    | ds => (false, ds)
  if ds.isEmpty || !ds.all isDigit then none
  else
    let v : Int := digitsVal ds
    let v := if neg then -v else v
    if v < -9223372036854775808 || v > 9223372036854775807 then none else some v

def MAXV : Int := 9007199254740991
def validateRange (v : Int) : R Int := if v > MAXV || v < -MAXV then err else pure v

/-- Rust `str::parse::<f64>` restricted to the shapes the grammar lets through: returns the exact
decimal value as num/den; anything else (interior blanks) is an error. -/
def parseF64 (s : Str) : Option (Int × Nat) :=
  let (neg, r) := match s with
    | '-' :: r => (true, r)
    | '+' :: r => (false, r)
    | r => (false, r)
  let ip := r.takeWhile isDigit
  let r := r.dropWhile isDigit
  let (fp, r, hasDot) := match r with
    | '.' :: r' => (r'.takeWhile isDigit, r'.dropWhile isDigit, true)
    | _ => ([], r, false)
  if ip.isEmpty && fp.isEmpty then none else
  let mant : Nat := digitsVal (ip ++ fp)
  let scale : Int := - (fp.length : Int)
  let fin (e : Int) : Option (Int × Nat) :=
    let ex := scale + e
    let (n, d) : Nat × Nat :=
      if mant == 0 then (0, 1)
      else if ex > 5000 then (1, 0)          -- beyond f64: infinity marker (denominator 0), outside the number model
      else if ex < -5000 then (0, 1)
      else if ex ≥ 0 then (mant * 10 ^ ex.toNat, 1) else (mant, 10 ^ (-ex).toNat)
    some (if neg then -(n : Int) else n, d)
  match r with
  | [] => let _ := hasDot; fin 0
  | c :: r' =>
    if c == 'e' || c == 'E' then
      let (eneg, ds) := match r' with
        | '-' :: ds => (true, ds)
        | '+' :: ds => (false, ds)
        | ds => (false, ds)
      if ds.isEmpty || !ds.all isDigit then none
      else fin (if eneg then -(digitsVal ds : Int) else digitsVal ds)
    else none

def validateJsStr (s : Str) : R Str := if s.any (fun c => c.toNat ≤ 0x1F) then err else pure s

def firstInner : PairT → R PairT
  | .mk _ _ _ (c :: _) => pure c
  | _ => err

def parseNumber (num : Str) : R Literal :=
  let num := trim num
  if num.any (fun c => c == '.' || c == 'e' || c == 'E') then
    match parseF64 num with
    | some (n, d) => if f64Finite n d then pure (.float n d) else err     -- `!float.is_finite()`: number out of bounds
    | none => err
  else match parseI64 (trim num) with
    | some v => if v > MAXV || v < -MAXV then err else pure (.int v)
    | none => err

def parseString (s : Str) : R Literal := do
  let s ← validateJsStr (trim s)
  if s.head? == some '\'' && s.getLast? == some '\'' then pure (.str ((s.drop 1).dropLast))
  else if s.head? == some '"' && s.getLast? == some '"' then pure (.str ((s.drop 1).dropLast))
  else err

def literalB (inp : Inp) (rule : PairT) : R Literal := do
  let first ← firstInner rule
  match first.rule with
  | .r_string => parseString (first.str inp)
  | .r_number => parseNumber (first.str inp)
  | .r_bool =>
      if first.str inp == "true".toList then pure (.bool true)
      else if first.str inp == "false".toList then pure (.bool false) else err
  | .r_null => pure .null
  | _ => err

def getInt (inp : Inp) (r : PairT) : R Int :=
  match parseI64 (trim (r.str inp)) with | some v => pure v | none => err
/-- singular-query index: the repaired code trims blank space only -/
def getIntB (inp : Inp) (r : PairT) : R Int :=
  match parseI64 (trimBlank (r.str inp)) with | some v => pure v | none => err

def sliceB (inp : Inp) (rule : PairT) : R (Option Int × Option Int × Option Int) :=
  rule.inner.foldlM (init := (none, none, none)) fun (a, b, c) r =>
    match r.rule with
    | .r_start => do let v ← getInt inp r; let v ← validateRange v; pure (some v, b, c)
    | .r_end => do let v ← getInt inp r; let v ← validateRange v; pure (a, some v, c)
    | .r_step => match r.inner with
        | i :: _ => do let v ← getInt inp i; let v ← validateRange v; pure (a, b, some v)
        | [] => pure (a, b, none)
    | _ => err

/-- `iter().map(f).collect::<Result<Vec<_>,_>>()` / a `for` loop with `?`: stops at the first error -/
def mapR {α β} (f : α → R β) : List α → R (List β)
  | [] => .ok []
  | x :: xs => match f x with
    | .ok y => (match mapR f xs with | .ok ys => .ok (y :: ys) | .error e => .error e)
    | .error e => .error e

def sqSegB (inp : Inp) (r : PairT) : R SQSeg :=
    match r.rule with
    | .r_name_segment =>
        let bad := match r.str inp with | '.' :: c :: _ => isBlank c | _ => false
        if bad then err else do let c ← firstInner r; pure (.name (trimBlank (c.str inp)))
    | .r_index_segment => do let c ← firstInner r; let v ← getIntB inp c; let v ← validateRange v; pure (.index v)
    | _ => err
def sqSegsB (inp : Inp) (rule : PairT) : R (List SQSeg) := mapR (sqSegB inp) rule.inner

def singularB (inp : Inp) (rule : PairT) : R Comparable := do
  let q ← firstInner rule
  let segs ← sqSegsB inp (← firstInner q)
  match q.rule with
  | .r_rel_singular_query => pure (.sq false segs)
  | .r_abs_singular_query => pure (.sq true segs)
  | _ => err

def cmpOpOf (s : Str) : R CmpOp :=
  if s == "==".toList then pure .eq else if s == "!=".toList then pure .ne
  else if s == ">".toList then pure .gt else if s == ">=".toList then pure .ge
  else if s == "<".toList then pure .lt else if s == "<=".toList then pure .le else err

def FnArg.isLit : FnArg → Bool | .lit _ => true | _ => false
def FnArg.isFilter : FnArg → Bool | .filter _ => true | _ => false

def isSingularSegs : List Segment → Bool
  | [] => true
  | .selector (.name _) :: r => isSingularSegs r
  | .selector (.index _) :: r => isSingularSegs r
  | _ => false

def TestFunction.isComparable : TestFunction → Bool
  | .length _ | .value _ | .count _ => true
  | _ => false

/-- `FnArg::is_value_type` -/
def FnArg.isValueType : FnArg → Bool
  | .lit _ => true
  | .test (.rel ss) => isSingularSegs ss
  | .test (.abs ss) => isSingularSegs ss
  | .test (.fn f) => f.isComparable
  | .filter _ => false

/-- `FnArg::is_nodes_type` -/
def FnArg.isNodesType : FnArg → Bool
  | .test (.rel _) => true
  | .test (.abs _) => true
  | _ => false

def tryNewFn (name : Str) (args : List FnArg) : R TestFunction :=
  let std := ["length".toList, "value".toList, "count".toList, "match".toList, "search".toList]
  if name == "length".toList then match args with
    | [a] => if a.isValueType then pure (.length a) else err
    | _ => err
  else if name == "value".toList then match args with
    | [a] => if a.isNodesType then pure (.value a) else err
    | _ => err
  else if name == "count".toList then match args with
    | [a] => if a.isLit || a.isFilter then err else if a.isNodesType then pure (.count a) else err
    | _ => err
  else if name == "search".toList then match args with
    | [a, b] => if a.isValueType && b.isValueType then pure (.search a b) else err
    | _ => err
  else if name == "match".toList then match args with
    | [a, b] => if a.isValueType && b.isValueType then pure (.match a b) else err
    | _ => err
  else if std.contains name then err
  else pure (.custom name args)

def isRule (id : RuleId) (p : PairT) : Bool := decide (p.rule = id)

/-! The builder over the pair tree (`parser.rs`).  Recursion follows the nesting of the pair tree; it is written with fuel so that
it is a total, kernel-reducible function about which theorems can be stated for EVERY pair tree (`Theorems/C07.lean`). -/
mutual
def segmentsB : Nat → Inp → PairT → R (List Segment)
  | 0, _, _ => err
  | fuel+1, inp, rule => mapR (fun r => match firstInner r with | .ok c => segmentB fuel inp c | .error e => .error e) rule.inner

def childSegmentB : Nat → Inp → PairT → R Segment
  | 0, _, _ => err
  | fuel+1, inp, rule =>
    match rule.rule with
    | .r_wildcard_selector => pure (.selector .wildcard)
    | .r_member_name_shorthand => pure (.selector (.name (trimBlank (rule.str inp))))
    | .r_bracketed_selection =>
        match mapR (selectorB fuel inp) rule.inner with
        | .ok [s] => pure (.selector s)
        | .ok ss => pure (.selectors ss)
        | .error e => .error e
    | _ => err

def segmentB : Nat → Inp → PairT → R Segment
  | 0, _, _ => err
  | fuel+1, inp, child =>
    match child.rule with
    | .r_child_segment =>
        let s := child.str inp
        let val := match s with | '.' :: r => r | _ => []
        if (match val with | c :: _ => isBlank c | [] => false) then err else
          match firstInner child with | .ok c => childSegmentB fuel inp c | .error e => .error e
    | .r_descendant_segment =>
        match (child.str inp)[2]? with
        | none => err
        | some c => if isBlank c then err else
            match firstInner child with
            | .ok c' => (match childSegmentB fuel inp c' with | .ok sg => pure (.descendant sg) | .error e => .error e)
            | .error e => .error e
    | _ => err

def selectorB : Nat → Inp → PairT → R Selector
  | 0, _, _ => err
  | fuel+1, inp, rule =>
    match firstInner rule with
    | .error e => .error e
    | .ok child =>
      match child.rule with
      | .r_name_selector => (match validateJsStr (trim (child.str inp)) with | .ok s => pure (.name s) | .error e => .error e)
      | .r_wildcard_selector => pure .wildcard
      | .r_index_selector => (match getInt inp child with
          | .ok v => (match validateRange v with | .ok v => pure (.index v) | .error e => .error e)
          | .error e => .error e)
      | .r_slice_selector => (match sliceB inp child with | .ok (a, b, c) => pure (.slice a b c) | .error e => .error e)
      | .r_filter_selector => (match firstInner child with
          | .ok le => (match logicalExprB fuel inp le with | .ok f => pure (.filter f) | .error e => .error e)
          | .error e => .error e)
      | _ => err

def fnArgB : Nat → Inp → PairT → R FnArg
  | 0, _, _ => err
  | fuel+1, inp, arg =>
    match firstInner arg with
    | .error e => .error e
    | .ok next =>
      match next.rule with
      | .r_literal => (match literalB inp next with | .ok l => pure (.lit l) | .error e => .error e)
      | .r_test => (match testB fuel inp next with | .ok t => pure (.test t) | .error e => .error e)
      | .r_logical_expr => (match logicalExprB fuel inp next with | .ok f => pure (.filter f) | .error e => .error e)
      | _ => err

def functionExprB : Nat → Inp → PairT → R TestFunction
  | 0, _, _ => err
  | fuel+1, inp, rule =>
    let fnStr := rule.str inp
    match rule.inner with
    | [] => err
    | nameP :: elems =>
      let name := nameP.str inp
      let bad := match fnStr[name.length]? with | some c => c != '(' | none => false
      if bad then err else
        match mapR (fnArgB fuel inp) elems with
        | .ok args => tryNewFn name args
        | .error e => .error e

def testB : Nat → Inp → PairT → R Test
  | 0, _, _ => err
  | fuel+1, inp, rule =>
    match firstInner rule with
    | .error e => .error e
    | .ok child =>
      match child.rule with
      | .r_jp_query => (match firstInner child with
          | .ok c => (match segmentsB fuel inp c with | .ok ss => pure (.abs ss) | .error e => .error e)
          | .error e => .error e)
      | .r_rel_query => (match firstInner child with
          | .ok c => (match segmentsB fuel inp c with | .ok ss => pure (.rel ss) | .error e => .error e)
          | .error e => .error e)
      | .r_function_expr => (match functionExprB fuel inp child with | .ok f => pure (.fn f) | .error e => .error e)
      | _ => err

def logicalExprB : Nat → Inp → PairT → R Filter
  | 0, _, _ => err
  | fuel+1, inp, rule =>
    match mapR (logicalExprAndB fuel inp) rule.inner with
    | .ok [f] => pure f
    | .ok fs => pure (.or fs)
    | .error e => .error e

def logicalExprAndB : Nat → Inp → PairT → R Filter
  | 0, _, _ => err
  | fuel+1, inp, rule =>
    match mapR (fun r => match filterAtomB fuel inp r with | .ok a => .ok (Filter.atom a) | .error e => .error e) rule.inner with
    | .ok [f] => pure f
    | .ok fs => pure (.and fs)
    | .error e => .error e

def filterAtomB : Nat → Inp → PairT → R FilterAtom
  | 0, _, _ => err
  | fuel+1, inp, pair =>
    match firstInner pair with
    | .error e => .error e
    | .ok rule =>
      match rule.rule with
      | .r_paren_expr =>
          -- `for r in inner { not_op => not = true, logical_expr => expr = Some(parse?) }`
          let n := rule.inner.any (isRule .r_not_op)
          (match mapR (logicalExprB fuel inp) (rule.inner.filter (isRule .r_logical_expr)) with
           | .ok es => (match es.getLast? with | some e => pure (.filter e n) | none => err)
           | .error e => .error e)
      | .r_comp_expr =>
          (match rule.inner with
           | l :: o :: r :: _ =>
             (match comparableB fuel inp l with
              | .ok lhs => (match comparableB fuel inp r with
                | .ok rhs => (match cmpOpOf (o.str inp) with | .ok op => pure (.cmp op lhs rhs) | .error e => .error e)
                | .error e => .error e)
              | .error e => .error e)
           | _ => err)
      | .r_test_expr =>
          let n := rule.inner.any (isRule .r_not_op)
          (match mapR (testB fuel inp) (rule.inner.filter (isRule .r_test)) with
           | .ok ts => (match ts.getLast? with
              | some (.fn tf) => if tf.isComparable then err else pure (.test (.fn tf) n)
              | some e => pure (.test e n)
              | none => err)
           | .error e => .error e)
      | _ => err

def comparableB : Nat → Inp → PairT → R Comparable
  | 0, _, _ => err
  | fuel+1, inp, rule0 =>
    match firstInner rule0 with
    | .error e => .error e
    | .ok rule =>
      match rule.rule with
      | .r_literal => (match literalB inp rule with | .ok l => pure (.lit l) | .error e => .error e)
      | .r_singular_query => singularB inp rule
      | .r_function_expr =>
          (match functionExprB fuel inp rule with
           | .ok tf => if tf.isComparable then pure (.fn tf) else err
           | .error e => .error e)
      | _ => err
end

def parseJsonPath (s : Str) : R (List Segment) :=
  if s != trimBlank s then err else
  let inp : Inp := s.toArray
  let ctx : Ctx := { atom := .nonAtomic, ws := wsStep }
  match entry (64 * (s.length + 2)) ctx 0 s with
  | some st => match st.out with
    | m :: _ => do
      let jq ← firstInner m
      segmentsB (8 * (s.length + 2)) inp (← firstInner jq)
    | [] => err
  | none => err

end JP
