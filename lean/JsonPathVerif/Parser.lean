import JsonPathVerif.PestGrammar
import JsonPathVerif.Ast
/-! Model of src/parser.rs + model.rs `try_new`s: Pair tree → AST, with the post-checks. -/
namespace JP
open JP.Pest

abbrev R := Except Unit
def err {α} : R α := .error ()

/-- Rust `char::is_whitespace` / `str::trim` : Unicode White_Space -/
def isUWs (c : Char) : Bool :=
  let n := c.toNat
  (0x9 ≤ n && n ≤ 0xD) || n == 0x20 || n == 0x85 || n == 0xA0 || n == 0x1680 ||
  (0x2000 ≤ n && n ≤ 0x200A) || n == 0x2028 || n == 0x2029 || n == 0x202F || n == 0x205F || n == 0x3000

def trimStart (s : Str) : Str := s.dropWhile isUWs
def trimEnd (s : Str) : Str := (s.reverse.dropWhile isUWs).reverse
def trim (s : Str) : Str := trimEnd (trimStart s)

abbrev Inp := Array Char
abbrev PairT := Pair RuleId
def Pair.rule : PairT → RuleId | .mk r _ _ _ => r
def Pair.s : PairT → Nat | .mk _ s _ _ => s
def Pair.e : PairT → Nat | .mk _ _ e _ => e
def Pair.inner : PairT → List PairT | .mk _ _ _ i => i
def Pair.str (inp : Inp) (p : PairT) : Str := (inp.extract p.s p.e).toList

/-- RFC 9535 blank space (the repaired parser trims only these) -/
def isBlank (c : Char) : Bool := c == ' ' || c == '\t' || c == '\n' || c == '\r'
def trimBlank (s : Str) : Str := ((s.dropWhile isBlank).reverse.dropWhile isBlank).reverse

def isDigit (c : Char) : Bool := '0' ≤ c && c ≤ '9'
def digitsVal (ds : Str) : Nat := ds.foldl (fun acc c => acc * 10 + (c.toNat - '0'.toNat)) 0

/-- Rust `str::parse::<i64>` -/
def parseI64 (s : Str) : Option Int :=
  let (neg, ds) := match s with
    | '-' :: ds => (true, ds)
    | '+' :: ds => (false, ds)
    | ds => (false, ds)
  if ds.isEmpty || !ds.all isDigit then none
  else
    let v : Int := digitsVal ds
    let v := if neg then -v else v
    if v < -9223372036854775808 || v > 9223372036854775807 then none else some v

def MAXV : Int := 9007199254740991
def validateRange (v : Int) : R Int := if v > MAXV || v < -MAXV then err else pure v

/-- Rust `str::parse::<f64>` restricted to the shapes the grammar lets through: returns the exact
decimal value as num/den; anything else (interior blanks) is an error. -/
def parseF64 (s : Str) : Option (Int × Nat) :=
  let (neg, r) := match s with
    | '-' :: r => (true, r)
    | '+' :: r => (false, r)
    | r => (false, r)
  let ip := r.takeWhile isDigit
  let r := r.dropWhile isDigit
  let (fp, r, hasDot) := match r with
    | '.' :: r' => (r'.takeWhile isDigit, r'.dropWhile isDigit, true)
    | _ => ([], r, false)
  if ip.isEmpty && fp.isEmpty then none else
  let mant : Nat := digitsVal (ip ++ fp)
  let scale : Int := - (fp.length : Int)
  let fin (e : Int) : Option (Int × Nat) :=
    let ex := scale + e
    let (n, d) : Nat × Nat :=
      if mant == 0 then (0, 1)
      else if ex > 5000 then (1, 0)          -- beyond f64: infinity marker (denominator 0), outside the number model
      else if ex < -5000 then (0, 1)
      else if ex ≥ 0 then (mant * 10 ^ ex.toNat, 1) else (mant, 10 ^ (-ex).toNat)
    some (if neg then -(n : Int) else n, d)
  match r with
  | [] => let _ := hasDot; fin 0
  | c :: r' =>
    if c == 'e' || c == 'E' then
      let (eneg, ds) := match r' with
        | '-' :: ds => (true, ds)
        | '+' :: ds => (false, ds)
        | ds => (false, ds)
      if ds.isEmpty || !ds.all isDigit then none
      else fin (if eneg then -(digitsVal ds : Int) else digitsVal ds)
    else none

def validateJsStr (s : Str) : R Str := if s.any (fun c => c.toNat ≤ 0x1F) then err else pure s

def firstInner : PairT → R PairT
  | .mk _ _ _ (c :: _) => pure c
  | _ => err

def parseNumber (num : Str) : R Literal :=
  let num := trim num
  if num.any (fun c => c == '.' || c == 'e' || c == 'E') then
    match parseF64 num with
    | some (n, d) => pure (.float n d)
    | none => err
  else match parseI64 (trim num) with
    | some v => if v > MAXV || v < -MAXV then err else pure (.int v)
    | none => err

def parseString (s : Str) : R Literal := do
  let s ← validateJsStr (trim s)
  if s.head? == some '\'' && s.getLast? == some '\'' then pure (.str ((s.drop 1).dropLast))
  else if s.head? == some '"' && s.getLast? == some '"' then pure (.str ((s.drop 1).dropLast))
  else err

def literalB (inp : Inp) (rule : PairT) : R Literal := do
  let first ← firstInner rule
  match first.rule with
  | .r_string => parseString (first.str inp)
  | .r_number => parseNumber (first.str inp)
  | .r_bool =>
      if first.str inp == "true".toList then pure (.bool true)
      else if first.str inp == "false".toList then pure (.bool false) else err
  | .r_null => pure .null
  | _ => err

def getInt (inp : Inp) (r : PairT) : R Int :=
  match parseI64 (trim (r.str inp)) with | some v => pure v | none => err
/-- singular-query index: the repaired code trims blank space only -/
def getIntB (inp : Inp) (r : PairT) : R Int :=
  match parseI64 (trimBlank (r.str inp)) with | some v => pure v | none => err

def sliceB (inp : Inp) (rule : PairT) : R (Option Int × Option Int × Option Int) :=
  rule.inner.foldlM (init := (none, none, none)) fun (a, b, c) r =>
    match r.rule with
    | .r_start => do let v ← getInt inp r; let v ← validateRange v; pure (some v, b, c)
    | .r_end => do let v ← getInt inp r; let v ← validateRange v; pure (a, some v, c)
    | .r_step => match r.inner with
        | i :: _ => do let v ← getInt inp i; let v ← validateRange v; pure (a, b, some v)
        | [] => pure (a, b, none)
    | _ => err

def sqSegsB (inp : Inp) (rule : PairT) : R (List SQSeg) :=
  rule.inner.mapM fun r =>
    match r.rule with
    | .r_name_segment =>
        let bad := match r.str inp with | '.' :: c :: _ => isBlank c | _ => false
        if bad then err else do let c ← firstInner r; pure (.name (trimBlank (c.str inp)))
    | .r_index_segment => do let c ← firstInner r; let v ← getIntB inp c; let v ← validateRange v; pure (.index v)
    | _ => err

def singularB (inp : Inp) (rule : PairT) : R Comparable := do
  let q ← firstInner rule
  let segs ← sqSegsB inp (← firstInner q)
  match q.rule with
  | .r_rel_singular_query => pure (.sq false segs)
  | .r_abs_singular_query => pure (.sq true segs)
  | _ => err

def cmpOpOf (s : Str) : R CmpOp :=
  if s == "==".toList then pure .eq else if s == "!=".toList then pure .ne
  else if s == ">".toList then pure .gt else if s == ">=".toList then pure .ge
  else if s == "<".toList then pure .lt else if s == "<=".toList then pure .le else err

def FnArg.isLit : FnArg → Bool | .lit _ => true | _ => false
def FnArg.isFilter : FnArg → Bool | .filter _ => true | _ => false

def isSingularSegs : List Segment → Bool
  | [] => true
  | .selector (.name _) :: r => isSingularSegs r
  | .selector (.index _) :: r => isSingularSegs r
  | _ => false

def TestFunction.isComparable : TestFunction → Bool
  | .length _ | .value _ | .count _ => true
  | _ => false

/-- `FnArg::is_value_type` -/
def FnArg.isValueType : FnArg → Bool
  | .lit _ => true
  | .test (.rel ss) => isSingularSegs ss
  | .test (.abs ss) => isSingularSegs ss
  | .test (.fn f) => f.isComparable
  | .filter _ => false

/-- `FnArg::is_nodes_type` -/
def FnArg.isNodesType : FnArg → Bool
  | .test (.rel _) => true
  | .test (.abs _) => true
  | _ => false

def tryNewFn (name : Str) (args : List FnArg) : R TestFunction :=
  let std := ["length".toList, "value".toList, "count".toList, "match".toList, "search".toList]
  if name == "length".toList then match args with
    | [a] => if a.isValueType then pure (.length a) else err
    | _ => err
  else if name == "value".toList then match args with
    | [a] => if a.isNodesType then pure (.value a) else err
    | _ => err
  else if name == "count".toList then match args with
    | [a] => if a.isLit || a.isFilter then err else if a.isNodesType then pure (.count a) else err
    | _ => err
  else if name == "search".toList then match args with
    | [a, b] => if a.isValueType && b.isValueType then pure (.search a b) else err
    | _ => err
  else if name == "match".toList then match args with
    | [a, b] => if a.isValueType && b.isValueType then pure (.match a b) else err
    | _ => err
  else if std.contains name then err
  else pure (.custom name args)

mutual
partial def segmentsB (inp : Inp) (rule : PairT) : R (List Segment) :=
  rule.inner.mapM fun r => do segmentB inp (← firstInner r)

partial def childSegmentB (inp : Inp) (rule : PairT) : R Segment :=
  match rule.rule with
  | .r_wildcard_selector => pure (.selector .wildcard)
  | .r_member_name_shorthand => pure (.selector (.name (trimBlank (rule.str inp))))
  | .r_bracketed_selection => do
      let sels ← rule.inner.mapM (selectorB inp)
      match sels with
      | [s] => pure (.selector s)
      | ss => pure (.selectors ss)
  | _ => err

partial def segmentB (inp : Inp) (child : PairT) : R Segment :=
  match child.rule with
  | .r_child_segment =>
      let s := child.str inp
      let val := match s with | '.' :: r => r | _ => []
      if (match val with | c :: _ => isBlank c | [] => false) then err else do childSegmentB inp (← firstInner child)
  | .r_descendant_segment =>
      match (child.str inp)[2]? with
      | none => err
      | some c => if isBlank c then err else do
          pure (.descendant (← childSegmentB inp (← firstInner child)))
  | _ => err

partial def selectorB (inp : Inp) (rule : PairT) : R Selector := do
  let child ← firstInner rule
  match child.rule with
  | .r_name_selector => do let s ← validateJsStr (trim (child.str inp)); pure (.name s)
  | .r_wildcard_selector => pure .wildcard
  | .r_index_selector => do let v ← getInt inp child; let v ← validateRange v; pure (.index v)
  | .r_slice_selector => do let (a, b, c) ← sliceB inp child; pure (.slice a b c)
  | .r_filter_selector => do pure (.filter (← logicalExprB inp (← firstInner child)))
  | _ => err

partial def functionExprB (inp : Inp) (rule : PairT) : R TestFunction := do
  let fnStr := rule.str inp
  match rule.inner with
  | [] => err
  | nameP :: elems =>
    let name := nameP.str inp
    let bad := match fnStr[name.length]? with | some c => c != '(' | none => false
    if bad then err else do
      let args ← elems.mapM fun arg => do
        let next ← firstInner arg
        match next.rule with
        | .r_literal => do pure (FnArg.lit (← literalB inp next))
        | .r_test => do pure (FnArg.test (← testB inp next))
        | .r_logical_expr => do pure (FnArg.filter (← logicalExprB inp next))
        | _ => err
      tryNewFn name args

partial def testB (inp : Inp) (rule : PairT) : R Test := do
  let child ← firstInner rule
  match child.rule with
  | .r_jp_query => do pure (.abs (← segmentsB inp (← firstInner child)))
  | .r_rel_query => do pure (.rel (← segmentsB inp (← firstInner child)))
  | .r_function_expr => do pure (.fn (← functionExprB inp child))
  | _ => err

partial def logicalExprB (inp : Inp) (rule : PairT) : R Filter := do
  let ors ← rule.inner.mapM (logicalExprAndB inp)
  match ors with
  | [f] => pure f
  | fs => pure (.or fs)

partial def logicalExprAndB (inp : Inp) (rule : PairT) : R Filter := do
  let ands ← rule.inner.mapM fun r => do pure (Filter.atom (← filterAtomB inp r))
  match ands with
  | [f] => pure f
  | fs => pure (.and fs)

partial def filterAtomB (inp : Inp) (pair : PairT) : R FilterAtom := do
  let rule ← firstInner pair
  match rule.rule with
  | .r_paren_expr => do
      let (n, e) ← rule.inner.foldlM (init := (false, (none : Option Filter))) fun (n, e) r =>
        match r.rule with
        | .r_not_op => pure (true, e)
        | .r_logical_expr => do pure (n, some (← logicalExprB inp r))
        | _ => pure (n, e)
      match e with | some e => pure (.filter e n) | none => err
  | .r_comp_expr =>
      match rule.inner with
      | l :: o :: r :: _ => do
          let lhs ← comparableB inp l
          let rhs ← comparableB inp r
          let op ← cmpOpOf (o.str inp)
          pure (.cmp op lhs rhs)
      | _ => err
  | .r_test_expr => do
      let (n, e) ← rule.inner.foldlM (init := (false, (none : Option Test))) fun (n, e) r =>
        match r.rule with
        | .r_not_op => pure (true, e)
        | .r_test => do pure (n, some (← testB inp r))
        | _ => pure (n, e)
      match e with
      | some (.fn tf) => if tf.isComparable then err else pure (.test (.fn tf) n)
      | some e => pure (.test e n)
      | none => err
  | _ => err

partial def comparableB (inp : Inp) (rule : PairT) : R Comparable := do
  let rule ← firstInner rule
  match rule.rule with
  | .r_literal => do pure (.lit (← literalB inp rule))
  | .r_singular_query => singularB inp rule
  | .r_function_expr => do
      let tf ← functionExprB inp rule
      if tf.isComparable then pure (.fn tf) else err
  | _ => err
end

def parseJsonPath (s : Str) : R (List Segment) :=
  if s != trimBlank s then err else
  let inp : Inp := s.toArray
  let ctx : Ctx := { atom := .nonAtomic, ws := wsStep }
  match entry (64 * (s.length + 2)) ctx 0 s with
  | some st => match st.out with
    | m :: _ => do
      let jq ← firstInner m
      segmentsB inp (← firstInner jq)
    | [] => err
  | none => err

end JP
