import JsonPathVerif.RegexSem
/-! `match` / `search` as the model computes them from the two strings (`Re.regexFn`), stated against the language of the
expression the pattern text parses to. -/
namespace JP
namespace Re

/-- `match(s, p)`: when `p` parses to an anchor-free `r`, the answer is yes exactly if the whole of `s` is in the language of `r` -/
theorem regexFn_match (s p : Str) (r : Rx) (hp : parse p = .ok r) (hr : anchorFree r = true) :
    regexFn s p false = .yes ↔ L r s := by
  unfold regexFn
  rw [hp]
  simp only [Bool.false_eq_true, if_false]
  rw [← match_whole r hr s]
  by_cases h : isMatch (anchored r) s = true
  · simp [h]
  · simp [h]

/-- `search(s, p)`: when `p` parses to an anchor-free `r`, the answer is yes exactly if some substring of `s` is in its language -/
theorem regexFn_search (s p : Str) (r : Rx) (hp : parse p = .ok r) (hr : anchorFree r = true) :
    regexFn s p true = .yes ↔ ∃ pre w post, s = pre ++ w ++ post ∧ L r w := by
  unfold regexFn
  rw [hp]
  simp only [if_true]
  rw [← search_substring r hr s]
  by_cases h : isMatch r s = true
  · simp [h]
  · simp [h]

/-- a pattern that is not a regular expression never matches (RFC 9535: LogicalFalse), whatever the anchoring wrapper would make of it -/
theorem regexFn_invalid (s p : Str) (sub : Bool) (hp : parse p = .invalid) : regexFn s p sub = .no := by
  unfold regexFn; rw [hp]

end Re
end JP
