import JsonPathVerif.Helpers
namespace JP
open List

variable (E : Engine) (root : Json)

def isCont (n : Spec.Node) : Bool := match n.2 with | .arr _ => true | .obj _ => true | _ => false

theorem cont_eq (ns : List Spec.Node) : cont ns = ns.filter isCont := rfl

theorem Spec.sel_scalar (s : Selector) (n : Spec.Node) (h : isCont n = false) : Spec.sel E root s n = [] := by
  unfold isCont at h
  cases s with
  | name raw => unfold Spec.sel Spec.selName; cases hn : n.2 <;> simp_all
  | wildcard => unfold Spec.sel; exact Spec.children_scalar n h
  | index i => unfold Spec.sel Spec.selIndex; cases hn : n.2 <;> simp_all
  | slice a b c => unfold Spec.sel; cases hn : n.2 <;> simp_all
  | filter f => unfold Spec.sel; rw [Spec.children_scalar n h]; simp

theorem Spec.selAll_scalar : ∀ (ss : List Selector) (n : Spec.Node), isCont n = false → Spec.selAll E root ss n = []
  | [], n, _ => by simp [Spec.selAll]
  | s :: ss, n, h => by simp [Spec.selAll, Spec.sel_scalar E root s n h, Spec.selAll_scalar ss n h]

theorem flatMap_filter_of_nil {α β} (p : α → Bool) (f : α → List β) (l : List α)
    (h : ∀ a, p a = false → f a = []) : (l.filter p).flatMap f = l.flatMap f := by
  induction l with
  | nil => simp
  | cons a l ih =>
    by_cases hp : p a
    · simp [List.filter_cons, hp, ih]
    · have := h a (by simpa using hp)
      simp [List.filter_cons, hp, ih, this]

-- Spec: permutation congruence
theorem Spec.seg_perm : ∀ (s : Segment) {a b : List Spec.Node}, a.Perm b → (Spec.seg E root s a).Perm (Spec.seg E root s b)
  | .selector s, a, b, h => by simp only [Spec.seg]; exact List.Perm.flatMap_right _ h
  | .selectors ss, a, b, h => by simp only [Spec.seg]; exact List.Perm.flatMap_right _ h
  | .descendant s, a, b, h => by
      simp only [Spec.seg]
      exact Spec.seg_perm s (List.Perm.flatMap_right _ h)

theorem Spec.segs_perm : ∀ (ss : List Segment) {a b : List Spec.Node}, a.Perm b → (Spec.segs E root ss a).Perm (Spec.segs E root ss b)
  | [], a, b, h => by simpa [Spec.segs] using h
  | s :: ss, a, b, h => by
      simp only [Spec.segs]
      exact Spec.segs_perm ss (Spec.seg_perm E root s h)

-- singular segment lists: shape on the implementation side, at most one node on the spec side
theorem singular_shape : ∀ (ss : List Segment) (d : Data), Spec.isSingularSegs ss = true → d.sqShape →
    (Segment.processList E root ss d).sqShape
  | [], d, _, hd => by simpa [Segment.processList] using hd
  | s :: ss, d, hs, hd => by
    have step : (s.process E root d).sqShape ∧ Spec.isSingularSegs ss = true := by
      match s, hs with
      | .selector (.name k), hs =>
        refine ⟨?_, by simpa [Spec.isSingularSegs] using hs⟩
        cases d <;> simp_all [Segment.process, Selector.process, Data.flatMap, Data.sqShape]
        exact processKey_sq k _
      | .selector (.index i), hs =>
        refine ⟨?_, by simpa [Spec.isSingularSegs] using hs⟩
        cases d <;> simp_all [Segment.process, Selector.process, Data.flatMap, Data.sqShape]
        exact processIndex_sq i _
    simp only [Segment.processList]
    exact singular_shape ss _ step.2 step.1

theorem Spec.singular_le_one : ∀ (ss : List Segment) (ns : List Spec.Node), Spec.isSingularSegs ss = true → ns.length ≤ 1 →
    (Spec.segs E root ss ns).length ≤ 1
  | [], ns, _, h => by simpa [Spec.segs] using h
  | s :: ss, ns, hs, h => by
    simp only [Spec.segs]
    match s, hs with
    | .selector (.name k), hs =>
      apply Spec.singular_le_one ss _ (by simpa [Spec.isSingularSegs] using hs)
      match ns, h with
      | [], _ => simp [Spec.seg]
      | [n], _ => simpa [Spec.seg, Spec.sel] using Spec.selName_le_one k n
    | .selector (.index i), hs =>
      apply Spec.singular_le_one ss _ (by simpa [Spec.isSingularSegs] using hs)
      match ns, h with
      | [], _ => simp [Spec.seg]
      | [n], _ => simpa [Spec.seg, Spec.sel] using Spec.selIndex_le_one i n

theorem perm_le_one {α} {a b : List α} (h : a.Perm b) (hl : a.length ≤ 1) : a = b := by
  have hlen := h.length_eq
  match a, b, hl, hlen with
  | [], [], _, _ => rfl
  | [x], [y], _, _ => simpa using h

theorem sq_nodes_le_one (d : Data) (h : d.sqShape) : (nodesOf d).length ≤ 1 := by
  cases d <;> simp_all [Data.sqShape, nodesOf, Data.toVec]

theorem shaped_of_sq (d : Data) (h : d.sqShape) : d.shaped := by
  cases d <;> simp_all [Data.sqShape]

theorem dataVal_sq_nodes (d : Data) (h : d.sqShape) :
    dataVal d = (match nodesOf d with | [n] => some n.2 | _ => none) := by
  cases d <;> simp_all [Data.sqShape, dataVal, nodesOf, Data.toVec, toN]

end JP

namespace JP
open List
variable (E : Engine) (root : Json)

theorem desc_nodes (d : Data) (hd : d.shaped) :
    nodesOf (d.flatMap processDescendant) = ((nodesOf d).flatMap fun n => Spec.desc n.1 n.2).filter isCont := by
  unfold nodesOf
  rw [Data.toVec_flatMap _ _ hd]
  simp only [List.map_flatMap, List.flatMap_map, List.filter_flatMap]
  congr 1; funext p
  rw [processDescendant_spec p]; rfl

theorem toN_empty (c : Ptr) : toN (Ptr.empty c.inner c.loc) = toN c := rfl

theorem boolOf_value (j : Json) : boolOf (.value j) = (match j with | .bool b => b | _ => false) := by
  cases j <;> rfl

theorem existence_helper : ∀ (r : Data) (n : Bool), r.shaped →
    boolOf (bif presentOf r then dbool (!n) else dbool n)
      = ((!(nodesOf r).isEmpty) != n) := by
  intro r n h
  cases r <;> cases n <;> simp_all [nodesOf, Data.toVec, Data.shaped, presentOf] <;> (rename_i ps; cases ps <;> simp)

theorem regex_helper (x y : Option Json) (sub : Bool) :
    boolOf (match (match x with | some (.str s) => some s | _ => none : Option Str),
                  (match y with | some (.str s) => some s | _ => none : Option Str) with
      | some s, some p => dbool (E.regexFn s p sub)
      | _, _ => dbool false)
    = (match x, y with
      | some (.str s), some (.str p) => E.regexFn s p sub
      | _, _ => false) := by
  match x, y with
  | none, _ => rfl
  | some a, none => cases a <;> rfl
  | some a, some b => cases a <;> cases b <;> rfl

theorem lengthFn_patShape (d : Data) : (lengthFn d).patShape := by
  cases d with
  | ref p => cases h : p.inner <;> simp [lengthFn, h, di64, Data.patShape]
  | value v => cases v <;> simp [lengthFn, di64, Data.patShape]
  | refs ps => simp [lengthFn, di64, Data.patShape]
  | nothing => simp [lengthFn, Data.patShape]
theorem countFn_patShape (d : Data) : (countFn d).patShape := by
  cases d <;> simp [countFn, di64, Data.patShape]
theorem valueFn_patShape (d : Data) (hd : d.shaped) : (valueFn d).patShape := by
  cases d with
  | ref p => simp [valueFn, Data.patShape]
  | value v => exact absurd hd (by simp)
  | nothing => simp [valueFn, Data.patShape]
  | refs ps =>
    match ps with
    | [] => simp [valueFn, Data.patShape]
    | [q] => simp [valueFn, Data.patShape]
    | _ :: _ :: _ => simp [valueFn, Data.patShape]
theorem patShape_of_sq (d : Data) (h : d.sqShape) : d.patShape := by
  cases d <;> simp_all [Data.sqShape, Data.patShape]

mutual
theorem sel_spec : ∀ (s : Selector) (d : Data), okSel s → d.shaped →
    (s.process E root d).shaped ∧ nodesOf (s.process E root d) = (nodesOf d).flatMap (Spec.sel E root s)
  | .name raw, d, hs, hd => by
      obtain ⟨k, hk⟩ := (by simpa [okSel] using hs : ∃ k, PlainName raw k)
      refine ⟨Data.shaped_flatMap _ _ (processKey_shaped raw), ?_⟩
      simp only [Selector.process, nodesOf, Data.toVec_flatMap _ _ hd, List.map_flatMap, List.flatMap_map]
      congr 1; funext p; exact processKey_spec hk E root p
  | .index i, d, _, hd => by
      refine ⟨Data.shaped_flatMap _ _ (processIndex_shaped i), ?_⟩
      simp only [Selector.process, nodesOf, Data.toVec_flatMap _ _ hd, List.map_flatMap, List.flatMap_map]
      congr 1; funext p; exact processIndex_spec E root i p
  | .wildcard, d, _, hd => by
      refine ⟨Data.shaped_flatMap _ _ processWildcard_shaped, ?_⟩
      simp only [Selector.process, nodesOf, Data.toVec_flatMap _ _ hd, List.map_flatMap, List.flatMap_map]
      congr 1; funext p; simp [processWildcard_spec, Spec.sel]
  | .slice a b c, d, _, hd => by
      refine ⟨Data.shaped_flatMap _ _ (processSlice_shaped a b c), ?_⟩
      simp only [Selector.process, nodesOf, Data.toVec_flatMap _ _ hd, List.map_flatMap, List.flatMap_map]
      congr 1; funext p; exact processSlice_spec E root a b c p
  | .filter f, d, hs, hd => by
      have hf : okFlt f := by simpa [okSel] using hs
      simp only [Selector.process]
      refine ⟨filterChildrenWith_shaped _ _, ?_⟩
      rw [filterChildrenWith_spec _ (fun c => Spec.logical E root c f) _ d hd]
      · congr 1
      · intro c; rw [← toN_empty c]; exact flt_spec f (Ptr.empty c.inner c.loc) hf rfl
theorem selAll_spec : ∀ (ss : List Selector) (d : Data), ss ≠ [] → okSels ss → d.shaped →
    (Selector.processAll E root ss d).shaped ∧
    (nodesOf (Selector.processAll E root ss d)).Perm ((nodesOf d).flatMap (Spec.selAll E root ss))
  | [], d, hne, _, _ => absurd rfl hne
  | [s], d, _, hs, hd => by
      have h1 : okSel s := by simpa [okSels] using hs
      obtain ⟨h2, h3⟩ := sel_spec s d h1 hd
      refine ⟨by simpa [Selector.processAll] using h2, ?_⟩
      simp only [Selector.processAll, h3, Spec.selAll, List.append_nil]
      exact List.Perm.refl _
  | s :: s' :: ss, d, _, hs, hd => by
      have hs' : okSel s ∧ okSels (s' :: ss) := by simpa [okSels] using hs
      obtain ⟨h1, h2⟩ := sel_spec s d hs'.1 hd
      obtain ⟨h3, h4⟩ := selAll_spec (s' :: ss) d (by simp) hs'.2 hd
      refine ⟨Data.shaped_reduce _ _, ?_⟩
      simp only [Selector.processAll, nodesOf, Data.toVec_reduce _ _ h1 h3, List.map_append]
      have h2' : (s.process E root d).toVec.map toN = (nodesOf d).flatMap (Spec.sel E root s) := h2
      rw [h2']
      refine (List.Perm.append_left _ h4).trans ?_
      have := flatMap_append_perm (nodesOf d) (Spec.sel E root s) (Spec.selAll E root (s' :: ss))
      simpa [Spec.selAll] using this
theorem seg_spec : ∀ (s : Segment) (d : Data), okSeg s → d.shaped →
    (s.process E root d).shaped ∧ (nodesOf (s.process E root d)).Perm (Spec.seg E root s (nodesOf d))
  | .selector s, d, hs, hd => by
      obtain ⟨h1, h2⟩ := sel_spec s d (by simpa [okSeg] using hs) hd
      exact ⟨by simpa [Segment.process] using h1, by simp [Segment.process, Spec.seg, h2]⟩
  | .selectors ss, d, hs, hd => by
      have hs' : ss ≠ [] ∧ okSels ss := by simpa [okSeg] using hs
      simpa [Segment.process, Spec.seg] using selAll_spec ss d hs'.1 hs'.2 hd
  | .descendant (.selector s), d, hs, hd => by
      have hd' : (d.flatMap processDescendant).shaped := Data.shaped_flatMap _ _ processDescendant_shaped
      obtain ⟨h1, h2⟩ := sel_spec s (d.flatMap processDescendant) (by simpa [okSeg] using hs) hd'
      refine ⟨by simpa [Segment.process] using h1, ?_⟩
      simp only [Segment.process, Spec.seg, h2, desc_nodes d hd]
      rw [flatMap_filter_of_nil isCont (Spec.sel E root s) _ (fun n hn => Spec.sel_scalar E root s n hn)]
  | .descendant (.selectors ss), d, hs, hd => by
      have hs' : ss ≠ [] ∧ okSels ss := by simpa [okSeg] using hs
      have hd' : (d.flatMap processDescendant).shaped := Data.shaped_flatMap _ _ processDescendant_shaped
      obtain ⟨h1, h2⟩ := selAll_spec ss (d.flatMap processDescendant) hs'.1 hs'.2 hd'
      refine ⟨by simpa [Segment.process] using h1, ?_⟩
      simp only [Segment.process, Spec.seg]
      refine h2.trans ?_
      rw [desc_nodes d hd, flatMap_filter_of_nil isCont (Spec.selAll E root ss) _ (fun n hn => Spec.selAll_scalar E root ss n hn)]
  | .descendant (.descendant _), d, hs, _ => by simp [okSeg] at hs
theorem segs_spec : ∀ (ss : List Segment) (d : Data), okSegs ss → d.shaped →
    (Segment.processList E root ss d).shaped ∧
    (nodesOf (Segment.processList E root ss d)).Perm (Spec.segs E root ss (nodesOf d))
  | [], d, _, hd => by simp [Segment.processList, Spec.segs, hd]
  | s :: ss, d, hs, hd => by
      have hs' : okSeg s ∧ okSegs ss := by simpa [okSegs] using hs
      obtain ⟨h1, h2⟩ := seg_spec s d hs'.1 hd
      obtain ⟨h3, h4⟩ := segs_spec ss (s.process E root d) hs'.2 h1
      refine ⟨by simpa [Segment.processList] using h3, ?_⟩
      simp only [Segment.processList, Spec.segs]
      exact h4.trans (Spec.segs_perm E root ss h2)
theorem flt_spec : ∀ (f : Filter) (p : Ptr), okFlt f → p.path = [] →
    boolOf (f.elem E root (.ref p)) = Spec.logical E root (toN p) f
  | .or fs, p, hf, hp => by
      simp [Filter.elem, Spec.logical, any_spec fs p (by simpa [okFlt] using hf) hp]
  | .and fs, p, hf, hp => by
      simp [Filter.elem, Spec.logical, all_spec fs p (by simpa [okFlt] using hf) hp]
  | .atom a, p, hf, hp => by
      simp [Filter.elem, Spec.logical, atom_spec a p (by simpa [okFlt] using hf) hp]
theorem any_spec : ∀ (fs : List Filter) (p : Ptr), okFlts fs → p.path = [] →
    Filter.any E root fs (.ref p) = Spec.logicalAny E root (toN p) fs
  | [], p, _, _ => by simp [Filter.any, Spec.logicalAny]
  | f :: fs, p, hf, hp => by
      have hf' : okFlt f ∧ okFlts fs := by simpa [okFlts] using hf
      simp [Filter.any, Spec.logicalAny, filterProcessWith_internal _ p hp, flt_spec f p hf'.1 hp, any_spec fs p hf'.2 hp]
theorem all_spec : ∀ (fs : List Filter) (p : Ptr), okFlts fs → p.path = [] →
    Filter.all E root fs (.ref p) = Spec.logicalAll E root (toN p) fs
  | [], p, _, _ => by simp [Filter.all, Spec.logicalAll]
  | f :: fs, p, hf, hp => by
      have hf' : okFlt f ∧ okFlts fs := by simpa [okFlts] using hf
      simp [Filter.all, Spec.logicalAll, filterProcessWith_internal _ p hp, flt_spec f p hf'.1 hp, all_spec fs p hf'.2 hp]
theorem atom_spec : ∀ (a : FilterAtom) (p : Ptr), okAtom a → p.path = [] →
    boolOf (a.process E root (.ref p)) = Spec.atom E root (toN p) a
  | .filter e n, p, ha, hp => by
      have he := flt_spec e p (by simpa [okAtom] using ha) hp
      cases n <;> simp [FilterAtom.process, Spec.atom, filterProcessWith_internal _ p hp, he]
  | .test (.rel ss) n, p, ha, hp => by
      obtain ⟨h1, h2⟩ := segs_spec ss (.ref p) (by simpa [okAtom, okTest] using ha) trivial
      have hemp : (Spec.segs E root ss [toN p]).isEmpty = (nodesOf (Segment.processList E root ss (.ref p))).isEmpty := by
        have : nodesOf (Data.ref p) = [toN p] := rfl
        rw [← this]; exact (List.Perm.isEmpty_eq h2).symm
      simp only [FilterAtom.process, Test.isResBool, Test.process, Spec.atom, Spec.test, hemp, cond_false]
      rw [existence_helper (Segment.processList E root ss (.ref p)) n h1]
  | .test (.abs ss) n, p, ha, hp => by
      obtain ⟨h1, h2⟩ := segs_spec ss (rootData root) (by simpa [okAtom, okTest] using ha) trivial
      have hemp : (Spec.segs E root ss [([], root)]).isEmpty = (nodesOf (Segment.processList E root ss (rootData root))).isEmpty := by
        have : nodesOf (rootData root) = [([], root)] := rfl
        rw [← this]; exact (List.Perm.isEmpty_eq h2).symm
      simp only [FilterAtom.process, Test.isResBool, Test.process, Spec.atom, Spec.test, hemp, cond_false]
      rw [existence_helper (Segment.processList E root ss (rootData root)) n h1]
  | .test (.fn f) n, p, ha, hp => by
      have hf : okFnLogical f := by simpa [okAtom, okTest] using ha
      have hb : f.isResBool = true := by
        cases f <;> simp_all [okFnLogical, TestFunction.isResBool]
      have h := fnLogical_spec f p hf
      cases n <;> simp [FilterAtom.process, Test.isResBool, hb, Test.process, Spec.atom, Spec.test, h]
  | .cmp op l r, p, ha, hp => by
      have ha' : okCmp l ∧ okCmp r := by simpa [okAtom] using ha
      obtain ⟨hl1, hl2⟩ := cmp_spec l p ha'.1
      obtain ⟨hr1, hr2⟩ := cmp_spec r p ha'.2
      simp [FilterAtom.process, Spec.atom, cmpData_spec op _ _ hl1 hr1, hl2, hr2]
theorem cmp_spec : ∀ (c : Comparable) (p : Ptr), okCmp c →
    (c.process E root (.ref p)).cmpShape ∧ dataVal (c.process E root (.ref p)) = Spec.comparable E root (toN p) c
  | .lit l, p, hc => by
      obtain ⟨h1, h2⟩ := literal_spec l (by simpa [okCmp] using hc)
      simp [Comparable.process, Spec.comparable, Data.cmpShape, dataVal, h1, h2]
  | .sq isRoot segs, p, hc => by
      have hs : ∀ s ∈ segs, okSQ s := by simpa [okCmp] using hc
      have hstart : (if isRoot then rootData root else Data.ref p).sqShape := by split <;> trivial
      obtain ⟨h1, h2⟩ := singular_spec E root segs _ hs hstart
      refine ⟨by simpa [Comparable.process] using cmpShape_of_sq _ h1, ?_⟩
      simp only [Comparable.process, Spec.comparable, dataVal_of_sq _ h1, h2]
      congr 2
      split <;> simp [dataNode, rootData, toN]
  | .fn f, p, hc => by
      simpa [Comparable.process, Spec.comparable] using fnValue_spec f p (by simpa [okCmp] using hc)
theorem fnValue_spec : ∀ (f : TestFunction) (p : Ptr), okFnValue f →
    (f.process E root (.ref p)).cmpShape ∧ dataVal (f.process E root (.ref p)) = Spec.fnValue E root (toN p) f
  | .length a, p, hf => by
      obtain ⟨h1, h2⟩ := argValue_spec a p (by simpa [okFnValue] using hf)
      obtain ⟨h3, h4⟩ := lengthFn_spec _ h1
      exact ⟨by simpa [TestFunction.process] using h3, by simp [TestFunction.process, Spec.fnValue, h4, h2]⟩
  | .count a, p, hf => by
      obtain ⟨h1, h2⟩ := argNodes_spec a p (by simpa [okFnValue] using hf)
      obtain ⟨h3, h4⟩ := countFn_spec _ h1
      refine ⟨by simpa [TestFunction.process] using h3, ?_⟩
      simp [TestFunction.process, Spec.fnValue, h4, h2.length_eq]
  | .value a, p, hf => by
      obtain ⟨h1, h2⟩ := argNodes_spec a p (by simpa [okFnValue] using hf)
      obtain ⟨h3, h4⟩ := valueFn_spec _ h1
      refine ⟨by simpa [TestFunction.process] using h3, ?_⟩
      simp only [TestFunction.process, Spec.fnValue, h4]
      have hlen := h2.length_eq
      match hn : nodesOf (a.process E root (.ref p)), hs : Spec.argNodes E root (toN p) a with
      | [n], [m] => rw [hn, hs] at h2; have := List.Perm.singleton_eq h2 |>.symm; simp_all
      | [], [] => rfl
      | [], _ :: _ => rw [hn, hs] at hlen; simp at hlen
      | _ :: _, [] => rw [hn, hs] at hlen; simp at hlen
      | [_], _ :: _ :: _ => rw [hn, hs] at hlen; simp at hlen
      | _ :: _ :: _, [_] => rw [hn, hs] at hlen; simp at hlen
      | _ :: _ :: _, _ :: _ :: _ => rfl
  | .match _ _, _, hf => by simp [okFnValue] at hf
  | .search _ _, _, hf => by simp [okFnValue] at hf
  | .custom _ _, _, hf => by simp [okFnValue] at hf
theorem fnLogical_spec : ∀ (f : TestFunction) (p : Ptr), okFnLogical f →
    boolOf (f.process E root (.ref p)) = Spec.fnLogical E root (toN p) f
  | .match a b, p, hf => by
      have hf' : okArgValue a ∧ okArgValue b := by simpa [okFnLogical] using hf
      obtain ⟨ha1, ha2⟩ := argValue_spec a p hf'.1
      obtain ⟨hb1, hb2⟩ := argValue_spec b p hf'.2
      simp only [TestFunction.process, Spec.fnLogical, toPatD_of_patShape _ (arg_patShape b p hf'.2), toStrD_spec _ ha1, toStrD_spec _ hb1, ha2, hb2]
      exact regex_helper E _ _ false
  | .search a b, p, hf => by
      have hf' : okArgValue a ∧ okArgValue b := by simpa [okFnLogical] using hf
      obtain ⟨ha1, ha2⟩ := argValue_spec a p hf'.1
      obtain ⟨hb1, hb2⟩ := argValue_spec b p hf'.2
      simp only [TestFunction.process, Spec.fnLogical, toPatD_of_patShape _ (arg_patShape b p hf'.2), toStrD_spec _ ha1, toStrD_spec _ hb1, ha2, hb2]
      exact regex_helper E _ _ true
  | .custom name args, p, hf => by
      have h := customArgs_spec args p (by simpa [okFnLogical] using hf)
      simp only [TestFunction.process, Spec.fnLogical, h, boolOf_value]
      generalize extensionCustom name _ = j
      cases j <;> rfl
  | .length _, _, hf => by simp [okFnLogical] at hf
  | .count _, _, hf => by simp [okFnLogical] at hf
  | .value _, _, hf => by simp [okFnLogical] at hf
theorem argValue_spec : ∀ (a : FnArg) (p : Ptr), okArgValue a →
    (a.process E root (.ref p)).cmpShape ∧ dataVal (a.process E root (.ref p)) = Spec.argValue E root (toN p) a
  | .lit l, p, ha => by
      obtain ⟨h1, h2⟩ := literal_spec l (by simpa [okArgValue] using ha)
      simp [FnArg.process, Spec.argValue, Data.cmpShape, dataVal, h1, h2]
  | .test (.rel ss), p, ha => by
      have ha' : Spec.isSingularSegs ss = true ∧ okSegs ss := by simpa [okArgValue] using ha
      have hsq := singular_shape E root ss (.ref p) ha'.1 trivial
      obtain ⟨_, h2⟩ := segs_spec ss (.ref p) ha'.2 trivial
      have heq := perm_le_one h2 (sq_nodes_le_one _ hsq)
      refine ⟨by simpa [FnArg.process, Test.process] using cmpShape_of_sq _ hsq, ?_⟩
      simp only [FnArg.process, Test.process, Spec.argValue, dataVal_sq_nodes _ hsq, heq]
      rfl
  | .test (.abs ss), p, ha => by
      have ha' : Spec.isSingularSegs ss = true ∧ okSegs ss := by simpa [okArgValue] using ha
      have hsq := singular_shape E root ss (rootData root) ha'.1 trivial
      obtain ⟨_, h2⟩ := segs_spec ss (rootData root) ha'.2 trivial
      have heq := perm_le_one h2 (sq_nodes_le_one _ hsq)
      refine ⟨by simpa [FnArg.process, Test.process] using cmpShape_of_sq _ hsq, ?_⟩
      simp only [FnArg.process, Test.process, Spec.argValue, dataVal_sq_nodes _ hsq, heq]
      rfl
  | .test (.fn f), p, ha => by
      simpa [FnArg.process, Test.process, Spec.argValue] using fnValue_spec f p (by simpa [okArgValue] using ha)
  | .filter _, _, ha => by simp [okArgValue] at ha
theorem argNodes_spec : ∀ (a : FnArg) (p : Ptr), okArgNodes a →
    (a.process E root (.ref p)).shaped ∧ (nodesOf (a.process E root (.ref p))).Perm (Spec.argNodes E root (toN p) a)
  | .test (.rel ss), p, ha => by
      simpa [FnArg.process, Test.process, Spec.argNodes, nodesOf, Data.toVec] using
        segs_spec ss (.ref p) (by simpa [okArgNodes] using ha) trivial
  | .test (.abs ss), p, ha => by
      simpa [FnArg.process, Test.process, Spec.argNodes, nodesOf, Data.toVec, rootData, toN] using
        segs_spec ss (rootData root) (by simpa [okArgNodes] using ha) trivial
  | .test (.fn _), _, ha => by simp [okArgNodes] at ha
  | .lit _, _, ha => by simp [okArgNodes] at ha
  | .filter _, _, ha => by simp [okArgNodes] at ha
theorem arg_patShape : ∀ (b : FnArg) (p : Ptr), okArgValue b → (b.process E root (.ref p)).patShape
  | .lit l, p, hb => by
      cases l <;> simp_all [FnArg.process, literalValue, Data.patShape, okArgValue, okLit]
  | .test (.rel ss), p, hb => by
      have hb' : Spec.isSingularSegs ss = true ∧ okSegs ss := by simpa [okArgValue] using hb
      have hsq := singular_shape E root ss (.ref p) hb'.1 trivial
      simpa [FnArg.process, Test.process] using patShape_of_sq _ hsq
  | .test (.abs ss), p, hb => by
      have hb' : Spec.isSingularSegs ss = true ∧ okSegs ss := by simpa [okArgValue] using hb
      have hsq := singular_shape E root ss (rootData root) hb'.1 trivial
      simpa [FnArg.process, Test.process] using patShape_of_sq _ hsq
  | .test (.fn (.length a)), p, _ => by
      simpa [FnArg.process, Test.process, TestFunction.process] using lengthFn_patShape _
  | .test (.fn (.count a)), p, _ => by
      simpa [FnArg.process, Test.process, TestFunction.process] using countFn_patShape _
  | .test (.fn (.value a)), p, hb => by
      have ha : okArgNodes a := by simpa [okArgValue, okFnValue] using hb
      obtain ⟨h1, _⟩ := argNodes_spec a p ha
      simpa [FnArg.process, Test.process, TestFunction.process] using valueFn_patShape _ h1
  | .test (.fn (.match _ _)), _, hb => by simp [okArgValue, okFnValue] at hb
  | .test (.fn (.search _ _)), _, hb => by simp [okArgValue, okFnValue] at hb
  | .test (.fn (.custom _ _)), _, hb => by simp [okArgValue, okFnValue] at hb
  | .filter _, _, hb => by simp [okArgValue] at hb
theorem customArgs_spec : ∀ (args : List FnArg) (p : Ptr), okArgsCustom args →
    FnArg.values E root args (.ref p) = Spec.customArgs E root (toN p) args
  | [], p, _ => by simp [FnArg.values, Spec.customArgs]
  | a :: as, p, ha => by
      have ha' : okArgValue a ∧ okArgsCustom as := by simpa [okArgsCustom] using ha
      obtain ⟨h1, h2⟩ := argValue_spec a p ha'.1
      have ih := customArgs_spec as p ha'.2
      simp only [FnArg.values, argValues_spec _ h1, h2, ih]
      match a, ha'.1 with
      | .lit l, _ => simp [Spec.customArgs, Spec.argValue]
      | .test (.rel ss), hok =>
        have hs : Spec.isSingularSegs ss = true := (by simpa [okArgValue] using hok : _ ∧ _).1
        have hl := Spec.singular_le_one E root ss [toN p] hs (by simp)
        simp only [Spec.customArgs, Spec.argValue]
        match hh : Spec.segs E root ss [toN p] with
        | [] => simp
        | [n] => simp
        | _ :: _ :: _ => rw [hh] at hl; simp at hl
      | .test (.abs ss), hok =>
        have hs : Spec.isSingularSegs ss = true := (by simpa [okArgValue] using hok : _ ∧ _).1
        have hl := Spec.singular_le_one E root ss [([], root)] hs (by simp)
        simp only [Spec.customArgs, Spec.argValue]
        match hh : Spec.segs E root ss [([], root)] with
        | [] => simp
        | [n] => simp
        | _ :: _ :: _ => rw [hh] at hl; simp at hl
      | .test (.fn f), _ => simp [Spec.customArgs, Spec.argValue]
      | .filter _, hok => simp [okArgValue] at hok
end

end JP

namespace JP
open List
variable (E : Engine) (root : Json)

/-- C01 (prototype, fixed-tree model): the result is a permutation of the RFC nodelist, never `Err`. -/
theorem query_perm (segs : List Segment) (hs : okSegs segs) :
    ∃ ps, jsPathProcess E segs root = .ok ps ∧ (ps.map toN).Perm (Spec.query E segs root) := by
  obtain ⟨h1, h2⟩ := segs_spec E root segs (rootData root) hs trivial
  unfold jsPathProcess Spec.query
  have hroot : nodesOf (rootData root) = [([], root)] := rfl
  rw [hroot] at h2
  revert h1 h2
  generalize Segment.processList E root segs (rootData root) = r
  intro h1 h2
  cases r with
  | ref p => exact ⟨[p], rfl, by simpa [nodesOf, Data.toVec] using h2⟩
  | refs ps => exact ⟨ps, rfl, by simpa [nodesOf, Data.toVec] using h2⟩
  | nothing => exact ⟨[], rfl, by simpa [nodesOf, Data.toVec] using h2⟩
  | value v => exact absurd h1 (by simp)

#print axioms query_perm
#print axioms flt_spec
#print axioms seg_spec
end JP
