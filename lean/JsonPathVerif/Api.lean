import JsonPathVerif.Parser
import JsonPathVerif.Eval
/-! Model of the public entry points: `js_path`, `js_path_vals`, `js_path_path` (src/query.rs) and
`JsonPath::{query_with_path, query, query_only_path}` (src/lib.rs). -/
namespace JP

/-- `js_path`: parse, then evaluate -/
def jsPath (E : Engine) (s : Str) (d : Json) : Except Unit (List Ptr) :=
  match parseJsonPath s with
  | .ok segs => jsPathProcess E segs d
  | .error e => .error e

/-- `query_with_path` -/
def queryWithPath (E : Engine) (s : Str) (d : Json) : Except Unit (List Ptr) := jsPath E s d
/-- `query` = `js_path_vals`: the values of `js_path` -/
def queryVals (E : Engine) (s : Str) (d : Json) : Except Unit (List (Loc × Json)) :=
  match jsPath E s d with
  | .ok ps => .ok (ps.map fun p => (p.loc, p.inner))
  | .error e => .error e
/-- `query_only_path` = `js_path_path`: the paths of `js_path` -/
def queryPaths (E : Engine) (s : Str) (d : Json) : Except Unit (List Str) :=
  match jsPath E s d with
  | .ok ps => .ok (ps.map (·.path))
  | .error e => .error e

/-- a session: any sequence of operations over a fixed pool of parsed queries and documents.  The model has no state:
the output of an operation is a function of that operation alone. -/
inductive Op where
  | evalString (q : Str) (d : Json)
  | evalParsed (q : List Segment) (d : Json)

def runOp (E : Engine) : Op → Except Unit (List Ptr)
  | .evalString q d => jsPath E q d
  | .evalParsed q d => jsPathProcess E q d

def runSession (E : Engine) (ops : List Op) : List (Except Unit (List Ptr)) := ops.map (runOp E)

end JP
