import JsonPathVerif.Eval
/-! Model of the regular-expression dialect used through `match`/`search` (prototype).
Syntax: a conservative subset of the `regex` crate's; anything else is `unsupported`
(the correspondence then does not judge the case). Semantics: existence of a match
(`Regex::is_match` / `find().is_some()`), `^`/`$` = start/end of haystack, `.` ≠ '\\n'. -/
namespace JP
namespace Re

inductive Rx where
  | eps
  | chr (c : Char)
  | any
  | cls (neg : Bool) (items : List (Char × Char))
  | seq (a b : Rx)
  | alt (a b : Rx)
  | star (a : Rx)
  | plus (a : Rx)
  | opt (a : Rx)
  | bol
  | eol
  deriving Repr, Inhabited

inductive PR (α : Type) where
  | ok (a : α) (rest : Str)
  | invalid
  | unsupported
  deriving Inhabited

def isMeta (c : Char) : Bool :=
  c == '\\' || c == '.' || c == '+' || c == '*' || c == '?' || c == '(' || c == ')' || c == '|' ||
  c == '[' || c == ']' || c == '{' || c == '}' || c == '^' || c == '$' || c == '#' || c == '&' || c == '-' || c == '~'

/-- class body after `[` (and optional `^`): items until `]`; conservative -/
def parseClassItems : Nat → Str → List (Char × Char) → PR (List (Char × Char))
  | 0, _, _ => .invalid
  | _, [], _ => .invalid
  | n+1, c :: r, acc =>
    if c == ']' then (if acc.isEmpty then .unsupported else .ok acc.reverse r)
    else if c == '\\' then
      match r with
      | e :: r' =>
        if isMeta e then
          (match r' with
           | '-' :: hi :: r'' => if hi == ']' || hi == '\\' || hi == '[' then .unsupported
                                 else if e ≤ hi then parseClassItems n r'' ((e, hi) :: acc) else .invalid
           | _ => parseClassItems n r' ((e, e) :: acc))
        else .unsupported
      | [] => .invalid
    else if c == '[' || c == '&' || c == '~' || c == '-' || c == '^' then .unsupported
    else
      match r with
      | '-' :: hi :: r' =>
        if hi == ']' || hi == '\\' || hi == '[' then .unsupported
        else if c ≤ hi then parseClassItems n r' ((c, hi) :: acc) else .invalid
      | _ => parseClassItems n r ((c, c) :: acc)

/-- postfix operators `* + ?` (lazy `??` etc. and counted repetition unsupported) -/
def parsePostfix : Nat → Rx → Str → (Option Rx × Str)
  | 0, a, r => (some a, r)
  | n+1, a, c :: r =>
    if c == '*' then (match r with | '?' :: _ => (none, r) | _ => parsePostfix n (.star a) r)
    else if c == '+' then (match r with | '?' :: _ => (none, r) | _ => parsePostfix n (.plus a) r)
    else if c == '?' then (match r with | '?' :: _ => (none, r) | _ => parsePostfix n (.opt a) r)
    else if c == '{' then (none, c :: r)
    else (some a, c :: r)
  | _, a, [] => (some a, [])


mutual
/-- alt := seq ('|' seq)* -/
def parseAlt : Nat → Str → PR Rx
  | 0, _ => .unsupported
  | n+1, s =>
    match parseSeq n s .eps with
    | .ok a ('|' :: r) =>
      (match parseAlt n r with
       | .ok b r' => .ok (.alt a b) r'
       | .invalid => .invalid
       | .unsupported => .unsupported)
    | other => other
/-- seq := rep* (stops at `|`, `)` or end) -/
def parseSeq : Nat → Str → Rx → PR Rx
  | 0, _, _ => .unsupported
  | _, [], acc => .ok acc []
  | n+1, c :: r, acc =>
    if c == '|' || c == ')' then .ok acc (c :: r)
    else
      match parseAtom n (c :: r) with
      | .ok a r' =>
        let (a', r'') := parsePostfix (r'.length + 1) a r'
        (match a' with
         | none => .unsupported
         | some a'' => parseSeq n r'' (.seq acc a''))
      | .invalid => .invalid
      | .unsupported => .unsupported
def parseAtom : Nat → Str → PR Rx
  | 0, _ => .unsupported
  | _, [] => .invalid
  | n+1, c :: r =>
    if c == '(' then
      let r1 := match r with
        | '?' :: ':' :: r' => some r'
        | '?' :: _ => none
        | _ => some r
      match r1 with
      | none => .unsupported
      | some r1 =>
        match parseAlt n r1 with
        | .ok a (')' :: r') => .ok a r'
        | .ok _ _ => .invalid
        | .invalid => .invalid
        | .unsupported => .unsupported
    else if c == '[' then
      match r with
      | '^' :: r' => (match parseClassItems (r'.length + 1) r' [] with
          | .ok items r'' => .ok (.cls true items) r''
          | .invalid => .invalid | .unsupported => .unsupported)
      | _ => (match parseClassItems (r.length + 1) r [] with
          | .ok items r'' => .ok (.cls false items) r''
          | .invalid => .invalid | .unsupported => .unsupported)
    else if c == '.' then .ok .any r
    else if c == '^' then .ok .bol r
    else if c == '$' then .ok .eol r
    else if c == '\\' then
      match r with
      | e :: r' => if isMeta e || e == '/' then .ok (.chr e) r' else .unsupported
      | [] => .invalid
    else if c == '*' || c == '+' || c == '?' then .invalid
    else if c == '{' || c == '}' || c == ']' then .unsupported
    else .ok (.chr c) r
end

inductive Parsed where | ok (r : Rx) | invalid | unsupported
  deriving Inhabited

/-- deepest nesting of parentheses (escapes ignored: an over-estimate is harmless) -/
def nestDepth (p : Str) : Nat :=
  (p.foldl (fun (acc : Nat × Nat) c => if c == '(' then (acc.1 + 1, max acc.2 (acc.1 + 1)) else if c == ')' then (acc.1 - 1, acc.2) else acc) (0, 0)).2

/-- the dialect: groups nested deeper than 100 are left to the engine (the `regex` crate has a nesting limit of its own, 250) -/
def parse (p : Str) : Parsed :=
  if nestDepth p > 100 then .unsupported else
  match parseAlt (4 * p.length + 8) p with
  | .ok r [] => .ok r
  | .ok _ (')' :: _) => .invalid
  | .ok _ _ => .unsupported
  | .invalid => .invalid
  | .unsupported => .unsupported

/-- does the class `[…]` / `[^…]` contain `c` -/
def inItem (c : Char) (it : Char × Char) : Bool := it.1 ≤ c && c ≤ it.2
def clsMatch (neg : Bool) (items : List (Char × Char)) (c : Char) : Bool := (items.any (inItem c)) != neg

def dedupNat (l : List Nat) : List Nat := l.foldl (fun acc x => if acc.contains x then acc else acc ++ [x]) []

/-- all end positions of matches of `r` starting at `pos` -/
def ends (inp : Array Char) : Nat → Rx → Nat → List Nat
  | 0, _, _ => []
  | _, .eps, pos => [pos]
  | _, .chr c, pos => if h : pos < inp.size then (if inp[pos] = c then [pos + 1] else []) else []
  | _, .any, pos => if h : pos < inp.size then (if inp[pos] ≠ '\n' then [pos + 1] else []) else []
  | _, .cls neg items, pos =>
    if h : pos < inp.size then (if clsMatch neg items inp[pos] then [pos + 1] else []) else []
  | n+1, .seq a b, pos => dedupNat ((ends inp n a pos).flatMap fun p => ends inp n b p)
  | n+1, .alt a b, pos => dedupNat (ends inp n a pos ++ ends inp n b pos)
  | n+1, .opt a, pos => dedupNat (pos :: ends inp n a pos)
  | n+1, .star a, pos =>
    -- pos, or one non-empty iteration followed by star again
    dedupNat (pos :: ((ends inp n a pos).filter (· > pos)).flatMap fun p => ends inp n (.star a) p)
  | n+1, .plus a, pos =>
    dedupNat ((ends inp n a pos).flatMap fun p => ends inp n (.star a) p)
  | _, .bol, pos => if pos = 0 then [pos] else []
  | _, .eol, pos => if pos = inp.size then [pos] else []

def rxSize : Rx → Nat
  | .seq a b | .alt a b => rxSize a + rxSize b + 1
  | .star a | .plus a | .opt a => rxSize a + 1
  | _ => 1

/-- `Regex::is_match`: some match somewhere -/
def isMatch (r : Rx) (s : Str) : Bool :=
  let inp := s.toArray
  let fuel := (rxSize r + 2) * (s.length + 2) + 8
  (List.range (s.length + 1)).any fun i => !(ends inp fuel r i).isEmpty

/-- what `^(?:p)$` denotes when `p` denotes `r` -/
def anchored (r : Rx) : Rx := .seq (.seq (.seq .eps .bol) r) .eol

inductive Verdict where | yes | no | unsupported
  deriving Repr, DecidableEq

/-- model of `regex(lhs, rhs, substr)` on the subject and the pattern (a literal pattern has already lost the doubling of its
backslashes, `toPatD`): the pattern ITSELF has to be a regular expression – the anchoring wrapper of `match` cannot rescue
`a)|(b` –, `match` then anchors it, `search` does not; an invalid pattern gives false -/
def regexFn (s p : Str) (substr : Bool) : Verdict :=
  match parse p with
  | .ok r => if isMatch (if substr then r else anchored r) s then .yes else .no
  | .invalid => .no
  | .unsupported => .unsupported

end Re
end JP
