import JsonPathVerif.Parser
import JsonPathVerif.Eval
/-! Model of `Queryable::reference` / `reference_mut` for `serde_json::Value` after the repair
(walk over name/index steps). -/
namespace JP

inductive PStep where | name (k : Str) | index (i : Nat)

/-- `path_steps` -/
def pathSteps : List Segment → Option (List PStep)
  | [] => some []
  | .selector (.name raw) :: r => (pathSteps r).map (PStep.name (trimMatches '\'' raw) :: ·)
  | .selector (.index i) :: r => if i ≥ 0 then (pathSteps r).map (PStep.index i.toNat :: ·) else none
  | _ => none

def walk : Json → Loc → List PStep → Option (Loc × Json)
  | j, l, [] => some (l, j)
  | .obj kvs, l, .name k :: r => (lookup k kvs).bind fun v => walk v (l ++ [.key k]) r
  | .arr xs, l, .index i :: r => (xs[i]?).bind fun v => walk v (l ++ [.idx i]) r
  | _, _, _ => none

def reference (d : Json) (path : Str) : Option (Loc × Json) :=
  match parseJsonPath path with
  | .ok segs => (pathSteps segs).bind (walk d [])
  | .error _ => none

def setMember (k : Str) (f : Json → Option Json) : List (Str × Json) → Option (List (Str × Json))
  | [] => none
  | (k', v) :: kvs => if k' == k then (f v).map fun v' => (k', v') :: kvs else (setMember k f kvs).map ((k', v) :: ·)

def setElem (i : Nat) (f : Json → Option Json) : List Json → Option (List Json)
  | [] => none
  | x :: xs => match i with
    | 0 => (f x).map (· :: xs)
    | i+1 => (setElem i f xs).map (x :: ·)

/-- document after `*reference_mut(path)? = v` -/
def setAt (v : Json) : Json → List PStep → Option Json
  | _, [] => some v
  | .obj kvs, .name k :: r => (setMember k (fun x => setAt v x r) kvs).map Json.obj
  | .arr xs, .index i :: r => (setElem i (fun x => setAt v x r) xs).map Json.arr
  | _, _ => none

def referenceSet (d : Json) (path : Str) (v : Json) : Option Json :=
  match parseJsonPath path with
  | .ok segs => (pathSteps segs).bind (setAt v d)
  | .error _ => none

end JP
