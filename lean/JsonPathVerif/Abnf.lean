import JsonPathVerif.Ast
/-! RFC 9535 Appendix A as list-of-successes combinators (prototype). Lexical rules are greedy
functions (complete here because no token that may follow them can start with a character they
accept); every choice between ABNF alternatives keeps all successes. Output: the same AST types
as the implementation (names and string literals raw). -/
namespace JP
namespace Abnf

abbrev LP (α : Type) := Str → List (α × Str)

def ret {α} (a : α) : LP α := fun s => [(a, s)]
def fail {α} : LP α := fun _ => []
def bind {α β} (p : LP α) (f : α → LP β) : LP β := fun s => (p s).flatMap fun (a, r) => f a r
def alt {α} (p q : LP α) : LP α := fun s => p s ++ q s
def map {α β} (f : α → β) (p : LP α) : LP β := fun s => (p s).map fun (a, r) => (f a, r)
instance : Monad LP where
  pure := ret
  bind := bind
infixr:60 " <|>> " => alt

def isB (c : Char) : Bool := c == ' ' || c == '\t' || c == '\n' || c == '\r'
def S : LP Unit := fun s => [((), s.dropWhile isB)]
def ch (c : Char) : LP Unit := fun s => match s with | x :: r => if x == c then [((), r)] else [] | [] => []
def lit (cs : Str) : LP Unit := fun s => if cs.isPrefixOf s then [((), s.drop cs.length)] else []
def opt {α} (p : LP α) : LP (Option α) := (map some p) <|>> ret none

def isDigit (c : Char) := '0' ≤ c && c ≤ '9'
def isDigit1 (c : Char) := '1' ≤ c && c ≤ '9'
def isAlpha (c : Char) := ('a' ≤ c && c ≤ 'z') || ('A' ≤ c && c ≤ 'Z')
def isLc (c : Char) := 'a' ≤ c && c ≤ 'z'
def isHex (c : Char) := isDigit c || ('a' ≤ c && c ≤ 'f') || ('A' ≤ c && c ≤ 'F')
def isNameFirst (c : Char) := isAlpha c || c == '_' || (0x80 ≤ c.toNat && c.toNat ≤ 0xD7FF) || (0xE000 ≤ c.toNat && c.toNat ≤ 0x10FFFF)
def isNameChar (c : Char) := isNameFirst c || isDigit c
def isUnescaped (c : Char) :=
  let n := c.toNat
  (0x20 ≤ n && n ≤ 0x21) || (0x23 ≤ n && n ≤ 0x26) || (0x28 ≤ n && n ≤ 0x5B) || (0x5D ≤ n && n ≤ 0xD7FF) || (0xE000 ≤ n && n ≤ 0x10FFFF)

/-- int = "0" / (["-"] DIGIT1 *DIGIT); returns the lexeme -/
def intLex : LP Str := fun s =>
  match s with
  | '0' :: r => [(['0'], r)]
  | '-' :: d :: r => if isDigit1 d then [('-' :: d :: r.takeWhile isDigit, r.dropWhile isDigit)] else []
  | d :: r => if isDigit1 d then [(d :: r.takeWhile isDigit, r.dropWhile isDigit)] else []
  | [] => []

def digitsVal (ds : Str) : Nat := ds.foldl (fun acc c => acc * 10 + (c.toNat - '0'.toNat)) 0
def intVal (lx : Str) : Int := match lx with | '-' :: ds => -(digitsVal ds : Int) | ds => digitsVal ds

/-- number = (int / "-0") [frac] [exp]; returns Literal with exact value -/
def numberLex : LP Literal := fun s =>
  let heads : List (Str × Str) :=
    (intLex s) ++ (match s with | '-' :: '0' :: r => [(['-', '0'], r)] | _ => [])
  heads.flatMap fun (ip, r) =>
    let (fp, r1, hasFrac) := match r with
      | '.' :: d :: r' => if isDigit d then ((d :: r'.takeWhile isDigit), r'.dropWhile isDigit, true) else ([], r, false)
      | _ => ([], r, false)
    let (ex, r2, hasExp) : Int × Str × Bool := match r1 with
      | e :: r' =>
        if e == 'e' || e == 'E' then
          let (neg, ds) := match r' with | '-' :: ds => (true, ds) | '+' :: ds => (false, ds) | ds => (false, ds)
          let dd := ds.takeWhile isDigit
          if dd.isEmpty then (0, r1, false) else ((if neg then -(digitsVal dd : Int) else digitsVal dd), ds.dropWhile isDigit, true)
        else (0, r1, false)
      | [] => (0, r1, false)
    if !hasFrac && !hasExp then [(Literal.int (intVal ip), r2)]
    else
      let neg := ip.head? == some '-'
      let ipd := if neg then ip.drop 1 else ip
      let mant : Nat := digitsVal (ipd ++ fp)
      let e10 : Int := ex - fp.length
      let (n, d) : Nat × Nat :=
        if mant == 0 then (0, 1)
        else if e10 > 5000 then (1, 0)          -- beyond f64: infinity marker (denominator 0), outside the number model
        else if e10 < -5000 then (0, 1)
        else if e10 ≥ 0 then (mant * 10 ^ e10.toNat, 1) else (mant, 10 ^ (-e10).toNat)
      [(Literal.float (if neg then -(n : Int) else n) d, r2)]

/-- one escape after the backslash; returns consumed length or none -/
def escLen (q : Char) : Str → Option Nat
  | c :: r =>
    if c == 'b' || c == 'f' || c == 'n' || c == 'r' || c == 't' || c == '/' || c == '\\' || c == q then some 1
    else if c == 'u' then
      match r with
      | a :: b :: c2 :: d :: r' =>
        if !(isHex a && isHex b && isHex c2 && isHex d) then none else
        let up (x : Char) := x.toUpper
        let hi := up a == 'D' && (up b == '8' || up b == '9' || up b == 'A' || up b == 'B')
        let lo := up a == 'D' && (up b == 'C' || up b == 'D' || up b == 'E' || up b == 'F')
        if lo then none
        else if hi then
          match r' with
          | '\\' :: 'u' :: a2 :: b2 :: c3 :: d2 :: _ =>
            if isHex a2 && isHex b2 && isHex c3 && isHex d2 && up a2 == 'D' && (up b2 == 'C' || up b2 == 'D' || up b2 == 'E' || up b2 == 'F') then some 11 else none
          | _ => none
        else some 5
      | _ => none
    else none
  | [] => none

/-- string-literal; returns the raw lexeme including quotes -/
def stringLex : LP Str := fun s =>
  match s with
  | q :: r =>
    if q != '\'' && q != '"' then [] else
    let other := if q == '\'' then '"' else '\''
    let rec go (fuel : Nat) (acc : Str) (r : Str) : List (Str × Str) :=
      match fuel with
      | 0 => []
      | fuel+1 =>
      match r with
      | [] => []
      | c :: r' =>
        if c == q then [((q :: acc.reverse) ++ [q], r')]
        else if c == '\\' then
          match escLen q r' with
          | some n => go fuel ((r'.take n).reverse ++ ('\\' :: acc)) (r'.drop n)
          | none => []
        else if isUnescaped c || c == other then go fuel (c :: acc) r'
        else []
    go (r.length + 1) [] r
  | [] => []

def nameShort : LP Str := fun s =>
  match s with
  | c :: r => if isNameFirst c then [(c :: r.takeWhile isNameChar, r.dropWhile isNameChar)] else []
  | [] => []

def fnName : LP Str := fun s =>
  match s with
  | c :: r => if isLc c then
      let p := fun x => isLc x || x == '_' || isDigit x
      [(c :: r.takeWhile p, r.dropWhile p)] else []
  | [] => []

def literalP : LP Literal :=
  numberLex <|>> (map (fun raw => Literal.str ((raw.drop 1).dropLast)) stringLex)
  <|>> (map (fun _ => Literal.bool true) (lit "true".toList))
  <|>> (map (fun _ => Literal.bool false) (lit "false".toList))
  <|>> (map (fun _ => Literal.null) (lit "null".toList))

def cmpOp : LP CmpOp :=
  (map (fun _ => CmpOp.eq) (lit "==".toList)) <|>> (map (fun _ => CmpOp.ne) (lit "!=".toList))
  <|>> (map (fun _ => CmpOp.le) (lit "<=".toList)) <|>> (map (fun _ => CmpOp.ge) (lit ">=".toList))
  <|>> (map (fun _ => CmpOp.lt) (lit "<".toList)) <|>> (map (fun _ => CmpOp.gt) (lit ">".toList))

def dedup {α} (l : List (α × Str)) : List (α × Str) :=
  l.foldl (fun acc x => if acc.any (fun y => y.2.length == x.2.length) then acc else acc ++ [x]) []

/-- does `r`, after optional blanks, start with one of the given tokens (or is it empty, if `eof`)? -/
def startsAfterS (toks : List Str) (eof : Bool) (r : Str) : Bool :=
  let r' := r.dropWhile isB
  (eof && r'.isEmpty) || toks.any fun t => t.isPrefixOf r'
/-- results of a repetition `*(S sep S item)`: only a result whose rest starts with a token that may FOLLOW the repetition in
RFC 9535 can ever be completed (the follow sets below are supersets of the exact ones and never contain the repetition's own
separator); the others are dropped, and what remains is deduplicated by rest -/
def prune {α} (follow : List Str) (eof : Bool) (l : List (α × Str)) : List (α × Str) :=
  dedup (l.filter fun x => startsAfterS follow eof x.2)
def followSegments : List Str := [[']'], [')'], [','], "&&".toList, "||".toList]
def followAnd : List Str := [[']'], [')'], [','], "||".toList]
def followOr : List Str := [[']'], [')'], [',']]
def followSingular : List Str := ["==".toList, "!=".toList, ['<'], ['>'], [']'], [')'], [','], "&&".toList, "||".toList]

def thenP {α} (p : LP Unit) (q : LP α) : LP α := bind p fun _ => q
def optS (b : Bool) : LP Unit := if b then S else ret ()

/-- singular-query-segments = *(S (name-segment / index-segment)); `lenient` allows S inside brackets -/
def sqSegs (lenient : Bool) : Nat → LP (List SQSeg)
  | 0 => ret []
  | fuel+1 => fun s =>
    let one : LP SQSeg := do
      S
      (do ch '['; optS lenient; let n ← stringLex; optS lenient; ch ']'; pure (SQSeg.name n))
      <|>> (do ch '.'; let n ← nameShort; pure (SQSeg.name n))
      <|>> (do ch '['; optS lenient; let i ← intLex; optS lenient; ch ']'; pure (SQSeg.index (intVal i)))
    prune followSingular false (((do let x ← one; let xs ← sqSegs lenient fuel; pure (x :: xs)) <|>> ret []) s)

def classifyFn (nm : Str) (args : List FnArg) : TestFunction :=
  if nm == "length".toList then (match args with | [a] => .length a | _ => .custom ('!' :: nm) args)
  else if nm == "count".toList then (match args with | [a] => .count a | _ => .custom ('!' :: nm) args)
  else if nm == "value".toList then (match args with | [a] => .value a | _ => .custom ('!' :: nm) args)
  else if nm == "match".toList then (match args with | [a, b] => .match a b | _ => .custom ('!' :: nm) args)
  else if nm == "search".toList then (match args with | [a, b] => .search a b | _ => .custom ('!' :: nm) args)
  else .custom nm args

mutual
def segmentsP : Nat → LP (List Segment)
  | 0 => ret []
  | n+1 => fun s => prune followSegments true (((do S; let x ← segmentP n; let xs ← segmentsP n; pure (x :: xs)) <|>> ret []) s)
def segmentP : Nat → LP Segment
  | 0 => fail
  | n+1 =>
    (bracketed n)
    <|>> (thenP (ch '.') ((map (fun _ => Segment.selector .wildcard) (ch '*')) <|>> (map (fun nm => Segment.selector (.name nm)) nameShort)))
    <|>> (thenP (lit "..".toList)
            ((map Segment.descendant (bracketed n))
            <|>> (map (fun _ => Segment.descendant (.selector .wildcard)) (ch '*'))
            <|>> (map (fun nm => Segment.descendant (.selector (.name nm))) nameShort)))
def bracketed : Nat → LP Segment
  | 0 => fail
  | n+1 => do
    ch '['; S
    let s0 ← selectorP n
    let rest ← moreSelectors n
    S; ch ']'
    pure (match rest with | [] => Segment.selector s0 | _ => Segment.selectors (s0 :: rest))
def moreSelectors : Nat → LP (List Selector)
  | 0 => ret []
  | n+1 => fun s => prune [[']']] false (((do S; ch ','; S; let x ← selectorP n; let xs ← moreSelectors n; pure (x :: xs)) <|>> ret []) s)
def selectorP : Nat → LP Selector
  | 0 => fail
  | n+1 =>
    (map Selector.name stringLex)
    <|>> (map (fun _ => Selector.wildcard) (ch '*'))
    <|>> (do -- slice-selector = [start S] ":" S [end S] [":" [S step]]
          let a ← opt (do let i ← intLex; S; pure (intVal i))
          ch ':'; S
          let b ← opt (do let i ← intLex; S; pure (intVal i))
          let c ← opt (do ch ':'; opt (do S; let i ← intLex; pure (intVal i)))
          pure (Selector.slice a b (c.bind id)))
    <|>> (map (fun i => Selector.index (intVal i)) intLex)
    <|>> (do ch '?'; S; let f ← logicalOr n; pure (Selector.filter f))
def logicalOr : Nat → LP Filter
  | 0 => fail
  | n+1 => do
    let a ← logicalAnd n
    let rest ← moreOr n
    pure (match rest with | [] => a | _ => Filter.or (a :: rest))
def moreOr : Nat → LP (List Filter)
  | 0 => ret []
  | n+1 => fun s => prune followOr false (((do S; lit "||".toList; S; let x ← logicalAnd n; let xs ← moreOr n; pure (x :: xs)) <|>> ret []) s)
def logicalAnd : Nat → LP Filter
  | 0 => fail
  | n+1 => do
    let a ← basicExpr n
    let rest ← moreAnd n
    pure (match rest with | [] => Filter.atom a | _ => Filter.and (Filter.atom a :: rest.map Filter.atom))
def moreAnd : Nat → LP (List FilterAtom)
  | 0 => ret []
  | n+1 => fun s => prune followAnd false (((do S; lit "&&".toList; S; let x ← basicExpr n; let xs ← moreAnd n; pure (x :: xs)) <|>> ret []) s)
def basicExpr : Nat → LP FilterAtom
  | 0 => fail
  | n+1 => fun s => dedup ((
    (do let nt ← opt (do ch '!'; S); ch '('; S; let e ← logicalOr n; S; ch ')'; pure (FilterAtom.filter e nt.isSome))
    <|>> (do let l ← comparableP n; S; let op ← cmpOp; S; let r ← comparableP n; pure (FilterAtom.cmp op l r))
    <|>> (do let nt ← opt (do ch '!'; S)
             let t ← (filterQuery n) <|>> (map Test.fn (functionExpr n))
             pure (FilterAtom.test t nt.isSome))) s)
def filterQuery : Nat → LP Test
  | 0 => fail
  | n+1 => (do ch '@'; let ss ← segmentsP n; pure (Test.rel ss)) <|>> (do ch '$'; let ss ← segmentsP n; pure (Test.abs ss))
def comparableP : Nat → LP Comparable
  | 0 => fail
  | n+1 =>
    (map Comparable.lit literalP)
    <|>> (do ch '@'; let ss ← sqSegs true n; pure (Comparable.sq false ss))
    <|>> (do ch '$'; let ss ← sqSegs true n; pure (Comparable.sq true ss))
    <|>> (map Comparable.fn (functionExpr n))
def functionExpr : Nat → LP TestFunction
  | 0 => fail
  | n+1 => do
    let nm ← fnName
    ch '('; S
    let args ← (do let a ← argP n; let as ← moreArgs n; pure (a :: as)) <|>> ret []
    S; ch ')'
    pure (classifyFn nm args)
def moreArgs : Nat → LP (List FnArg)
  | 0 => ret []
  | n+1 => fun s => prune [[')']] false (((do S; ch ','; S; let x ← argP n; let xs ← moreArgs n; pure (x :: xs)) <|>> ret []) s)
def argP : Nat → LP FnArg
  | 0 => fail
  | n+1 => fun s => dedup ((
    (map FnArg.lit literalP)
    <|>> (map FnArg.test (filterQuery n))
    <|>> (map (fun f => FnArg.test (Test.fn f)) (functionExpr n))
    <|>> (map FnArg.filter (logicalOr n))) s)
end

/-- all complete parses of `$ segments` -/
def parseAll (s : Str) : List (List Segment) :=
  let fuel := 6 * (s.length + 2)
  match s with
  | '$' :: r => ((segmentsP fuel r).filter fun x => x.2.isEmpty).map (·.1)
  | _ => []

end Abnf
end JP
