import JsonPathVerif.Ast
namespace JP

/-- exact number: serde_json's int/float split, floats as exact rationals n/d (d>0) -/
inductive Num where
  | int (i : Int)
  | flt (n : Int) (d : Nat)
  deriving Repr, Inhabited

def Num.lt (a b : Num) : Bool :=
  let (an, ad) : Int × Nat := match a with | .int i => (i, 1) | .flt n d => (n, d)
  let (bn, bd) : Int × Nat := match b with | .int i => (i, 1) | .flt n d => (n, d)
  an * bd < bn * ad

/-- |a-b| < 2^-52 on exact values (models `(a-b).abs() < f64::EPSILON`) -/
def Num.epsEq (a b : Num) : Bool :=
  let (an, ad) : Int × Nat := match a with | .int i => (i, 1) | .flt n d => (n, d)
  let (bn, bd) : Int × Nat := match b with | .int i => (i, 1) | .flt n d => (n, d)
  -- |an/ad - bn/bd| < 1/2^52  <=>  |an*bd - bn*ad| * 2^52 < ad*bd
  (an * bd - bn * ad).natAbs * 2 ^ 52 < ad * bd

/-- serde_json `Number` PartialEq: int = int by value, float = float by value, never across -/
def Num.valEq : Num → Num → Bool
  | .int a, .int b => a == b
  | .flt an ad, .flt bn bd => an * bd == bn * ad
  | _, _ => false

inductive Json where
  | null
  | bool (b : Bool)
  | num (n : Num)
  | str (s : Str)
  | arr (xs : List Json)
  | obj (kvs : List (Str × Json))
  deriving Repr, Inhabited

mutual
def Json.beq : Json → Json → Bool
  | .null, .null => true
  | .bool a, .bool b => a == b
  | .num a, .num b => a.valEq b
  | .str a, .str b => a == b
  | .arr a, .arr b => Json.beqList a b
  | .obj a, .obj b => Json.beqMembers a b
  | _, _ => false
def Json.beqList : List Json → List Json → Bool
  | [], [] => true
  | x :: xs, y :: ys => x.beq y && Json.beqList xs ys
  | _, _ => false
def Json.beqMembers : List (Str × Json) → List (Str × Json) → Bool
  | [], [] => true
  | (k, x) :: xs, (k', y) :: ys => k == k' && x.beq y && Json.beqMembers xs ys
  | _, _ => false
end

inductive Step where | key (k : Str) | idx (i : Nat)
  deriving Repr, Inhabited, DecidableEq
abbrev Loc := List Step

def lookup (k : Str) : List (Str × Json) → Option Json
  | [] => none
  | (k', v) :: kvs => if k' == k then some v else lookup k kvs

end JP
