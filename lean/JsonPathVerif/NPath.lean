import JsonPathVerif.Spec
/-! C03 (b): the Normalized Path of RFC 9535 2.7 (`Spec.npath`) identifies the node: a decoder `parseNPath` is a left inverse
of `npath` for every location (arbitrary member names: quotes, backslashes, control characters, any Unicode), hence `npath` is
injective – two results have the same path exactly when they are the same node. -/
namespace JP
namespace NPath
open Spec

def digitsValue (ds : List Char) : Nat := ds.foldl (fun acc c => acc * 10 + (c.toNat - 48)) 0
theorem dv_snoc (ds : List Char) (c : Char) : digitsValue (ds ++ [c]) = digitsValue ds * 10 + (c.toNat - 48) := by
  simp [digitsValue, List.foldl_append]
theorem digitChar_val : ∀ d, d < 10 → (Nat.digitChar d).toNat - 48 = d := by decide
theorem dv_toDigits (n : Nat) : digitsValue (Nat.toDigits 10 n) = n := by
  induction n using Nat.strongRecOn with
  | _ n ih =>
    by_cases h : n < 10
    · rw [Nat.toDigits_of_lt_base h]; simp [digitsValue, digitChar_val n h]
    · rw [Nat.toDigits_of_base_le (by decide) (by omega), dv_snoc, ih (n / 10) (by omega), digitChar_val _ (Nat.mod_lt _ (by decide))]
      omega

theorem natStr_eq (n : Nat) : natStr n = Nat.toDigits 10 n := by simp [natStr]
theorem natStr_digits (n : Nat) : ∀ c ∈ natStr n, c.isDigit = true := by
  intro c hc; rw [natStr_eq] at hc; exact Nat.isDigit_of_mem_toDigits (by decide) (by decide) hc
theorem natStr_ne_nil (n : Nat) : natStr n ≠ [] := by rw [natStr_eq]; exact Nat.toDigits_ne_nil

theorem takeWhile_append_of_all {α} (p : α → Bool) : ∀ (l : List α) (x : α) (t : List α), (∀ a ∈ l, p a = true) → p x = false →
    (l ++ x :: t).takeWhile p = l ∧ (l ++ x :: t).dropWhile p = x :: t
  | [], x, t, _, hx => by simp [List.takeWhile_cons, List.dropWhile_cons, hx]
  | a :: l, x, t, h, hx => by
    have ha : p a = true := h a (by simp)
    obtain ⟨h1, h2⟩ := takeWhile_append_of_all p l x t (fun b hb => h b (List.mem_cons_of_mem _ hb)) hx
    simp [List.takeWhile_cons, List.dropWhile_cons, ha, h1, h2]

/-- `[i]` -/
def decIdx (s : Str) : Option (Nat × Str) :=
  let ds := s.takeWhile Char.isDigit
  match s.dropWhile Char.isDigit with
  | ']' :: t => if ds.isEmpty then none else some (digitsValue ds, t)
  | _ => none

theorem decIdx_natStr (i : Nat) (t : Str) : decIdx (natStr i ++ ']' :: t) = some (i, t) := by
  obtain ⟨h1, h2⟩ := takeWhile_append_of_all Char.isDigit (natStr i) ']' t (natStr_digits i) (by decide)
  unfold decIdx
  simp only [h1, h2]
  have : (natStr i).isEmpty = false := by
    cases h : natStr i with
    | nil => exact absurd h (natStr_ne_nil i)
    | cons _ _ => rfl
  simp [this, natStr_eq, dv_toDigits]

def hexVal' (c : Char) : Nat := if c.toNat < 58 then c.toNat - 48 else c.toNat - 87

/-- one escaped character of a normalized name (after the opening quote); `none` at the closing quote or on malformed text -/
def decChar : Str → Option (Char × Str)
  | '\\' :: '\'' :: t => some ('\'', t)
  | '\\' :: '\\' :: t => some ('\\', t)
  | '\\' :: 'b' :: t => some (Char.ofNat 8, t)
  | '\\' :: 'f' :: t => some (Char.ofNat 12, t)
  | '\\' :: 'n' :: t => some ('\n', t)
  | '\\' :: 'r' :: t => some ('\r', t)
  | '\\' :: 't' :: t => some ('\t', t)
  | '\\' :: 'u' :: '0' :: '0' :: x :: y :: t => some (Char.ofNat (hexVal' x * 16 + hexVal' y), t)
  | '\\' :: _ => none
  | '\'' :: _ => none
  | c :: t => some (c, t)
  | [] => none

theorem hexVal_hexDigit : ∀ n, n < 16 → hexVal' (hexDigit n) = n := by decide

theorem ofNat_toNat (c : Char) : Char.ofNat c.toNat = c := Char.ofNat_toNat c

theorem decChar_esc (c : Char) (t : Str) : decChar (escChar c ++ t) = some (c, t) := by
  unfold escChar
  by_cases h1 : c = '\''
  · subst h1; rfl
  by_cases h2 : c = '\\'
  · subst h2; rfl
  have e1 : (c == '\'') = false := by simpa using h1
  have e2 : (c == '\\') = false := by simpa using h2
  simp only [e1, e2, Bool.false_eq_true, if_false]
  by_cases h3 : c.toNat = 8
  · have : c = Char.ofNat 8 := by rw [← h3, ofNat_toNat]
    subst this; rfl
  by_cases h4 : c.toNat = 12
  · have : c = Char.ofNat 12 := by rw [← h4, ofNat_toNat]
    subst this; rfl
  by_cases h5 : c = '\n'
  · subst h5; rfl
  by_cases h6 : c = '\r'
  · subst h6; rfl
  by_cases h7 : c = '\t'
  · subst h7; rfl
  have e3 : (c.toNat == 8) = false := by simpa using h3
  have e4 : (c.toNat == 12) = false := by simpa using h4
  have e5 : (c == '\n') = false := by simpa using h5
  have e6 : (c == '\r') = false := by simpa using h6
  have e7 : (c == '\t') = false := by simpa using h7
  simp only [e3, e4, e5, e6, e7, Bool.false_eq_true, if_false]
  by_cases h8 : c.toNat < 0x20
  · simp only [h8, decide_true, if_true, List.cons_append, List.nil_append, decChar]
    have hd : c.toNat / 16 < 16 := by omega
    have hm : c.toNat % 16 < 16 := Nat.mod_lt _ (by decide)
    rw [hexVal_hexDigit _ hd, hexVal_hexDigit _ hm]
    have : c.toNat / 16 * 16 + c.toNat % 16 = c.toNat := by omega
    rw [this, ofNat_toNat]
  · simp only [h8, decide_false, Bool.false_eq_true, if_false, List.cons_append, List.nil_append]
    -- an ordinary character: not a quote, not a backslash
    unfold decChar
    split <;> simp_all

/-- `['name']`: characters until the closing quote -/
def decKey : Nat → Str → Option (Str × Str)
  | 0, _ => none
  | fuel+1, s => match s with
    | '\'' :: ']' :: t => some ([], t)
    | _ => match decChar s with
      | some (c, t) => (decKey fuel t).map fun kt => (c :: kt.1, kt.2)
      | none => none

theorem decKey_end (fuel : Nat) (t : Str) : decKey (fuel+1) ('\'' :: ']' :: t) = some ([], t) := rfl
theorem decKey_step (fuel : Nat) (x : Char) (r : Str) (hx : x ≠ '\'') :
    decKey (fuel+1) (x :: r) = match decChar (x :: r) with
      | some (c, t) => (decKey fuel t).map fun kt => (c :: kt.1, kt.2)
      | none => none := by
  rw [decKey]
  intro t h; simp at h; exact hx h.1

theorem escChar_ne_nil (c : Char) : escChar c ≠ [] := by
  unfold escChar; repeat' split
  all_goals simp

theorem escChar_head (c : Char) : ∀ x t, escChar c = x :: t → x ≠ '\'' := by
  intro x t h
  unfold escChar at h
  by_cases h1 : c = '\''
  · subst h1; simp at h; rw [← h.1]; decide
  · have e1 : (c == '\'') = false := by simpa using h1
    simp only [e1, Bool.false_eq_true, if_false] at h
    repeat' split at h
    all_goals (simp at h; try (rw [← h.1]; first | decide | exact h1))

theorem length_le_flatMap_esc : ∀ (k : Str), k.length ≤ (k.flatMap escChar).length
  | [] => by simp
  | c :: k => by
    have := length_le_flatMap_esc k
    cases he : escChar c with
    | nil => exact absurd he (escChar_ne_nil c)
    | cons _ _ => simp only [List.flatMap_cons, he, List.length_append, List.length_cons]; omega

theorem decKey_esc : ∀ (k : Str) (t : Str) (fuel : Nat), k.length < fuel →
    decKey fuel (k.flatMap escChar ++ '\'' :: ']' :: t) = some (k, t)
  | [], t, fuel+1, _ => by simp [decKey_end]
  | c :: k, t, fuel+1, h => by
    have ih := decKey_esc k t fuel (by simp at h; omega)
    simp only [List.flatMap_cons, List.append_assoc]
    cases he : escChar c with
    | nil => exact absurd he (escChar_ne_nil c)
    | cons x xs =>
      have hx := escChar_head c x xs he
      have hd := decChar_esc c (k.flatMap escChar ++ '\'' :: ']' :: t)
      rw [he] at hd
      simp only [List.cons_append] at hd ⊢
      rw [decKey_step fuel x _ hx, hd]
      simp [ih]

/-- the text of one step of a Normalized Path -/
def stepStr : Step → Str
  | .key k => ['[', '\''] ++ k.flatMap escChar ++ ['\'', ']']
  | .idx i => ['['] ++ natStr i ++ [']']

theorem npath_eq (l : Loc) : npath l = '$' :: l.flatMap stepStr := by
  unfold npath
  congr 2

def decSteps : Nat → Str → Option Loc
  | 0, _ => none
  | fuel+1, s => match s with
    | [] => some []
    | '[' :: '\'' :: r => (match decKey (r.length + 1) r with
      | some (k, t) => (decSteps fuel t).map (Step.key k :: ·)
      | none => none)
    | '[' :: r => (match decIdx r with
      | some (i, t) => (decSteps fuel t).map (Step.idx i :: ·)
      | none => none)
    | _ => none

def parseNPath : Str → Option Loc
  | '$' :: s => decSteps (s.length + 1) s
  | _ => none

theorem decSteps_nil (fuel : Nat) : decSteps (fuel+1) [] = some [] := rfl
theorem decSteps_key (fuel : Nat) (r : Str) : decSteps (fuel+1) ('[' :: '\'' :: r) =
    (match decKey (r.length + 1) r with
      | some (k, t) => (decSteps fuel t).map (Step.key k :: ·)
      | none => none) := rfl
theorem decSteps_idx (fuel : Nat) (x : Char) (r : Str) (hx : x ≠ '\'') : decSteps (fuel+1) ('[' :: x :: r) =
    (match decIdx (x :: r) with
      | some (i, t) => (decSteps fuel t).map (Step.idx i :: ·)
      | none => none) := by
  rw [decSteps]
  intro r1 h; simp at h; exact hx h.1

theorem natStr_head_ne_quote (i : Nat) (x : Char) (t : Str) (h : natStr i = x :: t) : x ≠ '\'' := by
  have := natStr_digits i x (by rw [h]; simp)
  intro e; subst e; revert this; decide

theorem length_le_flatMap_step : ∀ (l : Loc), l.length ≤ (l.flatMap stepStr).length
  | [] => by simp
  | s :: l => by
    have := length_le_flatMap_step l
    cases s <;> simp only [List.flatMap_cons, stepStr, List.length_append, List.length_cons, List.length_nil] <;> omega

theorem decSteps_flatMap : ∀ (l : Loc) (fuel : Nat), l.length < fuel → decSteps fuel (l.flatMap stepStr) = some l
  | [], fuel+1, _ => rfl
  | .key k :: l, fuel+1, h => by
    have ih := decSteps_flatMap l fuel (by simp at h; omega)
    simp only [List.flatMap_cons, stepStr, List.cons_append, List.nil_append, List.append_assoc]
    rw [decSteps_key]
    have hk := decKey_esc k (l.flatMap stepStr) ((k.flatMap escChar ++ '\'' :: ']' :: l.flatMap stepStr).length + 1) (by
      have := length_le_flatMap_esc k
      simp only [List.length_append, List.length_cons]; omega)
    rw [hk]
    simp [ih]
  | .idx i :: l, fuel+1, h => by
    have ih := decSteps_flatMap l fuel (by simp at h; omega)
    simp only [List.flatMap_cons, stepStr, List.cons_append, List.nil_append, List.append_assoc]
    cases hn : natStr i with
    | nil => exact absurd hn (natStr_ne_nil i)
    | cons x xs =>
      have hx := natStr_head_ne_quote i x xs hn
      have hd := decIdx_natStr i (l.flatMap stepStr)
      rw [hn] at hd
      simp only [List.cons_append] at hd ⊢
      rw [decSteps_idx fuel x _ hx, hd]
      simp [ih]

/-- the decoder inverts `npath` -/
theorem parseNPath_npath (l : Loc) : parseNPath (npath l) = some l := by
  rw [npath_eq]
  unfold parseNPath
  exact decSteps_flatMap l _ (by have := length_le_flatMap_step l; omega)

/-- C03 (b): two nodes have the same Normalized Path exactly when they are the same node -/
theorem npath_injective (l₁ l₂ : Loc) (h : npath l₁ = npath l₂) : l₁ = l₂ := by
  have h1 := parseNPath_npath l₁
  rw [h, parseNPath_npath l₂] at h1
  exact (Option.some.inj h1).symm

end NPath
end JP
