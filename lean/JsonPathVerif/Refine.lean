import JsonPathVerif.Compare
/-! Main refinement (prototype, fixed-tree model): for queries whose names/literals are escape-free
and whose function calls are well-typed, the model of the Rust evaluator computes the RFC nodelist
(up to the order inside multi-selector segments) and the RFC truth value of every filter. -/
namespace JP
open List

def okLit : Literal → Prop
  | .str s => '\\' ∉ s
  | _ => True

def okSQ : SQSeg → Prop
  | .name raw => ∃ k, PlainName raw k
  | .index _ => True

mutual
def okSeg : Segment → Prop
  | .descendant (.descendant _) => False
  | .descendant (.selector s) => okSel s
  | .descendant (.selectors ss) => ss ≠ [] ∧ okSels ss
  | .selector s => okSel s
  | .selectors ss => ss ≠ [] ∧ okSels ss
def okSels : List Selector → Prop
  | [] => True
  | s :: ss => okSel s ∧ okSels ss
def okSel : Selector → Prop
  | .name raw => ∃ k, PlainName raw k
  | .filter f => okFlt f
  | _ => True
def okSegs : List Segment → Prop
  | [] => True
  | s :: ss => okSeg s ∧ okSegs ss
def okFlt : Filter → Prop
  | .or fs => okFlts fs
  | .and fs => okFlts fs
  | .atom a => okAtom a
def okFlts : List Filter → Prop
  | [] => True
  | f :: fs => okFlt f ∧ okFlts fs
def okAtom : FilterAtom → Prop
  | .filter e _ => okFlt e
  | .test t _ => okTest t
  | .cmp _ l r => okCmp l ∧ okCmp r
def okTest : Test → Prop
  | .rel ss => okSegs ss
  | .abs ss => okSegs ss
  | .fn f => okFnLogical f
def okCmp : Comparable → Prop
  | .lit l => okLit l
  | .sq _ segs => ∀ s ∈ segs, okSQ s
  | .fn f => okFnValue f
def okFnValue : TestFunction → Prop
  | .length a => okArgValue a
  | .count a => okArgNodes a
  | .value a => okArgNodes a
  | _ => False
def okFnLogical : TestFunction → Prop
  | .match a b => okArgValue a ∧ okArgValue b
  | .search a b => okArgValue a ∧ okArgValue b
  | .custom _ args => okArgsCustom args
  | _ => False
def okArgValue : FnArg → Prop
  | .lit l => okLit l
  | .test (.rel ss) => Spec.isSingularSegs ss = true ∧ okSegs ss
  | .test (.abs ss) => Spec.isSingularSegs ss = true ∧ okSegs ss
  | .test (.fn f) => okFnValue f
  | .filter _ => False
def okArgNodes : FnArg → Prop
  | .test (.rel ss) => okSegs ss
  | .test (.abs ss) => okSegs ss
  | _ => False
def okArgsCustom : List FnArg → Prop
  | [] => True
  | a :: as => okArgValue a ∧ okArgsCustom as
end

@[simp] theorem boolOf_dbool (b : Bool) : boolOf (dbool b) = b := rfl

def dataNode : Data → Option Spec.Node
  | .ref p => some (toN p)
  | _ => none

/-- states reachable by name/index steps from a single node -/
def Data.sqShape : Data → Prop
  | .ref _ => True
  | .nothing => True
  | _ => False

theorem sqShape_of_single (d : Data) (hs : d.shaped) (h : d.toVec.length ≤ 1) (hr : ∀ ps, d ≠ .refs ps) : d.sqShape := by
  cases d <;> simp_all [Data.sqShape]

theorem processIndex_sq (i : Int) (p : Ptr) : (processIndex i p).sqShape := by
  unfold processIndex
  split
  · split
    · split
      · trivial
      · split <;> trivial
    · dsimp only
      split
      · trivial
      · split <;> trivial
  · trivial

theorem processKey_sq (raw : Str) (p : Ptr) : (processKey raw p).sqShape := by
  unfold processKey; split <;> trivial

theorem dataNode_of_sq (d : Data) (h : d.sqShape) : dataNode d = (d.toVec.map toN).head? := by
  cases d <;> simp_all [Data.sqShape, dataNode, Data.toVec]

theorem processSQSeg_spec (E : Engine) (root : Json) (d : Data) (s : SQSeg) (hs : okSQ s) (hd : d.sqShape) :
    (processSQSeg d s).sqShape ∧ dataNode (processSQSeg d s) = Spec.sqStep (dataNode d) s := by
  cases s with
  | index i =>
    cases d with
    | ref p =>
      refine ⟨?_, ?_⟩
      · simpa [processSQSeg, Data.flatMap] using processIndex_sq i p
      · simp only [processSQSeg, Data.flatMap]
        rw [dataNode_of_sq _ (processIndex_sq i p), processIndex_spec E root i p]
        simp [Spec.sel, dataNode, Spec.sqStep]
    | nothing => simp [processSQSeg, Data.flatMap, Data.sqShape, dataNode, Spec.sqStep]
    | refs _ => exact absurd hd (by simp [Data.sqShape])
    | value _ => exact absurd hd (by simp [Data.sqShape])
  | name raw =>
    obtain ⟨k, hk⟩ := hs
    cases d with
    | ref p =>
      refine ⟨?_, ?_⟩
      · simpa [processSQSeg, Data.flatMap] using processKey_sq raw p
      · simp only [processSQSeg, Data.flatMap]
        rw [dataNode_of_sq _ (processKey_sq raw p), processKey_spec hk E root p]
        simp [Spec.sel, dataNode, Spec.sqStep]
    | nothing => simp [processSQSeg, Data.flatMap, Data.sqShape, dataNode, Spec.sqStep]
    | refs _ => exact absurd hd (by simp [Data.sqShape])
    | value _ => exact absurd hd (by simp [Data.sqShape])

theorem singular_spec (E : Engine) (root : Json) : ∀ (segs : List SQSeg) (d : Data), (∀ s ∈ segs, okSQ s) → d.sqShape →
    (segs.foldl processSQSeg d).sqShape ∧ dataNode (segs.foldl processSQSeg d) = segs.foldl Spec.sqStep (dataNode d)
  | [], d, _, hd => by simp [hd]
  | s :: ss, d, hs, hd => by
    obtain ⟨h1, h2⟩ := processSQSeg_spec E root d s (hs s (by simp)) hd
    obtain ⟨h3, h4⟩ := singular_spec E root ss (processSQSeg d s) (fun x hx => hs x (by simp [hx])) h1
    simp only [List.foldl_cons]
    exact ⟨h3, by rw [h4, h2]⟩

theorem dataVal_of_sq (d : Data) (h : d.sqShape) : dataVal d = (dataNode d).map (·.2) := by
  cases d <;> simp_all [Data.sqShape, dataVal, dataNode, toN]

theorem cmpShape_of_sq (d : Data) (h : d.sqShape) : d.cmpShape := by
  cases d <;> simp_all [Data.sqShape, Data.cmpShape]

end JP
