import JsonPathVerif.Paths
import JsonPathVerif.Pointer
/-! C03 (c) and C09 at the AST level.  For a location `l` whose member names need no escaping, `segsOfLoc l` is the AST of its
Normalized Path (`['k']` and `[i]` segments).  Evaluating that AST as a query returns exactly the node at `l` – with `l` as its
location and `Spec.npath l` as its path – or nothing if `l` does not exist; `reference`'s walk over the same AST returns the very
same node.  (What is not proved here is that the PARSER maps the text `Spec.npath l` to `segsOfLoc l`; that link is carried by the
correspondence, which re-queries every reported path and feeds it back to `reference`.) -/
namespace JP
open Spec

def quoted (k : Str) : Str := '\'' :: (k ++ ['\''])

def segsOfLoc : Loc → List Segment
  | [] => []
  | .key k :: l => .selector (.name (quoted k)) :: segsOfLoc l
  | .idx i :: l => .selector (.index i) :: segsOfLoc l

def locSteps : Loc → List PStep
  | [] => []
  | .key k :: l => .name k :: locSteps l
  | .idx i :: l => .index i :: locSteps l

def plainLoc : Loc → Bool
  | [] => true
  | .key k :: l => plainKey k && plainLoc l
  | .idx _ :: l => plainLoc l

/-- the text a step contributes to a Normalized Path when no escaping is needed -/
def stepText : Step → Str
  | .key k => ['['] ++ quoted k ++ [']']
  | .idx i => ['['] ++ natStr i ++ [']']

theorem quote_notin_of_plain (k : Str) (h : plainKey k = true) : '\'' ∉ k ∧ '\\' ∉ k := by
  unfold plainKey at h
  simp only [List.all_eq_true] at h
  constructor <;> intro hm <;> have := h _ hm <;> simp [plainChar] at this

theorem processList_nothing (E : Engine) (root : Json) : ∀ (l : Loc), Segment.processList E root (segsOfLoc l) .nothing = .nothing
  | [] => rfl
  | .key k :: l => by simp [segsOfLoc, Segment.processList, Segment.process, Selector.process, Data.flatMap, processList_nothing E root l]
  | .idx i :: l => by simp [segsOfLoc, Segment.processList, Segment.process, Selector.process, Data.flatMap, processList_nothing E root l]

theorem ptrKey_quoted (v : Json) (loc : Loc) (k path : Str) :
    Ptr.key v loc k path (quoted k) = ⟨loc ++ [.key k], v, path ++ stepText (.key k)⟩ := by
  unfold Ptr.key quoted stepText
  have h1 : (('\'' :: (k ++ ['\''])).head? == some '\'') = true := by simp
  have h2 : (('\'' :: (k ++ ['\''])).getLast? == some '\'') = true := by simp [getLast_q]
  simp [h1, h2, quoted]

/-- evaluating the Normalized-Path AST from any pointer walks exactly along `l` -/
theorem processList_segsOfLoc (E : Engine) (root : Json) : ∀ (l : Loc) (p : Ptr), plainLoc l = true →
    Segment.processList E root (segsOfLoc l) (.ref p) =
      match p.inner.at l with
      | some v => .ref ⟨p.loc ++ l, v, p.path ++ l.flatMap stepText⟩
      | none => .nothing
  | [], p, _ => by simp [segsOfLoc, Segment.processList, Json.at]
  | .key k :: l, p, h => by
    simp only [plainLoc, Bool.and_eq_true] at h
    obtain ⟨hq, hb⟩ := quote_notin_of_plain k h.1
    have hpn : PlainName (quoted k) k := PlainName.quoted '\'' k (.inl rfl) hq hb
    simp only [segsOfLoc, Segment.processList, Segment.process, Selector.process, Data.flatMap]
    unfold processKey
    rw [valueGet_plain hpn]
    cases hi : p.inner with
    | obj kvs =>
      simp only [Json.at]
      cases hl : lookup k kvs with
      | none => simp [processList_nothing]
      | some v =>
        simp only [Option.map_some, Option.bind_some, ptrKey_quoted]
        rw [processList_segsOfLoc E root l _ h.2]
        simp [List.append_assoc]
    | null => simp [Json.at, processList_nothing]
    | bool _ => simp [Json.at, processList_nothing]
    | num _ => simp [Json.at, processList_nothing]
    | str _ => simp [Json.at, processList_nothing]
    | arr _ => simp [Json.at, processList_nothing]
  | .idx i :: l, p, h => by
    simp only [plainLoc] at h
    simp only [segsOfLoc, Segment.processList, Segment.process, Selector.process, Data.flatMap]
    unfold processIndex
    cases hi : p.inner with
    | arr xs =>
      simp only [Json.at]
      have hnn : ((i : Nat) : Int) ≥ 0 := Int.natCast_nonneg i
      simp only [hnn, if_true, Int.toNat_natCast]
      by_cases hge : ((i : Nat) : Int) ≥ (xs.length : Int)
      · have : xs[i]? = none := by apply List.getElem?_eq_none; omega
        simp [hge, this, processList_nothing]
      · simp only [hge, if_false]
        cases hx : xs[i]? with
        | none => simp [processList_nothing]
        | some x =>
          simp only [Option.bind_some]
          rw [processList_segsOfLoc E root l _ h]
          simp [Ptr.idx, stepText, List.append_assoc]
    | null => simp [Json.at, processList_nothing]
    | bool _ => simp [Json.at, processList_nothing]
    | num _ => simp [Json.at, processList_nothing]
    | str _ => simp [Json.at, processList_nothing]
    | obj _ => simp [Json.at, processList_nothing]

theorem npath_plain : ∀ (l : Loc), plainLoc l = true → npath l = '$' :: l.flatMap stepText := by
  intro l h
  unfold npath
  congr 1
  induction l with
  | nil => rfl
  | cons s l ih =>
    cases s with
    | key k =>
      simp only [plainLoc, Bool.and_eq_true] at h
      simpa [List.flatMap_cons, stepText, quoted, flatMap_esc_plain k h.1] using ih h.2
    | idx i =>
      simp only [plainLoc] at h
      simpa [List.flatMap_cons, stepText] using ih h

/-- C03 (c), AST level: the Normalized Path of a node, run as a query, returns exactly that node with that same path;
for a location that does not exist it returns nothing -/
theorem query_of_npath_ast (E : Engine) (d : Json) (l : Loc) (h : plainLoc l = true) :
    jsPathProcess E (segsOfLoc l) d = .ok (match d.at l with | some v => [⟨l, v, npath l⟩] | none => []) := by
  unfold jsPathProcess rootData
  rw [processList_segsOfLoc E d l ⟨[], d, ['$']⟩ h]
  simp only [List.nil_append]
  cases d.at l with
  | none => rfl
  | some v => simp [npath_plain l h]

theorem pathSteps_segsOfLoc : ∀ (l : Loc), plainLoc l = true → pathSteps (segsOfLoc l) = some (locSteps l)
  | [], _ => rfl
  | .key k :: l, h => by
    simp only [plainLoc, Bool.and_eq_true] at h
    obtain ⟨hq, _⟩ := quote_notin_of_plain k h.1
    simp [segsOfLoc, pathSteps, locSteps, pathSteps_segsOfLoc l h.2, quoted, trimMatches_quoted '\'' k hq]
  | .idx i :: l, h => by
    simp only [plainLoc] at h
    simp [segsOfLoc, pathSteps, locSteps, pathSteps_segsOfLoc l h]

theorem walk_locSteps : ∀ (l : Loc) (j : Json) (l0 : Loc), walk j l0 (locSteps l) = (j.at l).map fun v => (l0 ++ l, v)
  | [], j, l0 => by simp [locSteps, walk, Json.at]
  | .key k :: l, j, l0 => by
    cases j <;> simp [locSteps, walk, Json.at]
    rename_i kvs
    cases lookup k kvs <;> simp [walk_locSteps l, List.append_assoc]
  | .idx i :: l, j, l0 => by
    cases j <;> simp [locSteps, walk, Json.at]
    rename_i xs
    cases xs[i]? <;> simp [walk_locSteps l, List.append_assoc]

/-- C09 get law, AST level: `reference`'s walk over the Normalized-Path AST returns the node at `l` (or `None`), i.e. the very node
the query returns -/
theorem reference_of_npath_ast (d : Json) (l : Loc) (h : plainLoc l = true) :
    (pathSteps (segsOfLoc l)).bind (walk d []) = (d.at l).map fun v => (l, v) := by
  rw [pathSteps_segsOfLoc l h]
  simp [walk_locSteps]

end JP
