import JsonPathVerif.OkB
import JsonPathVerif.ParserWT
/-! Bridge from the parser to the hypotheses of the evaluator theorems: a query that is well-typed (which every accepted query
is, `parse_wellTyped`), escape-free (`KF.escFreeSegs`) and `plainShape` (no empty bracketed selection, no doubled descendant
marker – neither can come out of the grammar – and custom-function arguments that are values) satisfies `okSegs`, the hypothesis
of `C01_partial`, `C02_characterised`, `C05_logical`, …  Hence those theorems apply to every ACCEPTED, escape-free query string. -/
namespace JP
open Spec KF

def valueShaped : FnArg → Bool
  | .lit _ => true
  | .test (.rel ss) => Spec.isSingularSegs ss
  | .test (.abs ss) => Spec.isSingularSegs ss
  | .test (.fn f) => tyFn f == .value
  | .filter _ => false

mutual
def shSeg : Segment → Bool
  | .descendant (.descendant _) => false
  | .descendant (.selector s) => shSel s
  | .descendant (.selectors ss) => !ss.isEmpty && shSels ss
  | .selector s => shSel s
  | .selectors ss => !ss.isEmpty && shSels ss
def shSels : List Selector → Bool
  | [] => true
  | s :: ss => shSel s && shSels ss
def shSel : Selector → Bool
  | .filter f => shFlt f
  | _ => true
def shSegs : List Segment → Bool
  | [] => true
  | s :: ss => shSeg s && shSegs ss
def shFlt : Filter → Bool
  | .or fs => shFlts fs
  | .and fs => shFlts fs
  | .atom a => shAtom a
def shFlts : List Filter → Bool
  | [] => true
  | f :: fs => shFlt f && shFlts fs
def shAtom : FilterAtom → Bool
  | .filter e _ => shFlt e
  | .test t _ => shTest t
  | .cmp _ l r => shCmp l && shCmp r
def shTest : Test → Bool
  | .rel ss => shSegs ss
  | .abs ss => shSegs ss
  | .fn f => shFn f
def shCmp : Comparable → Bool
  | .fn f => shFn f
  | _ => true
def shFn : TestFunction → Bool
  | .length a => shArg a
  | .count a => shArg a
  | .value a => shArg a
  | .match a b => shArg a && shArg b
  | .search a b => shArg a && shArg b
  | .custom _ args => shArgsCustom args
def shArgsCustom : List FnArg → Bool
  | [] => true
  | a :: as => valueShaped a && shArg a && shArgsCustom as
def shArg : FnArg → Bool
  | .lit _ => true
  | .test t => shTest t
  | .filter f => shFlt f
end

mutual
theorem bSeg : ∀ (s : Segment), wtSeg s = true → escFreeSeg s = true → shSeg s = true → okSegB s = true
  | .descendant (.descendant _), _, _, h => by simp [shSeg] at h
  | .descendant (.selector s), hw, he, hs => by
      simpa [okSegB] using bSel s (by simpa [wtSeg] using hw) (by simpa [escFreeSeg] using he) (by simpa [shSeg] using hs)
  | .descendant (.selectors ss), hw, he, hs => by
      simp only [shSeg, Bool.and_eq_true] at hs
      simp [okSegB, hs.1, bSels ss (by simpa [wtSeg] using hw) (by simpa [escFreeSeg] using he) hs.2]
  | .selector s, hw, he, hs => by
      simpa [okSegB] using bSel s (by simpa [wtSeg] using hw) (by simpa [escFreeSeg] using he) (by simpa [shSeg] using hs)
  | .selectors ss, hw, he, hs => by
      simp only [shSeg, Bool.and_eq_true] at hs
      simp [okSegB, hs.1, bSels ss (by simpa [wtSeg] using hw) (by simpa [escFreeSeg] using he) hs.2]
theorem bSels : ∀ (ss : List Selector), wtSels ss = true → escFreeSels ss = true → shSels ss = true → okSelsB ss = true
  | [], _, _, _ => rfl
  | s :: ss, hw, he, hs => by
      simp only [wtSels, escFreeSels, shSels, Bool.and_eq_true] at hw he hs
      simp [okSelsB, bSel s hw.1 he.1 hs.1, bSels ss hw.2 he.2 hs.2]
theorem bSel : ∀ (s : Selector), wtSel s = true → escFreeSel s = true → shSel s = true → okSelB s = true
  | .name raw, _, he, _ => by simpa [okSelB, escFreeSel] using he
  | .filter f, hw, he, hs => by
      simpa [okSelB] using bFlt f (by simpa [wtSel] using hw) (by simpa [escFreeSel] using he) (by simpa [shSel] using hs)
  | .wildcard, _, _, _ => rfl
  | .index _, _, _, _ => rfl
  | .slice _ _ _, _, _, _ => rfl
theorem bSegs : ∀ (ss : List Segment), wtSegs ss = true → escFreeSegs ss = true → shSegs ss = true → okSegsB ss = true
  | [], _, _, _ => rfl
  | s :: ss, hw, he, hs => by
      simp only [wtSegs, escFreeSegs, shSegs, Bool.and_eq_true] at hw he hs
      simp [okSegsB, bSeg s hw.1 he.1 hs.1, bSegs ss hw.2 he.2 hs.2]
theorem bFlt : ∀ (f : Filter), wtFilter f = true → escFreeFlt f = true → shFlt f = true → okFltB f = true
  | .or fs, hw, he, hs => by simpa [okFltB] using bFlts fs (by simpa [wtFilter] using hw) (by simpa [escFreeFlt] using he) (by simpa [shFlt] using hs)
  | .and fs, hw, he, hs => by simpa [okFltB] using bFlts fs (by simpa [wtFilter] using hw) (by simpa [escFreeFlt] using he) (by simpa [shFlt] using hs)
  | .atom a, hw, he, hs => by simpa [okFltB] using bAtom a (by simpa [wtFilter] using hw) (by simpa [escFreeFlt] using he) (by simpa [shFlt] using hs)
theorem bFlts : ∀ (fs : List Filter), wtFilters fs = true → escFreeFlts fs = true → shFlts fs = true → okFltsB fs = true
  | [], _, _, _ => rfl
  | f :: fs, hw, he, hs => by
      simp only [wtFilters, escFreeFlts, shFlts, Bool.and_eq_true] at hw he hs
      simp [okFltsB, bFlt f hw.1 he.1 hs.1, bFlts fs hw.2 he.2 hs.2]
theorem bAtom : ∀ (a : FilterAtom), wtAtom a = true → escFreeAtom a = true → shAtom a = true → okAtomB a = true
  | .filter e _, hw, he, hs => by simpa [okAtomB] using bFlt e (by simpa [wtAtom] using hw) (by simpa [escFreeAtom] using he) (by simpa [shAtom] using hs)
  | .test (.rel ss) _, hw, he, hs => by
      simpa [okAtomB, okTestB] using bSegs ss (by simpa [wtAtom] using hw) (by simpa [escFreeAtom, escFreeTest] using he) (by simpa [shAtom, shTest] using hs)
  | .test (.abs ss) _, hw, he, hs => by
      simpa [okAtomB, okTestB] using bSegs ss (by simpa [wtAtom] using hw) (by simpa [escFreeAtom, escFreeTest] using he) (by simpa [shAtom, shTest] using hs)
  | .test (.fn f) _, hw, he, hs => by
      simp only [wtAtom, Bool.and_eq_true, beq_iff_eq] at hw
      simpa [okAtomB, okTestB] using bFnLogical f hw.1 hw.2 (by simpa [escFreeAtom, escFreeTest] using he) (by simpa [shAtom, shTest] using hs)
  | .cmp _ l r, hw, he, hs => by
      simp only [wtAtom, escFreeAtom, shAtom, Bool.and_eq_true] at hw he hs
      simp [okAtomB, bCmp l hw.1 he.1 hs.1, bCmp r hw.2 he.2 hs.2]
theorem bCmp : ∀ (c : Comparable), wtCmp c = true → escFreeCmp c = true → shCmp c = true → okCmpB c = true
  | .lit l, _, he, _ => by simpa [okCmpB, okLitB, escFreeCmp] using he
  | .sq _ segs, _, he, _ => by
      simp only [escFreeCmp, List.all_eq_true] at he
      simp only [okCmpB, List.all_eq_true]
      intro s hs
      have := he s hs
      cases s <;> simp_all [okSQB]
  | .fn f, hw, he, hs => by
      simp only [wtCmp, Bool.and_eq_true, beq_iff_eq] at hw
      simpa [okCmpB] using bFnValue f hw.1 hw.2 (by simpa [escFreeCmp] using he) (by simpa [shCmp] using hs)
theorem bFnValue : ∀ (f : TestFunction), tyFn f = .value → wtFn f = true → escFreeFn f = true → shFn f = true → okFnValueB f = true
  | .length a, ht, hw, he, hs => by
      have hta : tyArg a = .value := by
        simp only [tyFn] at ht
        by_cases h : (tyArg a == Ty.value) = true
        · simpa using h
        · simp [h] at ht
      simpa [okFnValueB] using bArgValue a hta (by simpa [wtFn] using hw) (by simpa [escFreeFn] using he) (by simpa [shFn] using hs)
  | .count a, ht, hw, he, hs => by
      simpa [okFnValueB] using bArgNodes a (by
        cases a with
        | lit _ => simp [tyFn] at ht
        | filter _ => simp [tyFn] at ht
        | test t => cases t <;> simp_all [tyFn]) (by simpa [wtFn] using hw) (by simpa [escFreeFn] using he) (by simpa [shFn] using hs)
  | .value a, ht, hw, he, hs => by
      simpa [okFnValueB] using bArgNodes a (by
        cases a with
        | lit _ => simp [tyFn] at ht
        | filter _ => simp [tyFn] at ht
        | test t => cases t <;> simp_all [tyFn]) (by simpa [wtFn] using hw) (by simpa [escFreeFn] using he) (by simpa [shFn] using hs)
  | .match a b, ht, _, _, _ => by simp only [tyFn] at ht; split at ht <;> simp at ht
  | .search a b, ht, _, _, _ => by simp only [tyFn] at ht; split at ht <;> simp at ht
  | .custom _ _, ht, _, _, _ => by simp [tyFn] at ht
theorem bFnLogical : ∀ (f : TestFunction), tyFn f = .logical → wtFn f = true → escFreeFn f = true → shFn f = true → okFnLogicalB f = true
  | .match a b, ht, hw, he, hs => by
      have hab : tyArg a = .value ∧ tyArg b = .value := by
        simp only [tyFn] at ht
        by_cases h : (tyArg a == Ty.value && tyArg b == Ty.value) = true
        · simpa using h
        · simp [h] at ht
      simp only [wtFn, escFreeFn, shFn, Bool.and_eq_true] at hw he hs
      simp [okFnLogicalB, bArgValue a hab.1 hw.1 he.1 hs.1, bArgValue b hab.2 hw.2 he.2 hs.2]
  | .search a b, ht, hw, he, hs => by
      have hab : tyArg a = .value ∧ tyArg b = .value := by
        simp only [tyFn] at ht
        by_cases h : (tyArg a == Ty.value && tyArg b == Ty.value) = true
        · simpa using h
        · simp [h] at ht
      simp only [wtFn, escFreeFn, shFn, Bool.and_eq_true] at hw he hs
      simp [okFnLogicalB, bArgValue a hab.1 hw.1 he.1 hs.1, bArgValue b hab.2 hw.2 he.2 hs.2]
  | .custom _ args, _, hw, he, hs => by
      simpa [okFnLogicalB] using bArgsCustom args (by simpa [wtFn] using hw) (by simpa [escFreeFn] using he) (by simpa [shFn] using hs)
  | .length a, ht, _, _, _ => by simp only [tyFn] at ht; split at ht <;> simp at ht
  | .count a, ht, _, _, _ => by simp only [tyFn] at ht; split at ht <;> simp at ht
  | .value a, ht, _, _, _ => by simp only [tyFn] at ht; split at ht <;> simp at ht
theorem bArgValue : ∀ (a : FnArg), tyArg a = .value → wtArg a = true → escFreeArg a = true → shArg a = true → okArgValueB a = true
  | .lit l, _, _, he, _ => by simpa [okArgValueB, okLitB, escFreeArg] using he
  | .test (.rel ss), ht, hw, he, hs => by
      have hsing : Spec.isSingularSegs ss = true := by
        simp only [tyArg] at ht
        by_cases h : Spec.isSingularSegs ss = true
        · exact h
        · simp [h] at ht
      simp [okArgValueB, hsing, bSegs ss (by simpa [wtArg] using hw) (by simpa [escFreeArg, escFreeTest] using he) (by simpa [shArg, shTest] using hs)]
  | .test (.abs ss), ht, hw, he, hs => by
      have hsing : Spec.isSingularSegs ss = true := by
        simp only [tyArg] at ht
        by_cases h : Spec.isSingularSegs ss = true
        · exact h
        · simp [h] at ht
      simp [okArgValueB, hsing, bSegs ss (by simpa [wtArg] using hw) (by simpa [escFreeArg, escFreeTest] using he) (by simpa [shArg, shTest] using hs)]
  | .test (.fn f), ht, hw, he, hs => by
      simpa [okArgValueB] using bFnValue f (by simpa [tyArg] using ht) (by simpa [wtArg] using hw) (by simpa [escFreeArg, escFreeTest] using he) (by simpa [shArg, shTest] using hs)
  | .filter _, ht, _, _, _ => by simp [tyArg] at ht
theorem bArgNodes : ∀ (a : FnArg), ((∃ ss, a = .test (.rel ss)) ∨ (∃ ss, a = .test (.abs ss))) → wtArg a = true → escFreeArg a = true → shArg a = true → okArgNodesB a = true
  | .test (.rel ss), _, hw, he, hs => by
      simpa [okArgNodesB] using bSegs ss (by simpa [wtArg] using hw) (by simpa [escFreeArg, escFreeTest] using he) (by simpa [shArg, shTest] using hs)
  | .test (.abs ss), _, hw, he, hs => by
      simpa [okArgNodesB] using bSegs ss (by simpa [wtArg] using hw) (by simpa [escFreeArg, escFreeTest] using he) (by simpa [shArg, shTest] using hs)
  | .test (.fn _), h, _, _, _ => by rcases h with ⟨_, h⟩ | ⟨_, h⟩ <;> cases h
  | .lit _, h, _, _, _ => by rcases h with ⟨_, h⟩ | ⟨_, h⟩ <;> cases h
  | .filter _, h, _, _, _ => by rcases h with ⟨_, h⟩ | ⟨_, h⟩ <;> cases h
theorem bArgsCustom : ∀ (as : List FnArg), wtArgs as = true → escFreeArgs as = true → shArgsCustom as = true → okArgsCustomB as = true
  | [], _, _, _ => rfl
  | a :: as, hw, he, hs => by
      simp only [wtArgs, escFreeArgs, shArgsCustom, Bool.and_eq_true] at hw he hs
      have hv : tyArg a = .value := by
        have := hs.1.1
        cases a with
        | lit _ => rfl
        | filter _ => simp [valueShaped] at this
        | test t => cases t <;> simp_all [valueShaped, tyArg]
      simp [okArgsCustomB, bArgValue a hv hw.1 he.1 hs.1.2, bArgsCustom as hw.2 he.2 hs.2]
end

/-- end to end: every ACCEPTED query string that is escape-free and of plain shape satisfies the hypothesis of the evaluator theorems -/
theorem parsed_ok (s : Str) (q : List Segment) (hp : parseJsonPath s = .ok q) (he : escFreeSegs q = true) (hs : shSegs q = true) : okSegs q :=
  okSegs_of q (bSegs q (parse_wellTyped s q hp) he hs)

end JP
