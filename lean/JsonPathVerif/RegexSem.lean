import JsonPathVerif.Regex
/-! Declarative semantics of the regular-expression dialect and the proof that the matcher of
`Regex.lean` (`ends`, `isMatch`) decides it: `M` is the positional matching relation (it knows
about `^`/`$`), `L` the textbook language of an anchor-free expression. -/
namespace JP
namespace Re

/-- `M inp r i j`: `r` matches `inp` from position `i` up to position `j` -/
inductive M (inp : Array Char) : Rx → Nat → Nat → Prop
  | eps (i) : M inp .eps i i
  | chr (c i) (h : i < inp.size) : inp[i] = c → M inp (.chr c) i (i + 1)
  | any (i) (h : i < inp.size) : inp[i] ≠ '\n' → M inp .any i (i + 1)
  | cls (neg items i) (h : i < inp.size) : clsMatch neg items inp[i] = true → M inp (.cls neg items) i (i + 1)
  | seq {a b i k j} : M inp a i k → M inp b k j → M inp (.seq a b) i j
  | altL {a b i j} : M inp a i j → M inp (.alt a b) i j
  | altR {a b i j} : M inp b i j → M inp (.alt a b) i j
  | optNone {a} (i) : M inp (.opt a) i i
  | optSome {a i j} : M inp a i j → M inp (.opt a) i j
  | starNil {a} (i) : M inp (.star a) i i
  | starCons {a i k j} : M inp a i k → M inp (.star a) k j → M inp (.star a) i j
  | plus {a i k j} : M inp a i k → M inp (.star a) k j → M inp (.plus a) i j
  | bol : M inp .bol 0 0
  | eol : M inp .eol inp.size inp.size

theorem mem_dedupNat_foldl (l acc : List Nat) (x : Nat) :
    x ∈ l.foldl (fun acc x => if acc.contains x then acc else acc ++ [x]) acc ↔ x ∈ acc ∨ x ∈ l := by
  induction l generalizing acc with
  | nil => simp
  | cons y l ih =>
    simp only [List.foldl_cons, ih, List.mem_cons]
    by_cases h : acc.contains y
    · simp only [h, if_true]
      constructor
      · rintro (h1 | h1)
        · exact Or.inl h1
        · exact Or.inr (Or.inr h1)
      · rintro (h1 | h1 | h1)
        · exact Or.inl h1
        · subst h1; exact Or.inl (by simpa using h)
        · exact Or.inr h1
    · simp only [h]
      simp only [Bool.false_eq_true, if_false, List.mem_append, List.mem_singleton]
      constructor
      · rintro ((h1 | h1) | h1)
        · exact Or.inl h1
        · exact Or.inr (Or.inl h1)
        · exact Or.inr (Or.inr h1)
      · rintro (h1 | h1 | h1)
        · exact Or.inl (Or.inl h1)
        · exact Or.inl (Or.inr h1)
        · exact Or.inr h1

@[simp] theorem mem_dedupNat (l : List Nat) (x : Nat) : x ∈ dedupNat l ↔ x ∈ l := by
  unfold dedupNat; rw [mem_dedupNat_foldl]; simp

theorem ends_sound (inp : Array Char) : ∀ n r i j, j ∈ ends inp n r i → M inp r i j := by
  intro n
  induction n with
  | zero => intro r i j h; simp [ends] at h
  | succ n ih =>
    intro r i j h
    cases r with
    | eps => simp [ends] at h; subst h; exact .eps _
    | chr c =>
      simp only [ends] at h
      split at h
      · rename_i hlt
        split at h
        · rename_i hc; simp at h; subst h; exact .chr c i hlt hc
        · simp at h
      · simp at h
    | any =>
      simp only [ends] at h
      split at h
      · rename_i hlt
        split at h
        · rename_i hc; simp at h; subst h; exact .any i hlt hc
        · simp at h
      · simp at h
    | cls neg items =>
      simp only [ends] at h
      split at h
      · rename_i hlt
        split at h
        · rename_i hc; simp at h; subst h; exact .cls neg items i hlt hc
        · simp at h
      · simp at h
    | seq a b =>
      simp only [ends, mem_dedupNat, List.mem_flatMap] at h
      obtain ⟨k, hk, hj⟩ := h
      exact .seq (ih _ _ _ hk) (ih _ _ _ hj)
    | alt a b =>
      simp only [ends, mem_dedupNat, List.mem_append] at h
      rcases h with h | h
      · exact .altL (ih _ _ _ h)
      · exact .altR (ih _ _ _ h)
    | opt a =>
      simp only [ends, mem_dedupNat, List.mem_cons] at h
      rcases h with h | h
      · subst h; exact .optNone _
      · exact .optSome (ih _ _ _ h)
    | star a =>
      simp only [ends, mem_dedupNat, List.mem_cons, List.mem_flatMap, List.mem_filter] at h
      rcases h with h | ⟨k, ⟨hk, _⟩, hj⟩
      · subst h; exact .starNil _
      · exact .starCons (ih _ _ _ hk) (ih _ _ _ hj)
    | plus a =>
      simp only [ends, mem_dedupNat, List.mem_flatMap] at h
      obtain ⟨k, hk, hj⟩ := h
      exact .plus (ih _ _ _ hk) (ih _ _ _ hj)
    | bol =>
      simp only [ends] at h
      split at h
      · rename_i h0; simp at h; subst h; subst h0; exact .bol
      · simp at h
    | eol =>
      simp only [ends] at h
      split at h
      · rename_i h0; simp at h; subst h; subst h0; exact .eol
      · simp at h

theorem M_le {inp : Array Char} {r i j} (h : M inp r i j) : i ≤ j ∧ (i ≤ inp.size → j ≤ inp.size) := by
  induction h with
  | eps i => exact ⟨Nat.le_refl _, id⟩
  | chr c i h _ => exact ⟨Nat.le_succ _, fun _ => h⟩
  | any i h _ => exact ⟨Nat.le_succ _, fun _ => h⟩
  | cls neg items i h _ => exact ⟨Nat.le_succ _, fun _ => h⟩
  | seq _ _ ih1 ih2 => exact ⟨Nat.le_trans ih1.1 ih2.1, fun h => ih2.2 (ih1.2 h)⟩
  | altL _ ih => exact ih
  | altR _ ih => exact ih
  | optNone i => exact ⟨Nat.le_refl _, id⟩
  | optSome _ ih => exact ih
  | starNil i => exact ⟨Nat.le_refl _, id⟩
  | starCons _ _ ih1 ih2 => exact ⟨Nat.le_trans ih1.1 ih2.1, fun h => ih2.2 (ih1.2 h)⟩
  | plus _ _ ih1 ih2 => exact ⟨Nat.le_trans ih1.1 ih2.1, fun h => ih2.2 (ih1.2 h)⟩
  | bol => exact ⟨Nat.le_refl _, id⟩
  | eol => exact ⟨Nat.le_refl _, id⟩

/-- fuel that suffices for `ends` on `r` with `k` characters remaining -/
def need : Rx → Nat → Nat
  | .seq a b, k => need a k + need b k + 1
  | .alt a b, k => need a k + need b k + 1
  | .opt a, k => need a k + 1
  | .star a, k => need a k + k + 1
  | .plus a, k => need a k + k + 2
  | _, _ => 1

theorem need_mono (r : Rx) {k k' : Nat} (h : k ≤ k') : need r k ≤ need r k' := by
  induction r with
  | seq a b iha ihb => simp only [need]; omega
  | alt a b iha ihb => simp only [need]; omega
  | opt a ih => simp only [need]; omega
  | star a ih => simp only [need]; omega
  | plus a ih => simp only [need]; omega
  | _ => simp [need]

theorem ends_complete {inp : Array Char} {r i j} (h : M inp r i j) :
    ∀ n, i ≤ inp.size → need r (inp.size - i) ≤ n → j ∈ ends inp n r i := by
  induction h with
  | eps i => intro n _ hn; cases n with
    | zero => simp [need] at hn
    | succ n => simp [ends]
  | chr c i h hc => intro n _ hn; cases n with
    | zero => simp [need] at hn
    | succ n => simp [ends, h, hc]
  | any i h hc => intro n _ hn; cases n with
    | zero => simp [need] at hn
    | succ n => simp [ends, h, hc]
  | cls neg items i h hc => intro n _ hn; cases n with
    | zero => simp [need] at hn
    | succ n => simp [ends, h, hc]
  | @seq a b i k j h1 h2 ih1 ih2 => intro n hi hn; cases n with
    | zero => simp [need] at hn
    | succ n =>
      simp only [ends, mem_dedupNat, List.mem_flatMap]
      simp only [need] at hn
      have hk := M_le h1
      have := need_mono b (k := inp.size - k) (k' := inp.size - i) (by omega)
      exact ⟨k, ih1 n hi (by omega), ih2 n (hk.2 hi) (by omega)⟩
  | altL h ih => intro n hi hn; cases n with
    | zero => simp [need] at hn
    | succ n =>
      simp only [ends, mem_dedupNat, List.mem_append]
      simp only [need] at hn
      exact Or.inl (ih n hi (by omega))
  | altR h ih => intro n hi hn; cases n with
    | zero => simp [need] at hn
    | succ n =>
      simp only [ends, mem_dedupNat, List.mem_append]
      simp only [need] at hn
      exact Or.inr (ih n hi (by omega))
  | optNone i => intro n _ hn; cases n with
    | zero => simp [need] at hn
    | succ n => simp [ends]
  | optSome h ih => intro n hi hn; cases n with
    | zero => simp [need] at hn
    | succ n =>
      simp only [ends, mem_dedupNat, List.mem_cons]
      simp only [need] at hn
      exact Or.inr (ih n hi (by omega))
  | starNil i => intro n _ hn; cases n with
    | zero => simp [need] at hn
    | succ n => simp [ends]
  | @starCons a i k j h1 h2 ih1 ih2 => intro n hi hn; cases n with
    | zero => simp [need] at hn
    | succ n =>
      have hk := M_le h1
      by_cases hik : k = i
      · subst hik; exact ih2 (n + 1) hi hn
      · simp only [ends, mem_dedupNat, List.mem_cons, List.mem_flatMap, List.mem_filter]
        simp only [need] at hn ih2
        have hks := hk.2 hi
        have := need_mono a (k := inp.size - k) (k' := inp.size - i) (by omega)
        refine Or.inr ⟨k, ⟨ih1 n hi (by omega), by simp; omega⟩, ih2 n hks (by omega)⟩
  | @plus a i k j h1 h2 ih1 ih2 => intro n hi hn; cases n with
    | zero => simp [need] at hn
    | succ n =>
      simp only [ends, mem_dedupNat, List.mem_flatMap]
      simp only [need] at hn ih2
      have hk := M_le h1
      have := need_mono a (k := inp.size - k) (k' := inp.size - i) (by omega)
      exact ⟨k, ih1 n hi (by omega), ih2 n (hk.2 hi) (by omega)⟩
  | bol => intro n _ hn; cases n with
    | zero => simp [need] at hn
    | succ n => simp [ends]
  | eol => intro n _ hn; cases n with
    | zero => simp [need] at hn
    | succ n => simp [ends]

theorem need_le (r : Rx) (k : Nat) : need r k ≤ rxSize r * (k + 2) := by
  induction r with
  | seq a b iha ihb => simp only [need, rxSize, Nat.add_mul, Nat.one_mul]; omega
  | alt a b iha ihb => simp only [need, rxSize, Nat.add_mul, Nat.one_mul]; omega
  | opt a ih => simp only [need, rxSize, Nat.add_mul, Nat.one_mul]; omega
  | star a ih => simp only [need, rxSize, Nat.add_mul, Nat.one_mul]; omega
  | plus a ih => simp only [need, rxSize, Nat.add_mul, Nat.one_mul]; omega
  | _ => simp only [need, rxSize, Nat.one_mul]; omega

/-- the fuel `isMatch` gives `ends` is enough at every start position -/
theorem fuel_enough (r : Rx) (len i : Nat) : need r (len - i) ≤ (rxSize r + 2) * (len + 2) + 8 := by
  have h1 := need_le r (len - i)
  have h2 : rxSize r * (len - i + 2) ≤ rxSize r * (len + 2) := Nat.mul_le_mul_left _ (by omega)
  have h3 : (rxSize r + 2) * (len + 2) = rxSize r * (len + 2) + 2 * (len + 2) := by rw [Nat.add_mul]
  omega

/-- `Regex::is_match`, the model's matcher, finds a match iff one exists -/
theorem isMatch_iff (r : Rx) (s : Str) :
    isMatch r s = true ↔ ∃ i j, i ≤ s.length ∧ M s.toArray r i j := by
  simp only [isMatch, List.any_eq_true, List.mem_range, Bool.not_eq_true', List.isEmpty_eq_false_iff_exists_mem]
  constructor
  · rintro ⟨i, hi, j, hj⟩
    exact ⟨i, j, by omega, ends_sound _ _ _ _ _ hj⟩
  · rintro ⟨i, j, hi, hm⟩
    refine ⟨i, by omega, j, ends_complete hm _ (by simpa using hi) ?_⟩
    simpa using fuel_enough r s.length i

/-- the textbook language of an expression without `^`/`$` -/
inductive L : Rx → List Char → Prop
  | eps : L .eps []
  | chr (c) : L (.chr c) [c]
  | any (c) : c ≠ '\n' → L .any [c]
  | cls (neg items c) : clsMatch neg items c = true → L (.cls neg items) [c]
  | seq {a b u v} : L a u → L b v → L (.seq a b) (u ++ v)
  | altL {a b u} : L a u → L (.alt a b) u
  | altR {a b u} : L b u → L (.alt a b) u
  | optNone {a} : L (.opt a) []
  | optSome {a u} : L a u → L (.opt a) u
  | starNil {a} : L (.star a) []
  | starCons {a u v} : L a u → L (.star a) v → L (.star a) (u ++ v)
  | plus {a u v} : L a u → L (.star a) v → L (.plus a) (u ++ v)

def anchorFree : Rx → Bool
  | .seq a b | .alt a b => anchorFree a && anchorFree b
  | .star a | .plus a | .opt a => anchorFree a
  | .bol | .eol => false
  | _ => true

theorem M_of_L {r : Rx} {w : List Char} (h : L r w) :
    ∀ pre post : List Char, M (pre ++ w ++ post).toArray r pre.length (pre.length + w.length) := by
  induction h with
  | eps => intro pre post; exact .eps _
  | chr c => intro pre post; exact .chr c _ (by simp) (by simp)
  | any c hc => intro pre post; exact .any _ (by simp) (by simpa using hc)
  | cls neg items c hc => intro pre post; exact .cls neg items _ (by simp) (by simpa using hc)
  | @seq a b u v _ _ ih1 ih2 =>
    intro pre post
    have h1 := ih1 pre (v ++ post)
    have h2 := ih2 (pre ++ u) post
    simp only [List.append_assoc, List.length_append] at h1 h2 ⊢
    rw [← Nat.add_assoc]
    exact .seq h1 h2
  | altL _ ih => intro pre post; exact .altL (ih pre post)
  | altR _ ih => intro pre post; exact .altR (ih pre post)
  | optNone => intro pre post; exact .optNone _
  | optSome _ ih => intro pre post; exact .optSome (ih pre post)
  | starNil => intro pre post; exact .starNil _
  | @starCons a u v _ _ ih1 ih2 =>
    intro pre post
    have h1 := ih1 pre (v ++ post)
    have h2 := ih2 (pre ++ u) post
    simp only [List.append_assoc, List.length_append] at h1 h2 ⊢
    rw [← Nat.add_assoc]
    exact .starCons h1 h2
  | @plus a u v _ _ ih1 ih2 =>
    intro pre post
    have h1 := ih1 pre (v ++ post)
    have h2 := ih2 (pre ++ u) post
    simp only [List.append_assoc, List.length_append] at h1 h2 ⊢
    rw [← Nat.add_assoc]
    exact .plus h1 h2

/-- the piece of `s` between positions `i` and `j` -/
def piece (s : List Char) (i j : Nat) : List Char := (s.drop i).take (j - i)

theorem piece_self (s : List Char) (i : Nat) : piece s i i = [] := by simp [piece]
theorem piece_one (s : List Char) (i : Nat) (h : i < s.length) : piece s i (i + 1) = [s[i]] := by
  unfold piece
  rw [List.drop_eq_getElem_cons h]
  have : i + 1 - i = 1 := by omega
  rw [this]; rfl
theorem piece_append (s : List Char) {i k j : Nat} (h1 : i ≤ k) (h2 : k ≤ j) :
    piece s i j = piece s i k ++ piece s k j := by
  unfold piece
  have : j - i = (k - i) + (j - k) := by omega
  rw [this, List.take_add, List.drop_drop]
  congr 3; omega

theorem L_of_M {s : List Char} {r : Rx} {i j : Nat} (h : M s.toArray r i j) :
    anchorFree r = true → L r (piece s i j) := by
  generalize hs : s.toArray = inp at h
  induction h with
  | eps i => intro _; rw [piece_self]; exact .eps
  | chr c i h hc =>
    intro _; subst hs
    have h' : i < s.length := by simpa using h
    rw [piece_one s i h']; simp at hc; rw [hc]; exact .chr c
  | any i h hc =>
    intro _; subst hs
    have h' : i < s.length := by simpa using h
    rw [piece_one s i h']; simp at hc; exact .any _ hc
  | cls neg items i h hc =>
    intro _; subst hs
    have h' : i < s.length := by simpa using h
    rw [piece_one s i h']; simp at hc; exact .cls neg items _ hc
  | seq h1 h2 ih1 ih2 =>
    intro ha; simp only [anchorFree, Bool.and_eq_true] at ha
    rw [piece_append s (M_le h1).1 (M_le h2).1]
    exact .seq (ih1 ha.1) (ih2 ha.2)
  | altL _ ih => intro ha; simp only [anchorFree, Bool.and_eq_true] at ha; exact .altL (ih ha.1)
  | altR _ ih => intro ha; simp only [anchorFree, Bool.and_eq_true] at ha; exact .altR (ih ha.2)
  | optNone i => intro _; rw [piece_self]; exact .optNone
  | optSome _ ih => intro ha; simp only [anchorFree] at ha; exact .optSome (ih ha)
  | starNil i => intro _; rw [piece_self]; exact .starNil
  | starCons h1 h2 ih1 ih2 =>
    intro ha
    rw [piece_append s (M_le h1).1 (M_le h2).1]
    exact .starCons (ih1 (by simpa [anchorFree] using ha)) (ih2 ha)
  | plus h1 h2 ih1 ih2 =>
    intro ha
    rw [piece_append s (M_le h1).1 (M_le h2).1]
    exact .plus (ih1 (by simpa [anchorFree] using ha)) (ih2 (by simpa [anchorFree] using ha))
  | bol => intro ha; simp [anchorFree] at ha
  | eol => intro ha; simp [anchorFree] at ha

theorem piece_all (s : List Char) : piece s 0 s.length = s := by simp [piece]

theorem split3 (s : List Char) {i j : Nat} (hij : i ≤ j) (_hj : j ≤ s.length) :
    s = s.take i ++ piece s i j ++ s.drop j := by
  have h1 : s = s.take i ++ s.drop i := (List.take_append_drop i s).symm
  have h2 : s.drop i = piece s i j ++ s.drop j := by
    unfold piece
    have : s.drop j = (s.drop i).drop (j - i) := by rw [List.drop_drop]; congr 1; omega
    rw [this, List.take_append_drop]
  rw [List.append_assoc, ← h2]; exact h1

/-- `match`: the anchored expression matches iff the whole string is in the language -/
theorem match_whole (r : Rx) (hr : anchorFree r = true) (s : Str) :
    isMatch (anchored r) s = true ↔ L r s := by
  rw [isMatch_iff]
  constructor
  · rintro ⟨i, j, _, hm⟩
    unfold anchored at hm
    cases hm with
    | seq h123 heol =>
      cases h123 with
      | seq h12 hr' =>
        cases h12 with
        | seq he hb =>
          cases he; cases hb
          generalize hk : s.toArray.size = k at heol
          cases heol
          have := L_of_M hr' hr
          rw [hk] at this
          have hk' : k = s.length := by simpa using hk.symm
          rw [hk', piece_all] at this
          exact this
  · intro hl
    have h := M_of_L hl [] []
    simp only [List.nil_append, List.append_nil, List.length_nil, Nat.zero_add] at h
    refine ⟨0, s.length, Nat.zero_le _, ?_⟩
    unfold anchored
    refine .seq (.seq (.seq (.eps 0) .bol) h) ?_
    have : s.length = s.toArray.size := by simp
    rw [this]; exact .eol

/-- `search`: the expression matches somewhere iff some substring is in the language -/
theorem search_substring (r : Rx) (hr : anchorFree r = true) (s : Str) :
    isMatch r s = true ↔ ∃ pre w post, s = pre ++ w ++ post ∧ L r w := by
  rw [isMatch_iff]
  constructor
  · rintro ⟨i, j, hi, hm⟩
    have hle := M_le hm
    have hj : j ≤ s.length := by simpa using hle.2 (by simpa using hi)
    exact ⟨s.take i, piece s i j, s.drop j, split3 s hle.1 hj, L_of_M hm hr⟩
  · rintro ⟨pre, w, post, rfl, hl⟩
    exact ⟨pre.length, pre.length + w.length, by simp, M_of_L hl pre post⟩

end Re
end JP
