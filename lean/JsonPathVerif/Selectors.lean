import JsonPathVerif.Names
namespace JP
open List

theorem processIndex_spec (E : Engine) (root : Json) (i : Int) (p : Ptr) :
    (processIndex i p).toVec.map toN = Spec.sel E root (.index i) (toN p) := by
  unfold processIndex Spec.sel Spec.selIndex
  cases hv : p.inner <;> simp [toN, hv, Data.toVec]
  rename_i xs
  by_cases h : i ≥ 0
  · simp only [h, if_true]
    by_cases h2 : i ≥ (xs.length : Int)
    · have : ¬ (i < (xs.length : Int)) := by omega
      simp [h2, this, Data.toVec]
    · have h3 : i < (xs.length : Int) := by omega
      have h4 : (0 : Int) ≤ i := h
      simp only [h2, if_false, h3, h4, decide_true, Bool.and_self, if_true]
      cases hx : xs[i.toNat]? <;> simp [Data.toVec, Ptr.idx]
  · simp only [h, if_false]
    have hneg : i < 0 := by omega
    by_cases h2 : i.natAbs > xs.length
    · have : ¬ ((0 : Int) ≤ (xs.length : Int) + i) := by omega
      simp [h2, this, Data.toVec]
    · have h3 : (0 : Int) ≤ (xs.length : Int) + i := by omega
      have h4 : (xs.length : Int) + i < (xs.length : Int) := by omega
      have h5 : ((xs.length : Int) + i).toNat = xs.length - i.natAbs := by omega
      simp only [h2, if_false, h3, h4, decide_true, Bool.and_self, if_true, h5]
      cases hx : xs[xs.length - i.natAbs]? <;> simp [Data.toVec, Ptr.idx]

theorem processIndex_shaped (i : Int) (p : Ptr) : (processIndex i p).shaped := by
  unfold processIndex
  cases p.inner <;> simp
  split
  · split
    · simp
    · split <;> simp
  · split
    · simp
    · split <;> simp

theorem processSlice_spec (E : Engine) (root : Json) (a b c : Option Int) (p : Ptr) :
    (processSlice a b c p).toVec.map toN = Spec.sel E root (.slice a b c) (toN p) := by
  unfold processSlice Spec.sel
  cases hv : p.inner <;> simp [toN, hv, Data.toVec]
  rename_i xs
  generalize sliceIndices a b c (xs.length : Int) = is
  induction is with
  | nil => simp
  | cons i is ih =>
    simp only [Ptr.idx, List.append_assoc, List.cons_append, List.nil_append] at ih ⊢
    simp only [List.filterMap_cons]
    cases hx : xs[i.toNat]? <;> simp [ih]

theorem processSlice_shaped (a b c : Option Int) (p : Ptr) : (processSlice a b c p).shaped := by
  unfold processSlice; cases p.inner <;> simp

-- descendants
abbrev cont (ns : List Spec.Node) : List Spec.Node := ns.filter fun n => match n.2 with | .arr _ => true | .obj _ => true | _ => false

mutual
theorem descendant_spec : ∀ (j : Json) (loc : Loc) (path : Str),
    (descendant ⟨loc, j, path⟩ j).toVec.map toN = cont (Spec.desc loc j)
  | .null, loc, path => by simp [descendant, Spec.desc, Data.toVec, cont]
  | .bool _, loc, path => by simp [descendant, Spec.desc, Data.toVec, cont]
  | .num _, loc, path => by simp [descendant, Spec.desc, Data.toVec, cont]
  | .str _, loc, path => by simp [descendant, Spec.desc, Data.toVec, cont]
  | .arr xs, loc, path => by
      have ih := descList_spec xs loc path 0
      simp [descendant, Spec.desc, Data.reduce, Data.toVec, cont, toN] at ih ⊢
      exact ih
  | .obj kvs, loc, path => by
      have ih := descMembers_spec kvs loc path
      simp [descendant, Spec.desc, Data.reduce, Data.toVec, cont, toN] at ih ⊢
      exact ih
theorem descList_spec : ∀ (xs : List Json) (loc : Loc) (path : Str) (i : Nat),
    (descList loc path i xs).map toN = cont (Spec.descL loc i xs)
  | [], loc, path, i => by simp [descList, Spec.descL, cont]
  | x :: xs, loc, path, i => by
      have h1 := descendant_spec x (loc ++ [Step.idx i]) (path ++ ['['] ++ natStr i ++ [']'])
      have h2 := descList_spec xs loc path (i+1)
      simp [descList, Spec.descL, cont, Ptr.idx] at h1 h2 ⊢
      rw [h1, h2]
theorem descMembers_spec : ∀ (kvs : List (Str × Json)) (loc : Loc) (path : Str),
    (descMembers loc path kvs).map toN = cont (Spec.descM loc kvs)
  | [], loc, path => by simp [descMembers, Spec.descM, cont]
  | (k, v) :: kvs, loc, path => by
      have h1 := descendant_spec v (loc ++ [Step.key k]) (Ptr.key v loc k path k).path
      have h2 := descMembers_spec kvs loc path
      simp [descMembers, Spec.descM, cont, Ptr.key] at h1 h2 ⊢
      rw [h1, h2]
end

theorem processDescendant_spec (p : Ptr) :
    (processDescendant p).toVec.map toN = cont (Spec.desc p.loc p.inner) := by
  unfold processDescendant
  exact descendant_spec p.inner p.loc p.path

theorem processDescendant_shaped (p : Ptr) : (processDescendant p).shaped := by
  unfold processDescendant
  cases h : p.inner <;> simp [descendant, Data.shaped_reduce]

#print axioms processIndex_spec
#print axioms processSlice_spec
#print axioms processDescendant_spec
end JP
