import JsonPathVerif.Eval
/-! RFC 9535 semantics on the same AST (prototype). Independent of Eval except for shared data types
and (in this prototype only) `sliceIndices`. -/
namespace JP
namespace Spec

abbrev Node := Loc × Json

def hexVal (c : Char) : Option Nat :=
  if '0' ≤ c && c ≤ '9' then some (c.toNat - '0'.toNat)
  else if 'a' ≤ c && c ≤ 'f' then some (c.toNat - 'a'.toNat + 10)
  else if 'A' ≤ c && c ≤ 'F' then some (c.toNat - 'A'.toNat + 10)
  else none

def hex4 : Str → Option (Nat × Str)
  | a :: b :: c :: d :: r => do
      let a ← hexVal a; let b ← hexVal b; let c ← hexVal c; let d ← hexVal d
      pure (a * 4096 + b * 256 + c * 16 + d, r)
  | _ => none

/-- RFC 9535 2.3.1.2 unescaping of the text between the quotes -/
def unescape (fuel : Nat) : Str → Option Str
  | [] => some []
  | '\\' :: r =>
    match fuel with
    | 0 => none
    | fuel+1 =>
    match r with
    | 'b' :: r => (unescape fuel r).map (Char.ofNat 8 :: ·)
    | 'f' :: r => (unescape fuel r).map (Char.ofNat 12 :: ·)
    | 'n' :: r => (unescape fuel r).map ('\n' :: ·)
    | 'r' :: r => (unescape fuel r).map ('\r' :: ·)
    | 't' :: r => (unescape fuel r).map ('\t' :: ·)
    | '/' :: r => (unescape fuel r).map ('/' :: ·)
    | '\\' :: r => (unescape fuel r).map ('\\' :: ·)
    | '\'' :: r => (unescape fuel r).map ('\'' :: ·)
    | '"' :: r => (unescape fuel r).map ('"' :: ·)
    | 'u' :: r =>
      match hex4 r with
      | none => none
      | some (hi, r) =>
        if 0xD800 ≤ hi && hi ≤ 0xDBFF then
          match r with
          | '\\' :: 'u' :: r =>
            match hex4 r with
            | some (lo, r) =>
              if 0xDC00 ≤ lo && lo ≤ 0xDFFF then
                (unescape fuel r).map (Char.ofNat (0x10000 + (hi - 0xD800) * 1024 + (lo - 0xDC00)) :: ·)
              else none
            | none => none
          | _ => none
        else if 0xDC00 ≤ hi && hi ≤ 0xDFFF then none
        else (unescape fuel r).map (Char.ofNat hi :: ·)
    | _ => none
  | c :: r =>
    match fuel with
    | 0 => none
    | fuel+1 => (unescape fuel r).map (c :: ·)

def decodeQuoted (raw : Str) : Option Str :=
  match raw with
  | q :: r =>
    if (q == '\'' || q == '"') && raw.length ≥ 2 && raw.getLast? == some q then unescape (r.length + 1) r.dropLast
    else none
  | [] => none

/-- member name denoted by a selector lexeme: quoted → decoded, otherwise shorthand text -/
def decodeName (raw : Str) : Option Str :=
  match raw with
  | '\'' :: _ => decodeQuoted raw
  | '"' :: _ => decodeQuoted raw
  | _ => some raw

def children (n : Node) : List Node :=
  match n.2 with
  | .arr xs => (zipIdxFrom xs 0).map fun (x, i) => (n.1 ++ [.idx i], x)
  | .obj kvs => kvs.map fun (k, v) => (n.1 ++ [.key k], v)
  | _ => []

mutual
def desc (l : Loc) : Json → List Node
  | .arr xs => (l, .arr xs) :: descL l 0 xs
  | .obj kvs => (l, .obj kvs) :: descM l kvs
  | j => [(l, j)]
def descL (l : Loc) (i : Nat) : List Json → List Node
  | [] => []
  | x :: xs => desc (l ++ [.idx i]) x ++ descL l (i+1) xs
def descM (l : Loc) : List (Str × Json) → List Node
  | [] => []
  | (k, v) :: kvs => desc (l ++ [.key k]) v ++ descM l kvs
end

def numVal : Num → Int × Nat | .int i => (i, 1) | .flt n d => (n, d)
def numEq (a b : Num) : Bool := let (an, ad) := numVal a; let (bn, bd) := numVal b; an * bd == bn * ad
def numLt (a b : Num) : Bool := let (an, ad) := numVal a; let (bn, bd) := numVal b; an * bd < bn * ad

mutual
def jsonEq : Json → Json → Bool
  | .null, .null => true
  | .bool a, .bool b => a == b
  | .num a, .num b => numEq a b
  | .str a, .str b => a == b
  | .arr a, .arr b => jsonEqL a b
  | .obj a, .obj b => a.length == b.length && jsonSubM a b
  | _, _ => false
def jsonEqL : List Json → List Json → Bool
  | [], [] => true
  | x :: xs, y :: ys => jsonEq x y && jsonEqL xs ys
  | _, _ => false
/-- every member of `a` has an equal member in `b` (keys distinct) -/
def jsonSubM : List (Str × Json) → List (Str × Json) → Bool
  | [], _ => true
  | (k, x) :: xs, b => jsonFind k x b && jsonSubM xs b
def jsonFind (k : Str) (x : Json) : List (Str × Json) → Bool
  | [] => false
  | (k', y) :: ys => (k == k' && jsonEq x y) || jsonFind k x ys
end

def eqOpt : Option Json → Option Json → Bool
  | none, none => true
  | some x, some y => jsonEq x y
  | _, _ => false

def ltOpt : Option Json → Option Json → Bool
  | some (.num x), some (.num y) => numLt x y
  | some (.str x), some (.str y) => x < y
  | _, _ => false

/-- RFC 9535 2.3.5.2.2: `==` and `<` are primitive, the other four operators are defined from them -/
def cmp (op : CmpOp) (a b : Option Json) : Bool :=
  match op with
  | .eq => eqOpt a b
  | .ne => !eqOpt a b
  | .lt => ltOpt a b
  | .gt => ltOpt b a
  | .le => ltOpt a b || eqOpt a b
  | .ge => ltOpt b a || eqOpt a b

def literalValue : Literal → Option Json
  | .int i => some (.num (.int i))
  | .float n d => some (.num (.flt n d))
  | .str s => (unescape (s.length + 1) s).map Json.str
  | .bool b => some (.bool b)
  | .null => some .null

def selName (raw : Str) (n : Node) : List Node :=
  match n.2, decodeName raw with
  | .obj kvs, some k => match lookup k kvs with
    | some v => [(n.1 ++ [.key k], v)]
    | none => []
  | _, _ => []

def selIndex (i : Int) (n : Node) : List Node :=
  match n.2 with
  | .arr xs =>
    let len : Int := xs.length
    let j := if i ≥ 0 then i else len + i
    if 0 ≤ j && j < len then match xs[j.toNat]? with
      | some x => [(n.1 ++ [.idx j.toNat], x)]
      | none => []
    else []
  | _ => []

/-- one step of a singular query: at most one node -/
def sqStep (n : Option Node) : SQSeg → Option Node
  | .index i => n.bind fun n => (selIndex i n).head?
  | .name raw => n.bind fun n => (selName raw n).head?

def isSingularSegs : List Segment → Bool
  | [] => true
  | .selector (.name _) :: r => isSingularSegs r
  | .selector (.index _) :: r => isSingularSegs r
  | _ => false

def lengthOf : Option Json → Option Json
  | some (.str s) => some (.num (.int s.length))
  | some (.arr xs) => some (.num (.int xs.length))
  | some (.obj kvs) => some (.num (.int kvs.length))
  | _ => none

inductive Ty where | value | logical | nodes | bad
  deriving DecidableEq

mutual
def sel (E : Engine) (root : Json) : Selector → Node → List Node
  | .name raw, n => selName raw n
  | .wildcard, n => children n
  | .index i, n => selIndex i n
  | .slice a b c, n => match n.2 with
    | .arr xs => (sliceIndices a b c xs.length).filterMap fun i => (xs[i.toNat]?).map fun x => (n.1 ++ [.idx i.toNat], x)
    | _ => []
  | .filter f, n => (children n).filter fun c => logical E root c f
def selAll (E : Engine) (root : Json) : List Selector → Node → List Node
  | [], _ => []
  | s :: ss, n => sel E root s n ++ selAll E root ss n
def seg (E : Engine) (root : Json) : Segment → List Node → List Node
  | .selector s, ns => ns.flatMap (sel E root s)
  | .selectors ss, ns => ns.flatMap (selAll E root ss)
  | .descendant s, ns => seg E root s (ns.flatMap fun n => desc n.1 n.2)
def segs (E : Engine) (root : Json) : List Segment → List Node → List Node
  | [], ns => ns
  | s :: ss, ns => segs E root ss (seg E root s ns)
def logical (E : Engine) (root : Json) (cur : Node) : Filter → Bool
  | .or fs => logicalAny E root cur fs
  | .and fs => logicalAll E root cur fs
  | .atom a => atom E root cur a
def logicalAny (E : Engine) (root : Json) (cur : Node) : List Filter → Bool
  | [] => false
  | f :: fs => logical E root cur f || logicalAny E root cur fs
def logicalAll (E : Engine) (root : Json) (cur : Node) : List Filter → Bool
  | [] => true
  | f :: fs => logical E root cur f && logicalAll E root cur fs
def atom (E : Engine) (root : Json) (cur : Node) : FilterAtom → Bool
  | .filter e n => logical E root cur e != n
  | .test t n => test E root cur t != n
  | .cmp op l r => cmp op (comparable E root cur l) (comparable E root cur r)
def test (E : Engine) (root : Json) (cur : Node) : Test → Bool
  | .rel ss => !(segs E root ss [cur]).isEmpty
  | .abs ss => !(segs E root ss [([], root)]).isEmpty
  | .fn f => fnLogical E root cur f
def comparable (E : Engine) (root : Json) (cur : Node) : Comparable → Option Json
  | .lit l => literalValue l
  | .sq isRoot ss => (ss.foldl sqStep (some (if isRoot then ([], root) else cur))).map (·.2)
  | .fn f => fnValue E root cur f
/-- value of a ValueType argument -/
def argValue (E : Engine) (root : Json) (cur : Node) : FnArg → Option Json
  | .lit l => literalValue l
  | .test (.rel ss) => match segs E root ss [cur] with | [n] => some n.2 | _ => none
  | .test (.abs ss) => match segs E root ss [([], root)] with | [n] => some n.2 | _ => none
  | .test (.fn f) => fnValue E root cur f
  | .filter _ => none
/-- nodes of a NodesType argument -/
def argNodes (E : Engine) (root : Json) (cur : Node) : FnArg → List Node
  | .test (.rel ss) => segs E root ss [cur]
  | .test (.abs ss) => segs E root ss [([], root)]
  | _ => []
def fnValue (E : Engine) (root : Json) (cur : Node) : TestFunction → Option Json
  | .length a => lengthOf (argValue E root cur a)
  | .count a => some (.num (.int (argNodes E root cur a).length))
  | .value a => match argNodes E root cur a with | [n] => some n.2 | _ => none
  | _ => none
def fnLogical (E : Engine) (root : Json) (cur : Node) : TestFunction → Bool
  | .match a b => match argValue E root cur a, argValue E root cur b with
    | some (.str s), some (.str p) => E.regexFn s p false
    | _, _ => false
  | .search a b => match argValue E root cur a, argValue E root cur b with
    | some (.str s), some (.str p) => E.regexFn s p true
    | _, _ => false
  | .custom name args =>
    -- library extension functions (C14): arguments are the values/nodes as the library passes them
    match extensionCustom name (customArgs E root cur args) with
    | .bool b => b
    | _ => false
  | _ => false
def customArgs (E : Engine) (root : Json) (cur : Node) : List FnArg → List Json
  | [] => []
  | .lit l :: r => (literalValue l).toList ++ customArgs E root cur r
  | .test (.rel ss) :: r => (segs E root ss [cur]).map (·.2) ++ customArgs E root cur r
  | .test (.abs ss) :: r => (segs E root ss [([], root)]).map (·.2) ++ customArgs E root cur r
  | .test (.fn f) :: r => (fnValue E root cur f).toList ++ customArgs E root cur r
  | .filter f :: r => Json.bool (logical E root cur f) :: customArgs E root cur r
end

-- typing (RFC 2.4.3); custom functions are outside the property and accepted
mutual
def tyArg : FnArg → Ty
  | .lit _ => .value
  | .filter _ => .logical
  | .test (.rel ss) => if isSingularSegs ss then .value else .nodes   -- singular query: usable as ValueType
  | .test (.abs ss) => if isSingularSegs ss then .value else .nodes
  | .test (.fn f) => tyFn f
def tyFn : TestFunction → Ty
  | .length a => if tyArg a == .value then .value else .bad
  | .count a => match a with | .test (.rel _) => .value | .test (.abs _) => .value | _ => .bad
  | .value a => match a with | .test (.rel _) => .value | .test (.abs _) => .value | _ => .bad
  | .match a b => if tyArg a == .value && tyArg b == .value then .logical else .bad
  | .search a b => if tyArg a == .value && tyArg b == .value then .logical else .bad
  | .custom _ _ => .logical
end

mutual
def wtSeg : Segment → Bool
  | .descendant s => wtSeg s
  | .selector s => wtSel s
  | .selectors ss => wtSels ss
def wtSels : List Selector → Bool
  | [] => true
  | s :: ss => wtSel s && wtSels ss
def wtSel : Selector → Bool
  | .filter f => wtFilter f
  | _ => true
def wtSegs : List Segment → Bool
  | [] => true
  | s :: ss => wtSeg s && wtSegs ss
def wtFilter : Filter → Bool
  | .or fs => wtFilters fs
  | .and fs => wtFilters fs
  | .atom a => wtAtom a
def wtFilters : List Filter → Bool
  | [] => true
  | f :: fs => wtFilter f && wtFilters fs
def wtAtom : FilterAtom → Bool
  | .filter e _ => wtFilter e
  | .test (.rel ss) _ => wtSegs ss
  | .test (.abs ss) _ => wtSegs ss
  | .test (.fn f) _ => tyFn f == .logical && wtFn f
  | .cmp _ l r => wtCmp l && wtCmp r
def wtCmp : Comparable → Bool
  | .lit _ => true
  | .sq _ _ => true
  | .fn f => tyFn f == .value && wtFn f
def wtFn : TestFunction → Bool
  | .length a => wtArg a
  | .count a => wtArg a
  | .value a => wtArg a
  | .match a b => wtArg a && wtArg b
  | .search a b => wtArg a && wtArg b
  | .custom _ args => wtArgs args
def wtArgs : List FnArg → Bool
  | [] => true
  | a :: as => wtArg a && wtArgs as
def wtArg : FnArg → Bool
  | .lit _ => true
  | .test (.rel ss) => wtSegs ss
  | .test (.abs ss) => wtSegs ss
  | .test (.fn f) => wtFn f
  | .filter f => wtFilter f
end

def query (E : Engine) (ss : List Segment) (root : Json) : List Node := segs E root ss [([], root)]

/-- Normalized Path (RFC 9535 2.7) -/
def hexDigit (n : Nat) : Char := if n < 10 then Char.ofNat (48 + n) else Char.ofNat (87 + n)
def escChar (c : Char) : Str :=
  if c == '\'' then ['\\', '\''] else if c == '\\' then ['\\', '\\']
  else if c.toNat == 8 then ['\\', 'b'] else if c.toNat == 12 then ['\\', 'f']
  else if c == '\n' then ['\\', 'n'] else if c == '\r' then ['\\', 'r'] else if c == '\t' then ['\\', 't']
  else if c.toNat < 0x20 then ['\\', 'u', '0', '0', hexDigit (c.toNat / 16), hexDigit (c.toNat % 16)]
  else [c]
def npath (l : Loc) : Str :=
  '$' :: l.flatMap fun s => match s with
    | .key k => ['[', '\''] ++ k.flatMap escChar ++ ['\'', ']']
    | .idx i => ['['] ++ natStr i ++ [']']

end Spec
end JP
