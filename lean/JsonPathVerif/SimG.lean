import JsonPathVerif.EvalG
/-! Simulation: for any data type `T` with a `Queryable` structure `Q` and any *faithful view* `view : T → Json`, the generic
evaluator `EvalG` commutes with the view: viewing the result of evaluating over `T` is evaluating over the viewed document.
(Instantiating `T := Json`, `view := id` shows in particular that `EvalG` at the `serde_json::Value` instance IS `Eval`.) -/
namespace JP
open List

mutual
def Json.depth : Json → Nat
  | .arr xs => depthL xs + 1
  | .obj kvs => depthM kvs + 1
  | _ => 0
def depthL : List Json → Nat
  | [] => 0
  | x :: xs => max x.depth (depthL xs)
def depthM : List (Str × Json) → Nat
  | [] => 0
  | (_, v) :: kvs => max v.depth (depthM kvs)
end

def asObj : Json → Option (List (Str × Json)) | .obj kvs => some kvs | _ => none
def asStrJ : Json → Option Str | .str s => some s | _ => none
def asBoolJ : Json → Option Bool | .bool b => some b | _ => none

/-- `view` is a faithful view of `T` as JSON: every accessor of the trait commutes with it -/
structure Faithful {T : Type} (Q : Queryable T) (view : T → Json) : Prop where
  asArray : ∀ t, (Q.asArray t).map (List.map view) = asArr (view t)
  asObject : ∀ t, (Q.asObject t).map (List.map fun kv => (kv.1, view kv.2)) = asObj (view t)
  get : ∀ t k, (Q.get t k).map (fun kv => (kv.1, view kv.2)) = valueGet (view t) k
  asStr : ∀ t, Q.asStr t = asStrJ (view t)
  num : ∀ t, Q.num t = numOf (view t)
  asBool : ∀ t, Q.asBool t = asBoolJ (view t)
  null : view Q.null = .null
  ofBool : ∀ b, view (Q.ofBool b) = .bool b
  ofI64 : ∀ i, view (Q.ofI64 i) = .num (.int i)
  ofF64 : ∀ n d, view (Q.ofF64 n d) = .num (.flt n d)
  ofStr : ∀ s, view (Q.ofStr s) = .str s
  beq : ∀ a b, Q.beq a b = (view a).beq (view b)
  ext : ∀ name args, view (Q.extensionCustom name args) = extensionCustom name (args.map view)
  depth : ∀ t, Q.depth t = (view t).depth

variable {T : Type} {Q : Queryable T} {view : T → Json}

def viewP (view : T → Json) (p : PtrG T) : Ptr := ⟨p.loc, view p.inner, p.path⟩
def viewD (view : T → Json) : DataG T → Data
  | .ref p => .ref (viewP view p)
  | .refs ps => .refs (ps.map (viewP view))
  | .value v => .value (view v)
  | .nothing => .nothing

@[simp] theorem viewD_ref (p : PtrG T) : viewD view (.ref p) = .ref (viewP view p) := rfl
@[simp] theorem viewD_refs (ps : List (PtrG T)) : viewD view (.refs ps) = .refs (ps.map (viewP view)) := rfl
@[simp] theorem viewD_value (v : T) : viewD view (.value v) = .value (view v) := rfl
@[simp] theorem viewD_nothing : viewD view (.nothing : DataG T) = .nothing := rfl
@[simp] theorem viewP_loc (p : PtrG T) : (viewP view p).loc = p.loc := rfl
@[simp] theorem viewP_inner (p : PtrG T) : (viewP view p).inner = view p.inner := rfl
@[simp] theorem viewP_path (p : PtrG T) : (viewP view p).path = p.path := rfl

theorem viewD_toVec (d : DataG T) : (viewD view d).toVec = d.toVec.map (viewP view) := by
  cases d <;> simp [viewD, Data.toVec, DataG.toVec]

theorem viewD_reduce (a b : DataG T) : viewD view (a.reduce b) = (viewD view a).reduce (viewD view b) := by
  cases a <;> cases b <;> simp [viewD, Data.reduce, DataG.reduce]

theorem viewD_flatMap (f : PtrG T → DataG T) (g : Ptr → Data) (h : ∀ p, viewD view (f p) = g (viewP view p)) (d : DataG T) :
    viewD view (d.flatMap f) = (viewD view d).flatMap g := by
  cases d with
  | ref p => simpa [Data.flatMap, DataG.flatMap, viewD] using h p
  | refs ps =>
    simp only [viewD, Data.flatMap, DataG.flatMap, List.map_flatMap, List.flatMap_map, Data.refs.injEq]
    congr 1; funext p
    rw [← h p, viewD_toVec]
  | value v => simp [viewD, Data.flatMap, DataG.flatMap]
  | nothing => simp [viewD, Data.flatMap, DataG.flatMap]

theorem viewP_idx (x : T) (loc : Loc) (path : Str) (i : Nat) :
    viewP view (PtrG.idx x loc path i) = Ptr.idx (view x) loc path i := rfl
theorem viewP_key (x : T) (loc : Loc) (rk path k : Str) :
    viewP view (PtrG.key x loc rk path k) = Ptr.key (view x) loc rk path k := by
  unfold PtrG.key Ptr.key viewP; split <;> rfl
theorem viewP_empty (x : T) (loc : Loc) : viewP view (PtrG.empty x loc) = Ptr.empty (view x) loc := rfl

theorem zipIdxFrom_map_view (xs : List T) (i : Nat) :
    zipIdxFrom (xs.map view) i = (zipIdxFrom xs i).map fun xi => (view xi.1, xi.2) := by
  induction xs generalizing i with
  | nil => rfl
  | cons x xs ih => simp [zipIdxFrom, ih]

theorem flatMap_congr' {α β} : ∀ (l : List α) (f g : α → List β), (∀ a ∈ l, f a = g a) → l.flatMap f = l.flatMap g
  | [], _, _, _ => rfl
  | a :: l, f, g, h => by
    simp only [List.flatMap_cons, h a (by simp)]
    rw [flatMap_congr' l f g (fun b hb => h b (List.mem_cons_of_mem _ hb))]

theorem depthL_mem : ∀ (xs : List Json) (x : Json), x ∈ xs → x.depth ≤ depthL xs
  | [], _, h => by simp at h
  | y :: ys, x, h => by
    simp only [List.mem_cons] at h
    rcases h with rfl | h
    · simp [depthL]; omega
    · have := depthL_mem ys x h; simp [depthL]; omega
theorem depthM_mem : ∀ (kvs : List (Str × Json)) (k : Str) (v : Json), (k, v) ∈ kvs → v.depth ≤ depthM kvs
  | [], _, _, h => by simp at h
  | (k', y) :: ys, k, x, h => by
    simp only [List.mem_cons, Prod.mk.injEq] at h
    rcases h with ⟨_, rfl⟩ | h
    · simp [depthM]; omega
    · have := depthM_mem ys k x h; simp [depthM]; omega

/-- the structural `descendant` of `Eval.lean`, as a list function over an index-zipped child list -/
theorem descList_eq (loc : Loc) (path : Str) : ∀ (xs : List Json) (i : Nat),
    descList loc path i xs = (zipIdxFrom xs i).flatMap fun xi => (descendant (Ptr.idx xi.1 loc path xi.2) xi.1).toVec
  | [], _ => rfl
  | x :: xs, i => by simp [descList, zipIdxFrom, descList_eq loc path xs (i+1)]
theorem descMembers_eq (loc : Loc) (path : Str) : ∀ (kvs : List (Str × Json)),
    descMembers loc path kvs = kvs.flatMap fun kv => (descendant (Ptr.key kv.2 loc kv.1 path kv.1) kv.2).toVec
  | [] => rfl
  | (k, v) :: kvs => by simp [descMembers, descMembers_eq loc path kvs]


section
variable (hf : Faithful Q view)
include hf

/-- what the accessors say about a value whose view is an array -/
theorem Faithful.arr {t : T} {js : List Json} (h : view t = .arr js) :
    ∃ xs, Q.asArray t = some xs ∧ xs.map view = js := by
  have := hf.asArray t
  rw [h] at this
  cases hq : Q.asArray t with
  | none => simp [hq, asArr] at this
  | some xs => exact ⟨xs, rfl, by simpa [hq, asArr] using this⟩
theorem Faithful.not_arr {t : T} (h : asArr (view t) = none) : Q.asArray t = none := by
  have := hf.asArray t
  rw [h] at this
  cases hq : Q.asArray t with
  | none => rfl
  | some xs => simp [hq] at this
theorem Faithful.obj {t : T} {kvs : List (Str × Json)} (h : view t = .obj kvs) :
    ∃ xs, Q.asObject t = some xs ∧ (xs.map fun kv => (kv.1, view kv.2)) = kvs ∧ Q.asArray t = none := by
  have := hf.asObject t
  rw [h] at this
  have ha := hf.not_arr (t := t) (by rw [h]; rfl)
  cases hq : Q.asObject t with
  | none => simp [hq, asObj] at this
  | some xs => exact ⟨xs, rfl, by simpa [hq, asObj] using this, ha⟩
theorem Faithful.not_obj {t : T} (h : asObj (view t) = none) : Q.asObject t = none := by
  have := hf.asObject t
  rw [h] at this
  cases hq : Q.asObject t with
  | none => rfl
  | some xs => simp [hq] at this
theorem Faithful.scalar {t : T} (h1 : asArr (view t) = none) (h2 : asObj (view t) = none) :
    Q.asArray t = none ∧ Q.asObject t = none := ⟨hf.not_arr h1, hf.not_obj h2⟩

theorem childrenPtrG_view (p : PtrG T) : (childrenPtrG Q p).map (viewP view) = childrenPtr (viewP view p) := by
  unfold childrenPtrG childrenPtr
  cases h : view p.inner with
  | arr js =>
    obtain ⟨xs, h1, h2⟩ := hf.arr h
    simp only [h1, viewP_inner, h, ← h2, zipIdxFrom_map_view, List.map_map]
    rfl
  | obj kvs =>
    obtain ⟨xs, h1, h2, h3⟩ := hf.obj h
    simp only [h1, h3, viewP_inner, h, ← h2, List.map_map]
    congr 1
  | null => obtain ⟨a, b⟩ := hf.scalar (t := p.inner) (by rw [h]; rfl) (by rw [h]; rfl); simp [a, b, h]
  | bool _ => obtain ⟨a, b⟩ := hf.scalar (t := p.inner) (by rw [h]; rfl) (by rw [h]; rfl); simp [a, b, h]
  | num _ => obtain ⟨a, b⟩ := hf.scalar (t := p.inner) (by rw [h]; rfl) (by rw [h]; rfl); simp [a, b, h]
  | str _ => obtain ⟨a, b⟩ := hf.scalar (t := p.inner) (by rw [h]; rfl) (by rw [h]; rfl); simp [a, b, h]

theorem processWildcardG_view (p : PtrG T) : viewD view (processWildcardG Q p) = processWildcard (viewP view p) := by
  have hc := childrenPtrG_view hf p
  unfold processWildcardG processWildcard
  cases h : view p.inner with
  | arr js =>
    obtain ⟨xs, h1, h2⟩ := hf.arr h
    simp only [h1, viewP_inner, h]
    have : xs.isEmpty = js.isEmpty := by rw [← h2]; cases xs <;> rfl
    rw [this]; split <;> simp [viewD, hc]
  | obj kvs =>
    obtain ⟨xs, h1, h2, h3⟩ := hf.obj h
    simp only [h1, h3, viewP_inner, h]
    have : xs.isEmpty = kvs.isEmpty := by rw [← h2]; cases xs <;> rfl
    rw [this]; split <;> simp [viewD, hc]
  | null => obtain ⟨a, b⟩ := hf.scalar (t := p.inner) (by rw [h]; rfl) (by rw [h]; rfl); simp [a, b, h, viewD]
  | bool _ => obtain ⟨a, b⟩ := hf.scalar (t := p.inner) (by rw [h]; rfl) (by rw [h]; rfl); simp [a, b, h, viewD]
  | num _ => obtain ⟨a, b⟩ := hf.scalar (t := p.inner) (by rw [h]; rfl) (by rw [h]; rfl); simp [a, b, h, viewD]
  | str _ => obtain ⟨a, b⟩ := hf.scalar (t := p.inner) (by rw [h]; rfl) (by rw [h]; rfl); simp [a, b, h, viewD]

theorem processSliceG_view (a b c : Option Int) (p : PtrG T) :
    viewD view (processSliceG Q a b c p) = processSlice a b c (viewP view p) := by
  unfold processSliceG processSlice
  cases h : view p.inner
  case arr js =>
    obtain ⟨xs, h1, h2⟩ := hf.arr h
    simp only [h1, viewP_inner, h, viewD, ← h2, List.length_map, List.map_filterMap, Data.refs.injEq]
    congr 1; funext i
    simp only [List.getElem?_map]
    cases xs[i.toNat]? <;> simp [viewP_idx]
  case obj kvs =>
    obtain ⟨xs, h1, h2, h3⟩ := hf.obj h
    simp [h3, h, viewD]
  all_goals (obtain ⟨x1, x2⟩ := hf.scalar (t := p.inner) (by rw [h]; rfl) (by rw [h]; rfl); simp [x1, h, viewD])

theorem processKeyG_view (k : Str) (p : PtrG T) : viewD view (processKeyG Q k p) = processKey k (viewP view p) := by
  unfold processKeyG processKey
  have := hf.get p.inner (normalizeKey k)
  simp only [viewP_inner]
  rw [← this]
  cases Q.get p.inner (normalizeKey k) with
  | none => simp [viewD]
  | some kv => simp [viewD, viewP_key]

theorem processIndexG_view (i : Int) (p : PtrG T) : viewD view (processIndexG Q i p) = processIndex i (viewP view p) := by
  unfold processIndexG processIndex
  cases h : view p.inner
  case arr js =>
    obtain ⟨xs, h1, h2⟩ := hf.arr h
    simp only [h1, viewP_inner, h, ← h2, List.length_map, List.getElem?_map]
    split
    · split
      · simp [viewD]
      · cases xs[i.toNat]? <;> simp [viewD, viewP_idx]
    · split
      · simp [viewD]
      · cases xs[xs.length - i.natAbs]? <;> simp [viewD, viewP_idx]
  case obj kvs =>
    obtain ⟨xs, h1, h2, h3⟩ := hf.obj h
    simp [h3, h, viewD]
  all_goals (obtain ⟨x1, x2⟩ := hf.scalar (t := p.inner) (by rw [h]; rfl) (by rw [h]; rfl); simp [x1, h, viewD])

theorem descendantFuel_view : ∀ (fuel : Nat) (p : PtrG T), (view p.inner).depth < fuel →
    viewD view (descendantFuel Q fuel p) = descendant (viewP view p) (view p.inner)
  | 0, _, h => by omega
  | fuel+1, p, hfuel => by
    unfold descendantFuel
    cases h : view p.inner
    case arr js =>
      obtain ⟨xs, h1, h2⟩ := hf.arr h
      simp only [h1, descendant, viewD_reduce, viewD_ref, viewD_refs, viewP_loc, viewP_path, descList_eq]
      congr 2
      subst h2
      rw [zipIdxFrom_map_view, List.map_flatMap, List.flatMap_map]
      dsimp only
      refine flatMap_congr' _ _ _ ?_
      intro xi hxi
      have hmem : view xi.1 ∈ xs.map view := by
        have : xi.1 ∈ xs := by
          clear h1 h hfuel
          generalize 0 = k at hxi
          induction xs generalizing k with
          | nil => simp [zipIdxFrom] at hxi
          | cons y ys ih =>
            simp only [zipIdxFrom, List.mem_cons] at hxi
            rcases hxi with rfl | hxi
            · simp
            · exact List.mem_cons_of_mem _ (ih _ hxi)
        exact List.mem_map_of_mem this
      have hd : (view xi.1).depth < fuel := by
        have := depthL_mem _ _ hmem
        rw [h] at hfuel; simp only [Json.depth] at hfuel; omega
      have ih := descendantFuel_view fuel (PtrG.idx xi.1 p.loc p.path xi.2) (by simpa [PtrG.idx] using hd)
      rw [← viewD_toVec, ih]
      rfl
    case obj kvs =>
      obtain ⟨xs, h1, h2, h3⟩ := hf.obj h
      simp only [h1, h3, descendant, viewD_reduce, viewD_ref, viewD_refs, viewP_loc, viewP_path, descMembers_eq]
      congr 2
      subst h2
      rw [List.map_flatMap, List.flatMap_map]
      dsimp only
      refine flatMap_congr' _ _ _ ?_
      intro kv hkv
      have hmem : (kv.1, view kv.2) ∈ xs.map fun kv => (kv.1, view kv.2) :=
        List.mem_map_of_mem (f := fun kv => (kv.1, view kv.2)) hkv
      have hd : (view kv.2).depth < fuel := by
        have := depthM_mem _ _ _ hmem
        rw [h] at hfuel; simp only [Json.depth] at hfuel; omega
      have ih := descendantFuel_view fuel (PtrG.key kv.2 p.loc kv.1 p.path kv.1) (by simpa [PtrG.key] using hd)
      rw [← viewD_toVec, ih, viewP_key]
      simp [PtrG.key]
    all_goals (obtain ⟨x1, x2⟩ := hf.scalar (t := p.inner) (by rw [h]; rfl) (by rw [h]; rfl); simp [x1, x2, descendant, viewD])

theorem descendantG_view (p : PtrG T) : viewD view (descendantG Q p) = processDescendant (viewP view p) := by
  unfold descendantG processDescendant
  exact descendantFuel_view hf _ p (by rw [hf.depth]; omega)

theorem boolOfG_view (d : DataG T) : boolOfG Q d = boolOf (viewD view d) := by
  cases d <;> simp [boolOfG, boolOf]
  rename_i v
  rw [hf.asBool]
  cases view v <;> simp [asBoolJ]

theorem dboolG_view (b : Bool) : viewD view (dboolG Q b) = dbool b := by simp [dboolG, dbool, hf.ofBool]
theorem di64G_view (n : Nat) : viewD view (di64G Q n) = di64 n := by simp [di64G, di64, hf.ofI64]

theorem filter_children_view (item : PtrG T → Bool) (item' : Ptr → Bool) (h : ∀ p, item p = item' (viewP view p)) (p : PtrG T) :
    ((childrenPtrG Q p).filter fun c => item (PtrG.empty c.inner c.loc)).map (viewP view)
      = (childrenPtr (viewP view p)).filter fun c => item' (Ptr.empty c.inner c.loc) := by
  rw [← childrenPtrG_view hf p, List.filter_map]
  congr 1
  refine List.filter_congr ?_
  intro c _
  simp [h, viewP_empty, Function.comp_def]

theorem filterChildrenWithG_view (item : PtrG T → Bool) (item' : Ptr → Bool) (h : ∀ p, item p = item' (viewP view p)) (d : DataG T) :
    viewD view (filterChildrenWithG Q item d) = filterChildrenWith item' (viewD view d) := by
  unfold filterChildrenWithG filterChildrenWith
  refine viewD_flatMap _ _ ?_ d
  intro p
  have hc := filter_children_view hf item item' h p
  cases hv : view p.inner
  case arr js => obtain ⟨xs, h1, h2⟩ := hf.arr hv; simp [h1, hv, hc]
  case obj kvs => obtain ⟨xs, h1, h2, h3⟩ := hf.obj hv; simp [h1, h3, hv, hc]
  all_goals (obtain ⟨x1, x2⟩ := hf.scalar (t := p.inner) (by rw [hv]; rfl) (by rw [hv]; rfl); simp [x1, x2, hv])

theorem filterProcessWithG_view (item : PtrG T → Bool) (item' : Ptr → Bool) (h : ∀ p, item p = item' (viewP view p)) (d : DataG T) :
    viewD view (filterProcessWithG Q item d) = filterProcessWith item' (viewD view d) := by
  unfold filterProcessWithG filterProcessWith
  refine viewD_flatMap _ _ ?_ d
  intro p
  have hc := filter_children_view hf item item' h p
  have hi : p.isInternal = (viewP view p).isInternal := rfl
  rw [← hi]
  by_cases hint : p.isInternal = true
  · simp [hint, dboolG_view hf, h]
  · simp only [hint, Bool.false_eq_true, if_false]
    cases hv : view p.inner
    case arr js => obtain ⟨xs, h1, h2⟩ := hf.arr hv; simp [h1, hv, hc]
    case obj kvs => obtain ⟨xs, h1, h2, h3⟩ := hf.obj hv; simp [h1, h3, hv, hc]
    all_goals (obtain ⟨x1, x2⟩ := hf.scalar (t := p.inner) (by rw [hv]; rfl) (by rw [hv]; rfl); simp [x1, x2, hv])

end

-- list forms of the structural equality of `Eval.lean`
theorem eqJsonL_zip : ∀ (xs ys : List Json), eqJsonL xs ys = (xs.length == ys.length && (List.zipWith eqJson xs ys).all id)
  | [], [] => by simp [eqJsonL]
  | [], _ :: _ => by simp [eqJsonL]
  | _ :: _, [] => by simp [eqJsonL]
  | x :: xs, y :: ys => by simp [eqJsonL, eqJsonL_zip xs ys, Bool.and_comm, Bool.and_assoc, Bool.and_left_comm]
theorem eqJsonFind_any (k : Str) (x : Json) : ∀ (ys : List (Str × Json)), eqJsonFind k x ys = ys.any fun ky => k == ky.1 && eqJson x ky.2
  | [] => by simp [eqJsonFind]
  | (k', y) :: ys => by simp [eqJsonFind, eqJsonFind_any k x ys]
theorem eqJsonSub_all : ∀ (xs ys : List (Str × Json)), eqJsonSub xs ys = xs.all fun kx => ys.any fun ky => kx.1 == ky.1 && eqJson kx.2 ky.2
  | [], _ => by simp [eqJsonSub]
  | (k, x) :: xs, ys => by simp [eqJsonSub, eqJsonFind_any, eqJsonSub_all xs ys]
theorem eqArrays_zip : ∀ (xs ys : List Json), eqArrays xs ys = (xs.length == ys.length && (List.zipWith eqJson xs ys).all id)
  | [], [] => by simp [eqArrays]
  | [], _ :: _ => by simp [eqArrays]
  | _ :: _, [] => by simp [eqArrays]
  | x :: xs, y :: ys => by simp [eqArrays, eqArrays_zip xs ys, Bool.and_comm, Bool.and_assoc, Bool.and_left_comm]

theorem all_congr' {α} (f g : α → Bool) : ∀ (l : List α), (∀ a ∈ l, f a = g a) → l.all f = l.all g
  | [], _ => rfl
  | a :: l, h => by
    simp only [List.all_cons, h a (by simp)]
    rw [all_congr' f g l (fun b hb => h b (List.mem_cons_of_mem _ hb))]
theorem any_congr' {α} (f g : α → Bool) : ∀ (l : List α), (∀ a ∈ l, f a = g a) → l.any f = l.any g
  | [], _ => rfl
  | a :: l, h => by
    simp only [List.any_cons, h a (by simp)]
    rw [any_congr' f g l (fun b hb => h b (List.mem_cons_of_mem _ hb))]

theorem zipWith_congr' {α β γ} (f g : α → β → γ) : ∀ (xs : List α) (ys : List β), (∀ x ∈ xs, ∀ y, f x y = g x y) →
    List.zipWith f xs ys = List.zipWith g xs ys
  | [], _, _ => by simp
  | _ :: _, [], _ => by simp
  | x :: xs, y :: ys, h => by
    simp only [List.zipWith_cons_cons, h x (by simp) y]
    rw [zipWith_congr' f g xs ys (fun a ha b => h a (List.mem_cons_of_mem _ ha) b)]

section
variable (hf : Faithful Q view)
include hf

theorem eqJsonFuel_view : ∀ (fuel : Nat) (a b : T), (view a).depth < fuel →
    eqJsonFuel Q fuel a b = eqJson (view a) (view b)
  | 0, _, _, h => by omega
  | fuel+1, a, b, hfuel => by
    unfold eqJsonFuel
    rw [hf.num a, hf.num b]
    cases ha : view a <;> cases hb : view b <;> simp only [numOf, eqJson]
    case arr.arr xs ys =>
      obtain ⟨xs', h1, h2⟩ := hf.arr ha
      obtain ⟨ys', h3, h4⟩ := hf.arr hb
      subst h2; subst h4
      simp only [h1, h3, eqJsonL_zip, List.length_map, List.zipWith_map]
      congr 2
      refine zipWith_congr' _ _ _ _ ?_
      intro x hx y
      have hd : (view x).depth < fuel := by
        have := depthL_mem _ _ (List.mem_map_of_mem (f := view) hx)
        rw [ha] at hfuel; simp only [Json.depth] at hfuel; omega
      exact eqJsonFuel_view fuel x y hd
    case obj.obj xs ys =>
      obtain ⟨xs', h1, h2, h1a⟩ := hf.obj ha
      obtain ⟨ys', h3, h4, h3a⟩ := hf.obj hb
      subst h2; subst h4
      simp only [h1, h3, h1a, h3a, eqJsonSub_all, List.length_map, List.all_map, List.any_map, Function.comp_def]
      congr 1
      refine all_congr' _ _ _ ?_
      intro kx hkx
      have hd : (view kx.2).depth < fuel := by
        have := depthM_mem _ _ _ (List.mem_map_of_mem (f := fun kv => (kv.1, view kv.2)) hkx)
        rw [ha] at hfuel; simp only [Json.depth] at hfuel; omega
      refine any_congr' _ _ _ ?_
      intro ky _
      rw [eqJsonFuel_view fuel kx.2 ky.2 hd]
    all_goals first
      | (have a1 := hf.not_arr (t := a) (by rw [ha]; rfl); simp only [a1]
         first
           | (have a2 := hf.not_obj (t := a) (by rw [ha]; rfl); simp [a2, hf.beq, ha, hb, Json.beq])
           | (have b2 := hf.not_obj (t := b) (by rw [hb]; rfl); simp [b2, hf.beq, ha, hb, Json.beq]))
      | (have b1 := hf.not_arr (t := b) (by rw [hb]; rfl); simp only [b1]
         first
           | (have a2 := hf.not_obj (t := a) (by rw [ha]; rfl); simp [a2, hf.beq, ha, hb, Json.beq])
           | (have b2 := hf.not_obj (t := b) (by rw [hb]; rfl); simp [b2, hf.beq, ha, hb, Json.beq]))

theorem eqJsonG_view (a b : T) : eqJsonG Q a b = eqJson (view a) (view b) := by
  unfold eqJsonG
  exact eqJsonFuel_view hf _ a b (by rw [hf.depth]; omega)

theorem ltJsonG_view (a b : T) : ltJsonG Q a b = ltJson (view a) (view b) := by
  unfold ltJsonG ltJson
  rw [hf.num a, hf.num b, hf.asStr a, hf.asStr b]
  cases view a <;> cases view b <;> simp [numOf, asStrJ]

theorem ptrsEqG_view : ∀ (l r : List (PtrG T)), ptrsEqG Q l r = ptrsEq (l.map (viewP view)) (r.map (viewP view))
  | [], [] => rfl
  | [], _ :: _ => rfl
  | _ :: _, [] => rfl
  | a :: l, b :: r => by simp [ptrsEqG, ptrsEq, ptrEq, hf.beq, ptrsEqG_view l r]

theorem eqDataG_view (l r : DataG T) : eqDataG Q l r = eqData (viewD view l) (viewD view r) := by
  cases l <;> cases r <;> simp [eqDataG, eqData, eqJsonG_view hf, ptrsEqG_view hf]
  rename_i p ps
  cases hv : view p.inner
  case arr js =>
    obtain ⟨xs, h1, h2⟩ := hf.arr hv
    subst h2
    simp only [h1, eqArrays_zip, List.length_map, List.zipWith_map_right, List.zipWith_map_left]
    congr 2
    refine zipWith_congr' _ _ _ _ ?_
    intro x _ y
    simp [eqJsonG_view hf]
  case obj kvs => obtain ⟨xs, h1, h2, h3⟩ := hf.obj hv; simp [h3]
  all_goals (obtain ⟨x1, x2⟩ := hf.scalar (t := p.inner) (by rw [hv]; rfl) (by rw [hv]; rfl); simp [x1])

theorem ltDataG_view (l r : DataG T) : ltDataG Q l r = ltData (viewD view l) (viewD view r) := by
  cases l <;> cases r <;> simp [ltDataG, ltData, ltJsonG_view hf]

theorem cmpDataG_view (op : CmpOp) (l r : DataG T) : cmpDataG Q op l r = cmpData op (viewD view l) (viewD view r) := by
  cases op <;> simp [cmpDataG, cmpData, eqDataG_view hf, ltDataG_view hf]

theorem literalValueG_view (l : Literal) : view (literalValueG Q l) = literalValue l := by
  cases l <;> simp [literalValueG, literalValue, hf.ofI64, hf.ofF64, hf.ofStr, hf.ofBool, hf.null]

theorem processSQSegG_view (d : DataG T) (s : SQSeg) : viewD view (processSQSegG Q d s) = processSQSeg (viewD view d) s := by
  cases s with
  | index i => exact viewD_flatMap _ _ (processIndexG_view hf i) d
  | name k => exact viewD_flatMap _ _ (processKeyG_view hf k) d

theorem foldl_SQ_view : ∀ (segs : List SQSeg) (d : DataG T),
    viewD view (segs.foldl (processSQSegG Q) d) = segs.foldl processSQSeg (viewD view d)
  | [], _ => rfl
  | s :: segs, d => by simp only [List.foldl_cons, foldl_SQ_view segs, processSQSegG_view hf]

theorem lengthItemG_view (j : T) : viewD view (lengthItemG Q j) =
    (match view j with | .str s => di64 s.length | .arr xs => di64 xs.length | .obj kvs => di64 kvs.length | _ => .nothing) := by
  unfold lengthItemG
  rw [hf.asStr]
  cases hv : view j
  case str s => simp [asStrJ, di64G_view hf]
  case arr js => obtain ⟨xs, h1, h2⟩ := hf.arr hv; subst h2; simp [asStrJ, h1, di64G_view hf]
  case obj kvs => obtain ⟨xs, h1, h2, h3⟩ := hf.obj hv; subst h2; simp [asStrJ, h1, h3, di64G_view hf]
  all_goals (obtain ⟨x1, x2⟩ := hf.scalar (t := j) (by rw [hv]; rfl) (by rw [hv]; rfl); simp [asStrJ, x1, x2])

theorem lengthFnG_view (d : DataG T) : viewD view (lengthFnG Q d) = lengthFn (viewD view d) := by
  cases d with
  | ref p => simp only [lengthFnG, lengthFn, viewD_ref, viewP_inner, lengthItemG_view hf]; cases view p.inner <;> rfl
  | refs ps => simp [lengthFnG, lengthFn, di64G_view hf]
  | value v => simp only [lengthFnG, lengthFn, viewD_value, lengthItemG_view hf]; cases view v <;> rfl
  | nothing => rfl

theorem countFnG_view (d : DataG T) : viewD view (countFnG Q d) = countFn (viewD view d) := by
  cases d <;> simp [countFnG, countFn, di64G_view hf]

theorem valueFnG_view (d : DataG T) : viewD view (valueFnG d) = valueFn (viewD view d) := by
  cases d with
  | refs ps => match ps with
    | [] => rfl
    | [p] => rfl
    | _ :: _ :: _ => rfl
  | _ => rfl

theorem argValuesG_view (d : DataG T) : (argValuesG d).map view = argValues (viewD view d) := by
  cases d <;> simp [argValuesG, argValues, Function.comp_def]

theorem toStrDG_view (d : DataG T) : toStrDG Q d = toStrD (viewD view d) := by
  cases d with
  | value v => simp only [toStrDG, toStrD, viewD_value, hf.asStr]; cases view v <;> rfl
  | ref p => simp only [toStrDG, toStrD, viewD_ref, viewP_inner, hf.asStr]; cases view p.inner <;> rfl
  | refs ps => rfl
  | nothing => rfl

theorem toPatDG_view (d : DataG T) : toPatDG Q d = toPatD (viewD view d) := by
  cases d with
  | value v => simp only [toPatDG, toPatD, viewD_value, hf.asStr]; cases view v <;> rfl
  | ref p => simp only [toPatDG, toPatD, viewD_ref, viewP_inner, hf.asStr]; cases view p.inner <;> rfl
  | refs ps => rfl
  | nothing => rfl

theorem presentOfG_view (d : DataG T) : presentOfG d = presentOf (viewD view d) := by
  cases d <;> simp [presentOfG, presentOf]

omit hf in
theorem rootDataG_view (root : T) : viewD view (rootDataG root) = rootData (view root) := rfl

variable (E : Engine) (root : T)

mutual
theorem Segment.processG_view : ∀ (s : Segment) (d : DataG T),
    viewD view (s.processG Q E root d) = s.process E (view root) (viewD view d)
  | .descendant s, d => by
      simp only [Segment.processG, Segment.process]
      rw [Segment.processG_view s, viewD_flatMap _ _ (descendantG_view hf) d]
  | .selector s, d => by simp only [Segment.processG, Segment.process, Selector.processG_view s d]
  | .selectors ss, d => by simp only [Segment.processG, Segment.process, Selector.processAllG_view ss d]
theorem Selector.processAllG_view : ∀ (ss : List Selector) (d : DataG T),
    viewD view (Selector.processAllG Q E root ss d) = Selector.processAll E (view root) ss (viewD view d)
  | [], _ => rfl
  | [s], d => by simp only [Selector.processAllG, Selector.processAll, Selector.processG_view s d]
  | s :: s' :: ss, d => by
      simp only [Selector.processAllG, Selector.processAll, viewD_reduce, Selector.processG_view s d,
        Selector.processAllG_view (s' :: ss) d]
theorem Selector.processG_view : ∀ (s : Selector) (d : DataG T),
    viewD view (s.processG Q E root d) = s.process E (view root) (viewD view d)
  | .name k, d => viewD_flatMap _ _ (processKeyG_view hf k) d
  | .index i, d => viewD_flatMap _ _ (processIndexG_view hf i) d
  | .wildcard, d => viewD_flatMap _ _ (processWildcardG_view hf) d
  | .slice a b c, d => viewD_flatMap _ _ (processSliceG_view hf a b c) d
  | .filter f, d => by
      simp only [Selector.processG, Selector.process]
      refine filterChildrenWithG_view hf _ _ ?_ d
      intro p
      rw [boolOfG_view hf, Filter.elemG_view f (.ref p)]; rfl
theorem Segment.processListG_view : ∀ (ss : List Segment) (d : DataG T),
    viewD view (Segment.processListG Q E root ss d) = Segment.processList E (view root) ss (viewD view d)
  | [], _ => rfl
  | s :: ss, d => by
      simp only [Segment.processListG, Segment.processList]
      rw [Segment.processListG_view ss, Segment.processG_view s d]
theorem Filter.elemG_view : ∀ (f : Filter) (d : DataG T),
    viewD view (f.elemG Q E root d) = f.elem E (view root) (viewD view d)
  | .or fs, d => by simp only [Filter.elemG, Filter.elem, dboolG_view hf, Filter.anyG_view fs d]
  | .and fs, d => by simp only [Filter.elemG, Filter.elem, dboolG_view hf, Filter.allG_view fs d]
  | .atom a, d => by simp only [Filter.elemG, Filter.elem, FilterAtom.processG_view a d]
theorem Filter.anyG_view : ∀ (fs : List Filter) (d : DataG T),
    Filter.anyG Q E root fs d = Filter.any E (view root) fs (viewD view d)
  | [], _ => rfl
  | f :: fs, d => by
      simp only [Filter.anyG, Filter.any]
      rw [Filter.anyG_view fs d, boolOfG_view hf,
        filterProcessWithG_view hf _ (fun p => boolOf (f.elem E (view root) (.ref p))) (fun p => by
          rw [boolOfG_view hf, Filter.elemG_view f (.ref p)]; rfl) d]
theorem Filter.allG_view : ∀ (fs : List Filter) (d : DataG T),
    Filter.allG Q E root fs d = Filter.all E (view root) fs (viewD view d)
  | [], _ => rfl
  | f :: fs, d => by
      simp only [Filter.allG, Filter.all]
      rw [Filter.allG_view fs d, boolOfG_view hf,
        filterProcessWithG_view hf _ (fun p => boolOf (f.elem E (view root) (.ref p))) (fun p => by
          rw [boolOfG_view hf, Filter.elemG_view f (.ref p)]; rfl) d]
theorem FilterAtom.processG_view : ∀ (a : FilterAtom) (d : DataG T),
    viewD view (a.processG Q E root d) = a.process E (view root) (viewD view d)
  | .filter e n, d => by
      have h := filterProcessWithG_view hf (fun p => boolOfG Q (e.elemG Q E root (.ref p)))
        (fun p => boolOf (e.elem E (view root) (.ref p))) (fun p => by
          rw [boolOfG_view hf, Filter.elemG_view e (.ref p)]; rfl) d
      simp only [FilterAtom.processG, FilterAtom.process]
      cases n
      · simpa using h
      · simp only [cond_true]
        rw [dboolG_view hf, boolOfG_view hf, h]
  | .test e n, d => by
      have h := Test.processG_view e d
      simp only [FilterAtom.processG, FilterAtom.process]
      cases e.isResBool <;> cases n <;>
        simp only [cond_true, cond_false, dboolG_view hf, boolOfG_view hf, presentOfG_view hf, h]
      all_goals (cases presentOf (Test.process E (view root) e (viewD view d)) <;> simp [dboolG_view hf])
  | .cmp op l r, d => by
      simp only [FilterAtom.processG, FilterAtom.process, dboolG_view hf, cmpDataG_view hf,
        Comparable.processG_view l d, Comparable.processG_view r d]
theorem Comparable.processG_view : ∀ (c : Comparable) (d : DataG T),
    viewD view (c.processG Q E root d) = c.process E (view root) (viewD view d)
  | .lit l, _ => by simp only [Comparable.processG, Comparable.process, viewD_value, literalValueG_view hf]
  | .fn f, d => by simp only [Comparable.processG, Comparable.process, TestFunction.processG_view f d]
  | .sq isRoot segs, d => by
      simp only [Comparable.processG, Comparable.process, foldl_SQ_view hf]
      cases isRoot <;> simp [rootDataG_view root]
theorem Test.processG_view : ∀ (t : Test) (d : DataG T),
    viewD view (t.processG Q E root d) = t.process E (view root) (viewD view d)
  | .rel segs, d => by simp only [Test.processG, Test.process, Segment.processListG_view segs d]
  | .abs segs, _ => by simp only [Test.processG, Test.process, Segment.processListG_view segs _, rootDataG_view root]
  | .fn f, d => by simp only [Test.processG, Test.process, TestFunction.processG_view f d]
theorem TestFunction.processG_view : ∀ (f : TestFunction) (d : DataG T),
    viewD view (f.processG Q E root d) = f.process E (view root) (viewD view d)
  | .length a, d => by simp only [TestFunction.processG, TestFunction.process, lengthFnG_view hf, FnArg.processG_view a d]
  | .count a, d => by simp only [TestFunction.processG, TestFunction.process, countFnG_view hf, FnArg.processG_view a d]
  | .value a, d => by simp only [TestFunction.processG, TestFunction.process, valueFnG_view hf, FnArg.processG_view a d]
  | .match a b, d => by
      simp only [TestFunction.processG, TestFunction.process, toStrDG_view hf, toPatDG_view hf, FnArg.processG_view a d, FnArg.processG_view b d]
      split <;> simp_all [dboolG_view hf]
  | .search a b, d => by
      simp only [TestFunction.processG, TestFunction.process, toStrDG_view hf, toPatDG_view hf, FnArg.processG_view a d, FnArg.processG_view b d]
      split <;> simp_all [dboolG_view hf]
  | .custom name args, d => by
      simp only [TestFunction.processG, TestFunction.process, viewD_value, hf.ext, FnArg.valuesG_view args d]
theorem FnArg.valuesG_view : ∀ (args : List FnArg) (d : DataG T),
    (FnArg.valuesG Q E root args d).map view = FnArg.values E (view root) args (viewD view d)
  | [], _ => rfl
  | a :: as, d => by
      simp only [FnArg.valuesG, FnArg.values, List.map_append, argValuesG_view hf, FnArg.processG_view a d, FnArg.valuesG_view as d]
theorem FnArg.processG_view : ∀ (a : FnArg) (d : DataG T),
    viewD view (a.processG Q E root d) = a.process E (view root) (viewD view d)
  | .lit l, _ => by simp only [FnArg.processG, FnArg.process, viewD_value, literalValueG_view hf]
  | .test t, d => by simp only [FnArg.processG, FnArg.process, Test.processG_view t d]
  | .filter f, d => by
      simp only [FnArg.processG, FnArg.process]
      exact filterProcessWithG_view hf _ _ (fun p => by rw [boolOfG_view hf, Filter.elemG_view f (.ref p)]; rfl) d
end

/-- the whole evaluator commutes with any faithful view -/
theorem jsPathProcessG_view (segs : List Segment) :
    (match jsPathProcessG Q E root segs with
      | .ok ps => Except.ok (ps.map (viewP view))
      | .error e => .error e) = jsPathProcess E segs (view root) := by
  unfold jsPathProcessG jsPathProcess
  have h := Segment.processListG_view hf E root segs (rootDataG root)
  rw [rootDataG_view root] at h
  rw [← h]
  cases Segment.processListG Q E root segs (rootDataG root) <;> simp [viewD]

end
end JP
