import JsonPathVerif.EvalG
/-! Simulation: for any data type `T` with a `Queryable` structure `Q` and any *faithful view* `view : T → Json`, the generic
evaluator `EvalG` commutes with the view: viewing the result of evaluating over `T` is evaluating over the viewed document.
(Instantiating `T := Json`, `view := id` shows in particular that `EvalG` at the `serde_json::Value` instance IS `Eval`.) -/
namespace JP
open List

mutual
def Json.depth : Json → Nat
  | .arr xs => depthL xs + 1
  | .obj kvs => depthM kvs + 1
  | _ => 0
def depthL : List Json → Nat
  | [] => 0
  | x :: xs => max x.depth (depthL xs)
def depthM : List (Str × Json) → Nat
  | [] => 0
  | (_, v) :: kvs => max v.depth (depthM kvs)
end

def asObj : Json → Option (List (Str × Json)) | .obj kvs => some kvs | _ => none
def asStrJ : Json → Option Str | .str s => some s | _ => none
def asBoolJ : Json → Option Bool | .bool b => some b | _ => none

/-- `view` is a faithful view of `T` as JSON: every accessor of the trait commutes with it -/
structure Faithful {T : Type} (Q : Queryable T) (view : T → Json) : Prop where
  asArray : ∀ t, (Q.asArray t).map (List.map view) = asArr (view t)
  asObject : ∀ t, (Q.asObject t).map (List.map fun kv => (kv.1, view kv.2)) = asObj (view t)
  get : ∀ t k, (Q.get t k).map (fun kv => (kv.1, view kv.2)) = valueGet (view t) k
  asStr : ∀ t, Q.asStr t = asStrJ (view t)
  num : ∀ t, Q.num t = numOf (view t)
  asBool : ∀ t, Q.asBool t = asBoolJ (view t)
  null : view Q.null = .null
  ofBool : ∀ b, view (Q.ofBool b) = .bool b
  ofI64 : ∀ i, view (Q.ofI64 i) = .num (.int i)
  ofF64 : ∀ n d, view (Q.ofF64 n d) = .num (.flt n d)
  ofStr : ∀ s, view (Q.ofStr s) = .str s
  beq : ∀ a b, Q.beq a b = (view a).beq (view b)
  ext : ∀ name args, view (Q.extensionCustom name args) = extensionCustom name (args.map view)
  depth : ∀ t, Q.depth t = (view t).depth

variable {T : Type} {Q : Queryable T} {view : T → Json}

def viewP (view : T → Json) (p : PtrG T) : Ptr := ⟨p.loc, view p.inner, p.path⟩
def viewD (view : T → Json) : DataG T → Data
  | .ref p => .ref (viewP view p)
  | .refs ps => .refs (ps.map (viewP view))
  | .value v => .value (view v)
  | .nothing => .nothing

@[simp] theorem viewD_ref (p : PtrG T) : viewD view (.ref p) = .ref (viewP view p) := rfl
@[simp] theorem viewD_refs (ps : List (PtrG T)) : viewD view (.refs ps) = .refs (ps.map (viewP view)) := rfl
@[simp] theorem viewD_value (v : T) : viewD view (.value v) = .value (view v) := rfl
@[simp] theorem viewD_nothing : viewD view (.nothing : DataG T) = .nothing := rfl
@[simp] theorem viewP_loc (p : PtrG T) : (viewP view p).loc = p.loc := rfl
@[simp] theorem viewP_inner (p : PtrG T) : (viewP view p).inner = view p.inner := rfl
@[simp] theorem viewP_path (p : PtrG T) : (viewP view p).path = p.path := rfl

theorem viewD_toVec (d : DataG T) : (viewD view d).toVec = d.toVec.map (viewP view) := by
  cases d <;> simp [viewD, Data.toVec, DataG.toVec]

theorem viewD_reduce (a b : DataG T) : viewD view (a.reduce b) = (viewD view a).reduce (viewD view b) := by
  cases a <;> cases b <;> simp [viewD, Data.reduce, DataG.reduce]

theorem viewD_flatMap (f : PtrG T → DataG T) (g : Ptr → Data) (h : ∀ p, viewD view (f p) = g (viewP view p)) (d : DataG T) :
    viewD view (d.flatMap f) = (viewD view d).flatMap g := by
  cases d with
  | ref p => simpa [Data.flatMap, DataG.flatMap, viewD] using h p
  | refs ps =>
    simp only [viewD, Data.flatMap, DataG.flatMap, List.map_flatMap, List.flatMap_map, Data.refs.injEq]
    congr 1; funext p
    rw [← h p, viewD_toVec]
  | value v => simp [viewD, Data.flatMap, DataG.flatMap]
  | nothing => simp [viewD, Data.flatMap, DataG.flatMap]

theorem viewP_idx (x : T) (loc : Loc) (path : Str) (i : Nat) :
    viewP view (PtrG.idx x loc path i) = Ptr.idx (view x) loc path i := rfl
theorem viewP_key (x : T) (loc : Loc) (rk path k : Str) :
    viewP view (PtrG.key x loc rk path k) = Ptr.key (view x) loc rk path k := by
  unfold PtrG.key Ptr.key viewP; split <;> rfl
theorem viewP_empty (x : T) (loc : Loc) : viewP view (PtrG.empty x loc) = Ptr.empty (view x) loc := rfl

theorem zipIdxFrom_map_view (xs : List T) (i : Nat) :
    zipIdxFrom (xs.map view) i = (zipIdxFrom xs i).map fun xi => (view xi.1, xi.2) := by
  induction xs generalizing i with
  | nil => rfl
  | cons x xs ih => simp [zipIdxFrom, ih]

theorem flatMap_congr' {α β} : ∀ (l : List α) (f g : α → List β), (∀ a ∈ l, f a = g a) → l.flatMap f = l.flatMap g
  | [], _, _, _ => rfl
  | a :: l, f, g, h => by
    simp only [List.flatMap_cons, h a (by simp)]
    rw [flatMap_congr' l f g (fun b hb => h b (List.mem_cons_of_mem _ hb))]

theorem depthL_mem : ∀ (xs : List Json) (x : Json), x ∈ xs → x.depth ≤ depthL xs
  | [], _, h => by simp at h
  | y :: ys, x, h => by
    simp only [List.mem_cons] at h
    rcases h with rfl | h
    · simp [depthL]; omega
    · have := depthL_mem ys x h; simp [depthL]; omega
theorem depthM_mem : ∀ (kvs : List (Str × Json)) (k : Str) (v : Json), (k, v) ∈ kvs → v.depth ≤ depthM kvs
  | [], _, _, h => by simp at h
  | (k', y) :: ys, k, x, h => by
    simp only [List.mem_cons, Prod.mk.injEq] at h
    rcases h with ⟨_, rfl⟩ | h
    · simp [depthM]; omega
    · have := depthM_mem ys k x h; simp [depthM]; omega

/-- the structural `descendant` of `Eval.lean`, as a list function over an index-zipped child list -/
theorem descList_eq (loc : Loc) (path : Str) : ∀ (xs : List Json) (i : Nat),
    descList loc path i xs = (zipIdxFrom xs i).flatMap fun xi => (descendant (Ptr.idx xi.1 loc path xi.2) xi.1).toVec
  | [], _ => rfl
  | x :: xs, i => by simp [descList, zipIdxFrom, descList_eq loc path xs (i+1)]
theorem descMembers_eq (loc : Loc) (path : Str) : ∀ (kvs : List (Str × Json)),
    descMembers loc path kvs = kvs.flatMap fun kv => (descendant (Ptr.key kv.2 loc kv.1 path kv.1) kv.2).toVec
  | [] => rfl
  | (k, v) :: kvs => by simp [descMembers, descMembers_eq loc path kvs]


section
variable (hf : Faithful Q view)
include hf

/-- what the accessors say about a value whose view is an array -/
theorem Faithful.arr {t : T} {js : List Json} (h : view t = .arr js) :
    ∃ xs, Q.asArray t = some xs ∧ xs.map view = js := by
  have := hf.asArray t
  rw [h] at this
  cases hq : Q.asArray t with
  | none => simp [hq, asArr] at this
  | some xs => exact ⟨xs, rfl, by simpa [hq, asArr] using this⟩
theorem Faithful.not_arr {t : T} (h : asArr (view t) = none) : Q.asArray t = none := by
  have := hf.asArray t
  rw [h] at this
  cases hq : Q.asArray t with
  | none => rfl
  | some xs => simp [hq] at this
theorem Faithful.obj {t : T} {kvs : List (Str × Json)} (h : view t = .obj kvs) :
    ∃ xs, Q.asObject t = some xs ∧ (xs.map fun kv => (kv.1, view kv.2)) = kvs ∧ Q.asArray t = none := by
  have := hf.asObject t
  rw [h] at this
  have ha := hf.not_arr (t := t) (by rw [h]; rfl)
  cases hq : Q.asObject t with
  | none => simp [hq, asObj] at this
  | some xs => exact ⟨xs, rfl, by simpa [hq, asObj] using this, ha⟩
theorem Faithful.not_obj {t : T} (h : asObj (view t) = none) : Q.asObject t = none := by
  have := hf.asObject t
  rw [h] at this
  cases hq : Q.asObject t with
  | none => rfl
  | some xs => simp [hq] at this
theorem Faithful.scalar {t : T} (h1 : asArr (view t) = none) (h2 : asObj (view t) = none) :
    Q.asArray t = none ∧ Q.asObject t = none := ⟨hf.not_arr h1, hf.not_obj h2⟩

theorem childrenPtrG_view (p : PtrG T) : (childrenPtrG Q p).map (viewP view) = childrenPtr (viewP view p) := by
  unfold childrenPtrG childrenPtr
  cases h : view p.inner with
  | arr js =>
    obtain ⟨xs, h1, h2⟩ := hf.arr h
    simp only [h1, viewP_inner, h, ← h2, zipIdxFrom_map_view, List.map_map]
    rfl
  | obj kvs =>
    obtain ⟨xs, h1, h2, h3⟩ := hf.obj h
    simp only [h1, h3, viewP_inner, h, ← h2, List.map_map]
    congr 1
  | null => obtain ⟨a, b⟩ := hf.scalar (t := p.inner) (by rw [h]; rfl) (by rw [h]; rfl); simp [a, b, h]
  | bool _ => obtain ⟨a, b⟩ := hf.scalar (t := p.inner) (by rw [h]; rfl) (by rw [h]; rfl); simp [a, b, h]
  | num _ => obtain ⟨a, b⟩ := hf.scalar (t := p.inner) (by rw [h]; rfl) (by rw [h]; rfl); simp [a, b, h]
  | str _ => obtain ⟨a, b⟩ := hf.scalar (t := p.inner) (by rw [h]; rfl) (by rw [h]; rfl); simp [a, b, h]

theorem processWildcardG_view (p : PtrG T) : viewD view (processWildcardG Q p) = processWildcard (viewP view p) := by
  have hc := childrenPtrG_view hf p
  unfold processWildcardG processWildcard
  cases h : view p.inner with
  | arr js =>
    obtain ⟨xs, h1, h2⟩ := hf.arr h
    simp only [h1, viewP_inner, h]
    have : xs.isEmpty = js.isEmpty := by rw [← h2]; cases xs <;> rfl
    rw [this]; split <;> simp [viewD, hc]
  | obj kvs =>
    obtain ⟨xs, h1, h2, h3⟩ := hf.obj h
    simp only [h1, h3, viewP_inner, h]
    have : xs.isEmpty = kvs.isEmpty := by rw [← h2]; cases xs <;> rfl
    rw [this]; split <;> simp [viewD, hc]
  | null => obtain ⟨a, b⟩ := hf.scalar (t := p.inner) (by rw [h]; rfl) (by rw [h]; rfl); simp [a, b, h, viewD]
  | bool _ => obtain ⟨a, b⟩ := hf.scalar (t := p.inner) (by rw [h]; rfl) (by rw [h]; rfl); simp [a, b, h, viewD]
  | num _ => obtain ⟨a, b⟩ := hf.scalar (t := p.inner) (by rw [h]; rfl) (by rw [h]; rfl); simp [a, b, h, viewD]
  | str _ => obtain ⟨a, b⟩ := hf.scalar (t := p.inner) (by rw [h]; rfl) (by rw [h]; rfl); simp [a, b, h, viewD]

theorem processSliceG_view (a b c : Option Int) (p : PtrG T) :
    viewD view (processSliceG Q a b c p) = processSlice a b c (viewP view p) := by
  unfold processSliceG processSlice
  cases h : view p.inner
  case arr js =>
    obtain ⟨xs, h1, h2⟩ := hf.arr h
    simp only [h1, viewP_inner, h, viewD, ← h2, List.length_map, List.map_filterMap, Data.refs.injEq]
    congr 1; funext i
    simp only [List.getElem?_map]
    cases xs[i.toNat]? <;> simp [viewP_idx]
  case obj kvs =>
    obtain ⟨xs, h1, h2, h3⟩ := hf.obj h
    simp [h3, h, viewD]
  all_goals (obtain ⟨x1, x2⟩ := hf.scalar (t := p.inner) (by rw [h]; rfl) (by rw [h]; rfl); simp [x1, h, viewD])

theorem processKeyG_view (k : Str) (p : PtrG T) : viewD view (processKeyG Q k p) = processKey k (viewP view p) := by
  unfold processKeyG processKey
  have := hf.get p.inner (normalizeKey k)
  simp only [viewP_inner]
  rw [← this]
  cases Q.get p.inner (normalizeKey k) with
  | none => simp [viewD]
  | some kv => simp [viewD, viewP_key]

theorem processIndexG_view (i : Int) (p : PtrG T) : viewD view (processIndexG Q i p) = processIndex i (viewP view p) := by
  unfold processIndexG processIndex
  cases h : view p.inner
  case arr js =>
    obtain ⟨xs, h1, h2⟩ := hf.arr h
    simp only [h1, viewP_inner, h, ← h2, List.length_map, List.getElem?_map]
    split
    · split
      · simp [viewD]
      · cases xs[i.toNat]? <;> simp [viewD, viewP_idx]
    · split
      · simp [viewD]
      · cases xs[xs.length - i.natAbs]? <;> simp [viewD, viewP_idx]
  case obj kvs =>
    obtain ⟨xs, h1, h2, h3⟩ := hf.obj h
    simp [h3, h, viewD]
  all_goals (obtain ⟨x1, x2⟩ := hf.scalar (t := p.inner) (by rw [h]; rfl) (by rw [h]; rfl); simp [x1, h, viewD])

theorem descendantFuel_view : ∀ (fuel : Nat) (p : PtrG T), (view p.inner).depth < fuel →
    viewD view (descendantFuel Q fuel p) = descendant (viewP view p) (view p.inner)
  | 0, _, h => by omega
  | fuel+1, p, hfuel => by
    unfold descendantFuel
    cases h : view p.inner
    case arr js =>
      obtain ⟨xs, h1, h2⟩ := hf.arr h
      simp only [h1, descendant, viewD_reduce, viewD_ref, viewD_refs, viewP_loc, viewP_path, descList_eq]
      congr 2
      subst h2
      rw [zipIdxFrom_map_view, List.map_flatMap, List.flatMap_map]
      dsimp only
      refine flatMap_congr' _ _ _ ?_
      intro xi hxi
      have hmem : view xi.1 ∈ xs.map view := by
        have : xi.1 ∈ xs := by
          clear h1 h hfuel
          generalize 0 = k at hxi
          induction xs generalizing k with
          | nil => simp [zipIdxFrom] at hxi
          | cons y ys ih =>
            simp only [zipIdxFrom, List.mem_cons] at hxi
            rcases hxi with rfl | hxi
            · simp
            · exact List.mem_cons_of_mem _ (ih _ hxi)
        exact List.mem_map_of_mem this
      have hd : (view xi.1).depth < fuel := by
        have := depthL_mem _ _ hmem
        rw [h] at hfuel; simp only [Json.depth] at hfuel; omega
      have ih := descendantFuel_view fuel (PtrG.idx xi.1 p.loc p.path xi.2) (by simpa [PtrG.idx] using hd)
      rw [← viewD_toVec, ih]
      rfl
    case obj kvs =>
      obtain ⟨xs, h1, h2, h3⟩ := hf.obj h
      simp only [h1, h3, descendant, viewD_reduce, viewD_ref, viewD_refs, viewP_loc, viewP_path, descMembers_eq]
      congr 2
      subst h2
      rw [List.map_flatMap, List.flatMap_map]
      dsimp only
      refine flatMap_congr' _ _ _ ?_
      intro kv hkv
      have hmem : (kv.1, view kv.2) ∈ xs.map fun kv => (kv.1, view kv.2) :=
        List.mem_map_of_mem (f := fun kv => (kv.1, view kv.2)) hkv
      have hd : (view kv.2).depth < fuel := by
        have := depthM_mem _ _ _ hmem
        rw [h] at hfuel; simp only [Json.depth] at hfuel; omega
      have ih := descendantFuel_view fuel (PtrG.key kv.2 p.loc kv.1 p.path kv.1) (by simpa [PtrG.key] using hd)
      rw [← viewD_toVec, ih, viewP_key]
      simp [PtrG.key]
    all_goals (obtain ⟨x1, x2⟩ := hf.scalar (t := p.inner) (by rw [h]; rfl) (by rw [h]; rfl); simp [x1, x2, descendant, viewD])

theorem descendantG_view (p : PtrG T) : viewD view (descendantG Q p) = processDescendant (viewP view p) := by
  unfold descendantG processDescendant
  exact descendantFuel_view hf _ p (by rw [hf.depth]; omega)

end
end JP
