import JsonPathVerif.Spec
/-! Decidable input classes used as hypotheses of `…_partial` theorems and as known-finding classes. -/
namespace JP
namespace KF

def hasBackslash (s : Str) : Bool := s.any (· == '\\')

def plainRaw (raw : Str) : Bool :=
  !hasBackslash raw &&
  (match raw with
   | q :: r =>
     if q == '\'' || q == '"' then
       r.length ≥ 1 && r.getLast? == some q && !(r.dropLast.any (· == q))
     else true
   | [] => true)

/-- shorthand or single-quoted plain text: the raw echo is already the normalized form -/
def normalRaw (raw : Str) : Bool :=
  plainRaw raw && raw.head? != some '"'

def litPlain : Literal → Bool
  | .str s => !hasBackslash s
  | _ => true

mutual
def escFreeSeg : Segment → Bool
  | .descendant s => escFreeSeg s
  | .selector s => escFreeSel s
  | .selectors ss => escFreeSels ss
def escFreeSels : List Selector → Bool
  | [] => true
  | s :: ss => escFreeSel s && escFreeSels ss
def escFreeSel : Selector → Bool
  | .name raw => plainRaw raw
  | .filter f => escFreeFlt f
  | _ => true
def escFreeSegs : List Segment → Bool
  | [] => true
  | s :: ss => escFreeSeg s && escFreeSegs ss
def escFreeFlt : Filter → Bool
  | .or fs => escFreeFlts fs
  | .and fs => escFreeFlts fs
  | .atom a => escFreeAtom a
def escFreeFlts : List Filter → Bool
  | [] => true
  | f :: fs => escFreeFlt f && escFreeFlts fs
def escFreeAtom : FilterAtom → Bool
  | .filter e _ => escFreeFlt e
  | .test t _ => escFreeTest t
  | .cmp _ l r => escFreeCmp l && escFreeCmp r
def escFreeTest : Test → Bool
  | .rel ss => escFreeSegs ss
  | .abs ss => escFreeSegs ss
  | .fn f => escFreeFn f
def escFreeCmp : Comparable → Bool
  | .lit l => litPlain l
  | .sq _ segs => segs.all fun s => match s with | .name raw => plainRaw raw | _ => true
  | .fn f => escFreeFn f
def escFreeFn : TestFunction → Bool
  | .custom _ args => escFreeArgs args
  | .length a => escFreeArg a
  | .count a => escFreeArg a
  | .value a => escFreeArg a
  | .match a b => escFreeArg a && escFreeArg b
  | .search a b => escFreeArg a && escFreeArg b
def escFreeArgs : List FnArg → Bool
  | [] => true
  | a :: as => escFreeArg a && escFreeArgs as
def escFreeArg : FnArg → Bool
  | .lit l => litPlain l
  | .test t => escFreeTest t
  | .filter f => escFreeFlt f
end

/-- top-level name selectors are normalized spellings (filters unconstrained) -/
def normalNamesSeg : Segment → Bool
  | .descendant s => normalNamesSeg s
  | .selector (.name raw) => normalRaw raw
  | .selector _ => true
  | .selectors ss => ss.all fun s => match s with | .name raw => normalRaw raw | _ => true
def normalNames (q : List Segment) : Bool := q.all normalNamesSeg

def multiSel : Segment → Bool
  | .descendant s => multiSel s
  | .selectors ss => ss.length ≥ 2
  | _ => false

/-- input of the selectors of a segment: the nodes themselves, or all their descendants-or-self -/
def segInput : Segment → List Spec.Node → List Spec.Node
  | .descendant s, ns => segInput s (ns.flatMap fun (n : Spec.Node) => Spec.desc n.1 n.2)
  | _, ns => ns
def segSelCount : Segment → Nat
  | .descendant s => segSelCount s
  | .selectors ss => ss.length
  | .selector _ => 1

/-- C02 known-finding class: some segment with ≥ 2 selectors receives ≥ 2 input nodes
(checked on the Spec side, segment by segment) -/
def multiSelOnMulti (E : Engine) (root : Json) : List Segment → List Spec.Node → Bool
  | [], _ => false
  | s :: ss, ns =>
    (decide (segSelCount s ≥ 2) && decide ((segInput s ns).length ≥ 2)) || multiSelOnMulti E root ss (Spec.seg E root s ns)

def plainChar (c : Char) : Bool := c != '\'' && c != '\\' && decide (c.toNat ≥ 0x20)
mutual
def plainKeys : Json → Bool
  | .arr xs => plainKeysL xs
  | .obj kvs => plainKeysM kvs
  | _ => true
def plainKeysL : List Json → Bool
  | [] => true
  | x :: xs => plainKeys x && plainKeysL xs
def plainKeysM : List (Str × Json) → Bool
  | [] => true
  | (k, v) :: kvs => k.all plainChar && plainKeys v && plainKeysM kvs
end

end KF
end JP
