import JsonPathVerif.Json
/-! Model of src/query/*.rs at the `serde_json::Value` instance, as the code is on the pinned tree. -/
namespace JP

structure Ptr where
  loc : Loc
  inner : Json
  path : Str
  deriving Inhabited

inductive Data where
  | ref (p : Ptr) | refs (ps : List Ptr) | value (v : Json) | nothing
  deriving Inhabited

def Data.reduce : Data → Data → Data
  | .ref a, .ref b => .refs [a, b]
  | .ref a, .refs bs => .refs (a :: bs)
  | .refs as, .ref b => .refs (as ++ [b])
  | .refs as, .refs bs => .refs (as ++ bs)
  | .ref a, .nothing => .ref a
  | .refs as, .nothing => .refs as
  | .nothing, .ref b => .ref b
  | .nothing, .refs bs => .refs bs
  | _, _ => .nothing

def Data.toVec : Data → List Ptr
  | .ref p => [p]
  | .refs ps => ps
  | _ => []

def Data.flatMap (f : Ptr → Data) : Data → Data
  | .ref p => f p
  | .refs ps => .refs (ps.flatMap fun p => (f p).toVec)
  | _ => .nothing

def natStr (n : Nat) : Str := (toString n).toList

def Ptr.idx (inner : Json) (loc : Loc) (path : Str) (i : Nat) : Ptr :=
  ⟨loc ++ [.idx i], inner, path ++ ['['] ++ natStr i ++ [']']⟩

/-- `Pointer::key`: `key` is whatever text the caller passes (selector lexeme or real member name) -/
def Ptr.key (inner : Json) (loc : Loc) (realKey : Str) (path : Str) (key : Str) : Ptr :=
  let p := if key.head? == some '\'' && key.getLast? == some '\'' then path ++ ['['] ++ key ++ [']']
           else path ++ ['[', '\''] ++ key ++ ['\'', ']']
  ⟨loc ++ [.key realKey], inner, p⟩

def Ptr.empty (inner : Json) (loc : Loc) : Ptr := ⟨loc, inner, []⟩
def Ptr.isInternal (p : Ptr) : Bool := p.path.isEmpty

def rootData (root : Json) : Data := .ref ⟨[], root, ['$']⟩

def zipIdxFrom {α} : List α → Nat → List (α × Nat)
  | [], _ => []
  | x :: xs, i => (x, i) :: zipIdxFrom xs (i+1)

def childrenPtr (p : Ptr) : List Ptr :=
  match p.inner with
  | .arr xs => (zipIdxFrom xs 0).map fun (x, i) => Ptr.idx x p.loc p.path i
  | .obj kvs => kvs.map fun (k, v) => Ptr.key v p.loc k p.path k
  | _ => []

def processWildcard (p : Ptr) : Data :=
  match p.inner with
  | .arr xs => if xs.isEmpty then .nothing else .refs (childrenPtr p)
  | .obj kvs => if kvs.isEmpty then .nothing else .refs (childrenPtr p)
  | _ => .nothing

def normI (len i : Int) : Int := if i ≥ 0 then i else len + i

def loopPos (e upper idx : Int) (he : 0 < e) : List Int :=
  if idx < upper then idx :: loopPos e upper (idx + e) he else []
termination_by (upper - idx).toNat
decreasing_by omega

def loopNeg (e lower idx : Int) (he : e < 0) : List Int :=
  if lower < idx then idx :: loopNeg e lower (idx + e) he else []
termination_by (idx - lower).toNat
decreasing_by omega

def sliceIndices (a b c : Option Int) (len : Int) : List Int :=
  let e := c.getD 1
  if h : e > 0 then
    let ns := normI len (a.getD 0)
    let ne := normI len (b.getD len)
    loopPos e (min (max ne 0) len) (min (max ns 0) len) h
  else if h : e < 0 then
    let ns := normI len (a.getD (len - 1))
    let ne := normI len (b.getD (-len - 1))
    loopNeg e (min (max ne (-1)) (len - 1)) (min (max ns (-1)) (len - 1)) h
  else []

def processSlice (a b c : Option Int) (p : Ptr) : Data :=
  match p.inner with
  | .arr xs =>
    .refs ((sliceIndices a b c xs.length).filterMap fun i =>
      match xs[i.toNat]? with
      | some x => some (Ptr.idx x p.loc p.path i.toNat)
      | none => none)
  | _ => .nothing

def normalizeKey : Str → Str
  | [] => []
  | '\\' :: '\\' :: r => '\\' :: normalizeKey r
  | '\\' :: '/' :: r => '/' :: normalizeKey r
  | '\\' :: '\'' :: r => '\\' :: '\'' :: normalizeKey r
  | '\\' :: '"' :: r => '\\' :: '"' :: normalizeKey r
  | '\\' :: c :: r =>
      if c == 'b' || c == 'f' || c == 'n' || c == 'r' || c == 't' || c == 'u' then '\\' :: c :: normalizeKey r
      else '\\' :: normalizeKey (c :: r)
  | c :: r => c :: normalizeKey r

def trimMatches (q : Char) (s : Str) : Str :=
  ((s.dropWhile (· == q)).reverse.dropWhile (· == q)).reverse

/-- `impl Queryable for Value :: get` -/
def valueGet (v : Json) (key : Str) : Option (Str × Json) :=
  let k := if key.head? == some '\'' && key.getLast? == some '\'' then trimMatches '\'' key
           else if key.head? == some '"' && key.getLast? == some '"' then trimMatches '"' key
           else key
  match v with
  | .obj kvs => (lookup k kvs).map fun x => (k, x)
  | _ => none

def processKey (key : Str) (p : Ptr) : Data :=
  match valueGet p.inner (normalizeKey key) with
  | some (rk, v) => .ref (Ptr.key v p.loc rk p.path key)
  | none => .nothing

def processIndex (idx : Int) (p : Ptr) : Data :=
  match p.inner with
  | .arr xs =>
    if idx ≥ 0 then
      if idx ≥ xs.length then .nothing
      else match xs[idx.toNat]? with
        | some x => .ref (Ptr.idx x p.loc p.path idx.toNat)
        | none => .nothing
    else
      let a := idx.natAbs
      if a > xs.length then .nothing
      else match xs[xs.length - a]? with
        | some x => .ref (Ptr.idx x p.loc p.path (xs.length - a))
        | none => .nothing
  | _ => .nothing

mutual
def descendant (p : Ptr) : Json → Data
  | .arr xs => (Data.ref p).reduce (.refs (descList p.loc p.path 0 xs))
  | .obj kvs => (Data.ref p).reduce (.refs (descMembers p.loc p.path kvs))
  | _ => .nothing
def descList (loc : Loc) (path : Str) (i : Nat) : List Json → List Ptr
  | [] => []
  | x :: xs => (descendant (Ptr.idx x loc path i) x).toVec ++ descList loc path (i+1) xs
def descMembers (loc : Loc) (path : Str) : List (Str × Json) → List Ptr
  | [] => []
  | (k, v) :: kvs => (descendant (Ptr.key v loc k path k) v).toVec ++ descMembers loc path kvs
end

def processDescendant (p : Ptr) : Data := descendant p p.inner

def boolOf : Data → Bool
  | .value (.bool b) => b
  | _ => false

def dbool (b : Bool) : Data := .value (.bool b)
def di64 (n : Nat) : Data := .value (.num (.int n))

/-- non-recursive part of `Filter::process` -/
def filterProcessWith (item : Ptr → Bool) (d : Data) : Data :=
  d.flatMap fun p =>
    if p.isInternal then dbool (item p)
    else match p.inner with
      | .arr _ => .refs ((childrenPtr p).filter fun c => item (Ptr.empty c.inner c.loc))
      | .obj _ => .refs ((childrenPtr p).filter fun c => item (Ptr.empty c.inner c.loc))
      | _ => .nothing

/-- `Filter::filter_children` (after the fix): the selector role, no `is_internal` test -/
def filterChildrenWith (item : Ptr → Bool) (d : Data) : Data :=
  d.flatMap fun p =>
    match p.inner with
    | .arr _ => .refs ((childrenPtr p).filter fun c => item (Ptr.empty c.inner c.loc))
    | .obj _ => .refs ((childrenPtr p).filter fun c => item (Ptr.empty c.inner c.loc))
    | _ => .nothing

def numOf : Json → Option Num
  | .num n => some n
  | _ => none

def Num.exactEq (a b : Num) : Bool :=
  let (an, ad) : Int × Nat := match a with | .int i => (i, 1) | .flt n d => (n, d)
  let (bn, bd) : Int × Nat := match b with | .int i => (i, 1) | .flt n d => (n, d)
  an * bd == bn * ad

mutual
def eqJson : Json → Json → Bool
  | .num x, .num y => x.exactEq y
  | .arr xs, .arr ys => eqJsonL xs ys
  | .obj xs, .obj ys => xs.length == ys.length && eqJsonSub xs ys
  | .null, .null => true
  | .bool a, .bool b => a == b
  | .str a, .str b => a == b
  | _, _ => false
def eqJsonL : List Json → List Json → Bool
  | [], [] => true
  | x :: xs, y :: ys => eqJson x y && eqJsonL xs ys
  | _, _ => false
def eqJsonSub : List (Str × Json) → List (Str × Json) → Bool
  | [], _ => true
  | (k, x) :: xs, ys => eqJsonFind k x ys && eqJsonSub xs ys
def eqJsonFind (k : Str) (x : Json) : List (Str × Json) → Bool
  | [] => false
  | (k', y) :: ys => (k == k' && eqJson x y) || eqJsonFind k x ys
end

def ltJson (a b : Json) : Bool :=
  match a, b with
  | .num x, .num y => x.lt y
  | .str x, .str y => x < y
  | _, _ => false

def ptrEq (a b : Ptr) : Bool := a.inner.beq b.inner && a.path == b.path
def ptrsEq : List Ptr → List Ptr → Bool
  | [], [] => true
  | a :: as, b :: bs => ptrEq a b && ptrsEq as bs
  | _, _ => false

def eqArrays : List Json → List Json → Bool
  | [], [] => true
  | a :: as, b :: bs => eqJson a b && eqArrays as bs
  | _, _ => false

def eqData : Data → Data → Bool
  | .value l, .value r => eqJson l r
  | .value v, .ref p => eqJson v p.inner
  | .ref p, .value v => eqJson v p.inner
  | .ref l, .ref r => eqJson l.inner r.inner
  | .refs l, .refs r => ptrsEq l r
  | .ref r, .refs rhs => match r.inner with
      | .arr xs => eqArrays xs (rhs.map (·.inner))
      | _ => false
  | .nothing, .nothing => true
  | _, _ => false

def ltData : Data → Data → Bool
  | .value l, .value r => ltJson l r
  | .value v, .ref p => ltJson v p.inner
  | .ref p, .value v => ltJson p.inner v
  | .ref l, .ref r => ltJson l.inner r.inner
  | _, _ => false

def cmpData (op : CmpOp) (l r : Data) : Bool :=
  match op with
  | .eq => eqData l r
  | .ne => !eqData l r
  | .gt => ltData r l
  | .ge => ltData r l || eqData l r
  | .lt => ltData l r
  | .le => ltData l r || eqData l r

def literalValue : Literal → Json
  | .int i => .num (.int i)
  | .float n d => .num (.flt n d)
  | .str s => .str s
  | .bool b => .bool b
  | .null => .null

def processSQSeg (d : Data) : SQSeg → Data
  | .index i => d.flatMap (processIndex i)
  | .name k => d.flatMap (processKey k)

def lengthFn (d : Data) : Data :=
  let fromItem (j : Json) : Data := match j with
    | .str s => di64 s.length
    | .arr xs => di64 xs.length
    | .obj kvs => di64 kvs.length
    | _ => .nothing
  match d with
  | .ref p => fromItem p.inner
  | .refs ps => di64 ps.length
  | .value v => fromItem v
  | .nothing => .nothing

def countFn : Data → Data
  | .ref _ => di64 1
  | .value _ => di64 1
  | .refs ps => di64 ps.length
  | .nothing => di64 0

def valueFn : Data → Data
  | .ref p => .ref p
  | .value v => .value v
  | .refs [p] => .ref p
  | _ => .nothing

def asArr : Json → Option (List Json) | .arr xs => some xs | _ => none

def extensionCustom (name : Str) (args : List Json) : Json :=
  let anyEq (xs : List Json) (y : Json) := xs.any fun x => x.beq y
  if name == "in".toList then match args with
    | [l, r] => match asArr r with | some es => .bool (anyEq es l) | none => .null
    | _ => .null
  else if name == "nin".toList then match args with
    | [l, r] => match asArr r with | some es => .bool (!anyEq es l) | none => .null
    | _ => .null
  else if name == "none_of".toList then match args with
    | [l, r] => match asArr l, asArr r with
      | some ls, some rs => .bool (ls.all fun x => !anyEq rs x)
      | _, _ => .null
    | _ => .null
  else if name == "any_of".toList then match args with
    | [l, r] => match asArr l, asArr r with
      | some ls, some rs => .bool (ls.any fun x => anyEq rs x)
      | _, _ => .null
    | _ => .null
  else if name == "subset_of".toList then match args with
    | [l, r] => match asArr l, asArr r with
      | some ls, some rs => .bool (ls.all fun x => anyEq rs x)
      | _, _ => .null
    | _ => .null
  else .null

def argValues : Data → List Json
  | .value v => [v]
  | .ref p => [p.inner]
  | .refs ps => ps.map (·.inner)
  | .nothing => []

def structCheck : Json → Bool
  | .arr xs => !xs.isEmpty
  | .obj kvs => !kvs.isEmpty
  | .str s => !s.isEmpty
  | _ => true

/-- regex engine: parameter (modelled separately) -/
structure Engine where
  regexFn : (subject pattern : Str) → (substr : Bool) → Bool

def toStrD : Data → Option Str
  | .value (.str s) => some s
  | .ref p => match p.inner with | .str s => some s | _ => none
  | _ => none

/-- `pattern.replace("\\\\", "\\")` -/
def unDouble : Str → Str
  | '\\' :: '\\' :: r => '\\' :: unDouble r
  | c :: r => c :: unDouble r
  | [] => []

/-- the pattern operand of `match`/`search`: a pattern written as a string literal (a computed value) still carries the JSONPath escape
of every backslash, which is undone here; a pattern taken from the document is used as it stands -/
def toPatD : Data → Option Str
  | .value (.str s) => some (unDouble s)
  | .ref p => match p.inner with | .str s => some s | _ => none
  | _ => none

/-- existence of at least one node (after the fix: no look at the node's value) -/
def presentOf : Data → Bool
  | .ref _ => true
  | .refs ps => !ps.isEmpty
  | _ => false

def TestFunction.isResBool : TestFunction → Bool
  | .custom _ _ | .search _ _ | .match _ _ => true
  | _ => false
def Test.isResBool : Test → Bool
  | .fn f => f.isResBool
  | _ => false

mutual
def Segment.process (E : Engine) (root : Json) : Segment → Data → Data
  | .descendant s, d => s.process E root (d.flatMap processDescendant)
  | .selector s, d => s.process E root d
  | .selectors ss, d => Selector.processAll E root ss d
def Selector.processAll (E : Engine) (root : Json) : List Selector → Data → Data
  | [], _ => rootData root
  | [s], d => s.process E root d
  | s :: s' :: ss, d => (s.process E root d).reduce (Selector.processAll E root (s' :: ss) d)
def Selector.process (E : Engine) (root : Json) : Selector → Data → Data
  | .name k, d => d.flatMap (processKey k)
  | .index i, d => d.flatMap (processIndex i)
  | .wildcard, d => d.flatMap processWildcard
  | .slice a b c, d => d.flatMap (processSlice a b c)
  | .filter f, d => filterChildrenWith (fun p => boolOf (f.elem E root (.ref p))) d
def Segment.processList (E : Engine) (root : Json) : List Segment → Data → Data
  | [], d => d
  | s :: ss, d => Segment.processList E root ss (s.process E root d)
def Filter.elem (E : Engine) (root : Json) : Filter → Data → Data
  | .or fs, d => dbool (Filter.any E root fs d)
  | .and fs, d => dbool (Filter.all E root fs d)
  | .atom a, d => a.process E root d
def Filter.any (E : Engine) (root : Json) : List Filter → Data → Bool
  | [], _ => false
  | f :: fs, d =>
      boolOf (filterProcessWith (fun p => boolOf (f.elem E root (.ref p))) d) || Filter.any E root fs d
def Filter.all (E : Engine) (root : Json) : List Filter → Data → Bool
  | [], _ => true
  | f :: fs, d =>
      boolOf (filterProcessWith (fun p => boolOf (f.elem E root (.ref p))) d) && Filter.all E root fs d
def FilterAtom.process (E : Engine) (root : Json) : FilterAtom → Data → Data
  | .filter e n, d =>
      let r := filterProcessWith (fun p => boolOf (e.elem E root (.ref p))) d
      bif n then dbool (!boolOf r) else r
  | .test e n, d =>
      let res := e.process E root d
      bif e.isResBool then (bif n then dbool (!boolOf res) else res)
      else (bif presentOf res then dbool (!n) else dbool n)
  | .cmp op l r, d => dbool (cmpData op (l.process E root d) (r.process E root d))
def Comparable.process (E : Engine) (root : Json) : Comparable → Data → Data
  | .lit l, _ => .value (literalValue l)
  | .fn f, d => f.process E root d
  | .sq isRoot segs, d => segs.foldl processSQSeg (if isRoot then rootData root else d)
def Test.process (E : Engine) (root : Json) : Test → Data → Data
  | .rel segs, d => Segment.processList E root segs d
  | .abs segs, _ => Segment.processList E root segs (rootData root)
  | .fn f, d => f.process E root d
def TestFunction.process (E : Engine) (root : Json) : TestFunction → Data → Data
  | .length a, d => lengthFn (a.process E root d)
  | .count a, d => countFn (a.process E root d)
  | .value a, d => valueFn (a.process E root d)
  | .match a b, d =>
      match toStrD (a.process E root d), toPatD (b.process E root d) with
      | some s, some p => dbool (E.regexFn s p false)
      | _, _ => dbool false
  | .search a b, d =>
      match toStrD (a.process E root d), toPatD (b.process E root d) with
      | some s, some p => dbool (E.regexFn s p true)
      | _, _ => dbool false
  | .custom name args, d => .value (extensionCustom name (FnArg.values E root args d))
def FnArg.values (E : Engine) (root : Json) : List FnArg → Data → List Json
  | [], _ => []
  | a :: as, d => argValues (a.process E root d) ++ FnArg.values E root as d
def FnArg.process (E : Engine) (root : Json) : FnArg → Data → Data
  | .lit l, _ => .value (literalValue l)
  | .test t, d => t.process E root d
  | .filter f, d => filterProcessWith (fun p => boolOf (f.elem E root (.ref p))) d
end

/-- `js_path_process` -/
def jsPathProcess (E : Engine) (segs : List Segment) (root : Json) : Except Unit (List Ptr) :=
  match Segment.processList E root segs (rootData root) with
  | .ref p => .ok [p]
  | .refs ps => .ok ps
  | .value _ => .error ()
  | .nothing => .ok []

end JP
