/-! PEG combinators with pest's semantics, including atomicity (prototype, design phase).
State = absolute position + remaining input as a list (proof-friendly, O(1) head access). -/
namespace JP

inductive Pair (R : Type) where
  | mk (rule : R) (s e : Nat) (inner : List (Pair R))

abbrev Rest := List Char

inductive Atomicity where | nonAtomic | atomic | compound
  deriving DecidableEq

inductive Kind where | normal | atomic | compound | nonatomic

/-- parsing context: current atomicity and the grammar's WHITESPACE recogniser (one step: chars consumed) -/
structure Ctx where
  atom : Atomicity
  ws : Rest → Option Nat

structure St (R : Type) where
  pos : Nat
  rest : Rest
  out : List (Pair R)

abbrev PEGR (R : Type) := Ctx → Nat → Rest → Option (St R)

variable {R : Type}

def skipGo (ws : Rest → Option Nat) : Nat → Nat → Rest → Nat × Rest
  | 0, p, r => (p, r)
  | n+1, p, r => match ws r with
    | some k => if k = 0 then (p, r) else skipGo ws n (p + k) (r.drop k)
    | none => (p, r)

/-- `hidden::skip`: in non-atomic context, repeat WHITESPACE -/
def skip (c : Ctx) (pos : Nat) (r : Rest) : Nat × Rest :=
  if c.atom == .nonAtomic then skipGo c.ws (r.length + 1) pos r else (pos, r)

def matchStr : List Char → Rest → Option Rest
  | [], r => some r
  | c :: cs, x :: r => if x = c then matchStr cs r else none
  | _ :: _, [] => none

def pstr (s : List Char) : PEGR R := fun _ pos r =>
  (matchStr s r).map fun r' => ⟨pos + s.length, r', []⟩

/-- equality of two characters ignoring ASCII case (`eq_ignore_ascii_case`), without going through `Char.toLower` -/
def isUpperAZ (c : Char) : Bool := decide (65 ≤ c.toNat ∧ c.toNat ≤ 90)
def ciEq (x c : Char) : Bool :=
  x == c || (isUpperAZ x && x.toNat + 32 == c.toNat) || (isUpperAZ c && c.toNat + 32 == x.toNat)

def matchInsens : List Char → Rest → Option Rest
  | [], r => some r
  | c :: cs, x :: r => if ciEq x c then matchInsens cs r else none
  | _ :: _, [] => none

def pinsens (s : List Char) : PEGR R := fun _ pos r =>
  (matchInsens s r).map fun r' => ⟨pos + s.length, r', []⟩

def prange (lo hi : Char) : PEGR R := fun _ pos r =>
  match r with
  | x :: r' => if lo ≤ x ∧ x ≤ hi then some ⟨pos + 1, r', []⟩ else none
  | [] => none

def pany : PEGR R := fun _ pos r => match r with | _ :: r' => some ⟨pos + 1, r', []⟩ | [] => none
def psoi : PEGR R := fun _ pos r => if pos = 0 then some ⟨pos, r, []⟩ else none
def pfail : PEGR R := fun _ _ _ => none

def pseq (a b : PEGR R) : PEGR R := fun c pos r =>
  match a c pos r with
  | none => none
  | some s1 =>
    let (p, r') := skip c s1.pos s1.rest
    match b c p r' with
    | none => none
    | some s2 => some ⟨s2.pos, s2.rest, s1.out ++ s2.out⟩

def pchoice (a b : PEGR R) : PEGR R := fun c pos r =>
  match a c pos r with
  | some s => some s
  | none => b c pos r

def popt (a : PEGR R) : PEGR R := fun c pos r =>
  match a c pos r with
  | some s => some s
  | none => some ⟨pos, r, []⟩

def prepGo (a : PEGR R) (c : Ctx) : Nat → St R → St R
  | 0, s => s
  | n+1, s =>
    let (p, r') := skip c s.pos s.rest
    match a c p r' with
    | none => s
    | some s' => if s'.rest.length < s.rest.length then prepGo a c n ⟨s'.pos, s'.rest, s.out ++ s'.out⟩ else s

def prep (a : PEGR R) : PEGR R := fun c pos r =>
  match a c pos r with
  | none => some ⟨pos, r, []⟩
  | some s1 => some (prepGo a c (r.length + 1) s1)

def pnot (a : PEGR R) : PEGR R := fun c pos r =>
  match a c pos r with | some _ => none | none => some ⟨pos, r, []⟩
def pand (a : PEGR R) : PEGR R := fun c pos r =>
  match a c pos r with | some _ => some ⟨pos, r, []⟩ | none => none

def psilent (body : PEGR R) : PEGR R := body

def prule (id : R) (k : Kind) (body : PEGR R) : PEGR R := fun c pos r =>
  let inner : Ctx := match k with
    | .normal => c
    | .atomic => { c with atom := .atomic }
    | .compound => { c with atom := .compound }
    | .nonatomic => { c with atom := .nonAtomic }
  match body inner pos r with
  | none => none
  | some s => some ⟨s.pos, s.rest, if c.atom == .atomic then s.out else [Pair.mk id pos s.pos s.out]⟩

def peoiWith (id : R) : PEGR R := fun c pos r =>
  match r with
  | [] => some ⟨pos, [], if c.atom == .atomic then [] else [Pair.mk id pos pos []]⟩
  | _ => none

infixr:65 " ~~ " => pseq
infixr:60 " // " => pchoice

end JP
