import JsonPathVerif.Eval
import JsonPathVerif.Spec
namespace JP
open List

abbrev toN (p : Ptr) : Spec.Node := (p.loc, p.inner)

def Data.shaped : Data → Prop
  | .value _ => False
  | _ => True

@[simp] theorem Data.shaped_ref (p : Ptr) : (Data.ref p).shaped := trivial
@[simp] theorem Data.shaped_refs (ps : List Ptr) : (Data.refs ps).shaped := trivial
@[simp] theorem Data.shaped_nothing : Data.nothing.shaped := trivial
@[simp] theorem Data.not_shaped_value (v : Json) : ¬ (Data.value v).shaped := id

theorem Data.toVec_flatMap (f : Ptr → Data) (d : Data) (h : d.shaped) :
    (d.flatMap f).toVec = d.toVec.flatMap (fun p => (f p).toVec) := by
  cases d <;> simp_all [Data.flatMap, Data.toVec, Data.shaped]

theorem Data.shaped_flatMap (f : Ptr → Data) (d : Data) (hf : ∀ p, (f p).shaped) : (d.flatMap f).shaped := by
  cases d <;> simp_all [Data.flatMap, Data.shaped]

theorem Data.toVec_reduce (a b : Data) (ha : a.shaped) (hb : b.shaped) :
    (a.reduce b).toVec = a.toVec ++ b.toVec := by
  cases a <;> cases b <;> simp_all [Data.reduce, Data.toVec, Data.shaped]

theorem Data.shaped_reduce (a b : Data) : (a.reduce b).shaped := by
  cases a <;> cases b <;> simp [Data.reduce, Data.shaped]

theorem zipIdxFrom_map_children (xs : List Json) (loc : Loc) (path : Str) (i : Nat) :
    ((zipIdxFrom xs i).map fun (x, j) => toN (Ptr.idx x loc path j))
      = (zipIdxFrom xs i).map fun (x, j) => ((loc ++ [Step.idx j], x) : Spec.Node) := by
  induction xs generalizing i with
  | nil => simp [zipIdxFrom]
  | cons x xs ih => simp [zipIdxFrom, Ptr.idx, toN, ih]

theorem childrenPtr_toN (p : Ptr) : (childrenPtr p).map toN = Spec.children (toN p) := by
  unfold childrenPtr Spec.children
  cases h : p.inner <;> simp [toN, h, Ptr.idx, Ptr.key, Function.comp_def]

theorem processWildcard_spec (p : Ptr) : (processWildcard p).toVec.map toN = Spec.children (toN p) := by
  rw [← childrenPtr_toN]
  unfold processWildcard childrenPtr
  cases h : p.inner <;> simp [Data.toVec]
  all_goals (rename_i xs; cases xs <;> simp [Data.toVec, zipIdxFrom])

theorem processWildcard_shaped (p : Ptr) : (processWildcard p).shaped := by
  unfold processWildcard; cases p.inner <;> simp
  all_goals (split <;> simp)

end JP
