import JsonPathVerif.Eval
/-! C11 prototype: index and slice arithmetic. `SpecS.*` is a literal transcription of RFC 9535
2.3.3.2 / 2.3.4.2.2; the theorems relate it to the model of the Rust code and characterise it. -/
namespace JP
namespace SpecS

/-- RFC 2.3.3.2: index `i` on an array of length `len` -/
def index (i len : Int) : Option Int :=
  let j := if i ≥ 0 then i else len + i
  if 0 ≤ j ∧ j < len then some j else none

def normalize (i len : Int) : Int := if i ≥ 0 then i else len + i

/-- RFC `Bounds` -/
def bounds (start end_ step len : Int) : Int × Int :=
  let n_start := normalize start len
  let n_end := normalize end_ len
  if step ≥ 0 then (min (max n_start 0) len, min (max n_end 0) len)
  else (min (max n_end (-1)) (len - 1), min (max n_start (-1)) (len - 1))

def up (step upper i : Int) (h : 0 < step) : List Int :=
  if i < upper then i :: up step upper (i + step) h else []
termination_by (upper - i).toNat
decreasing_by omega

def down (step lower i : Int) (h : step < 0) : List Int :=
  if lower < i then i :: down step lower (i + step) h else []
termination_by (i - lower).toNat
decreasing_by omega

/-- RFC 2.3.4.2.2 with the defaults of 2.3.4.2.1 -/
def slice (start end_ step : Option Int) (len : Int) : List Int :=
  let st := step.getD 1
  if h : st > 0 then
    let (lower, upper) := bounds (start.getD 0) (end_.getD len) st len
    up st upper lower h
  else if h : st < 0 then
    let (lower, upper) := bounds (start.getD (len - 1)) (end_.getD (-len - 1)) st len
    down st lower upper h
  else []

end SpecS

/-- what `process_index` selects, as an index -/
def implIndex (idx : Int) (len : Nat) : Option Nat :=
  if idx ≥ 0 then (if idx ≥ len then none else some idx.toNat)
  else (let a := idx.natAbs; if a > len then none else some (len - a))

theorem implIndex_spec (idx : Int) (len : Nat) :
    (implIndex idx len).map (fun (n : Nat) => (n : Int)) = SpecS.index idx len := by
  unfold implIndex SpecS.index
  by_cases h : idx ≥ 0
  · simp only [h, if_true]
    by_cases h2 : idx ≥ (len : Int)
    · simp [h2]; try omega
    · simp [h2]; try omega
  · simp only [h, if_false]
    by_cases h2 : idx.natAbs > len
    · simp [h2]; try omega
    · simp [h2]; try omega

theorem loopPos_eq_up (e upper i : Int) (h : 0 < e) : loopPos e upper i h = SpecS.up e upper i h := by
  fun_induction loopPos e upper i h with
  | case1 i hlt ih => rw [SpecS.up]; simp [hlt, ih]
  | case2 i hlt => rw [SpecS.up]; simp [hlt]

theorem loopNeg_eq_down (e lower i : Int) (h : e < 0) : loopNeg e lower i h = SpecS.down e lower i h := by
  fun_induction loopNeg e lower i h with
  | case1 i hlt ih => rw [SpecS.down]; simp [hlt, ih]
  | case2 i hlt => rw [SpecS.down]; simp [hlt]

/-- the Rust slice arithmetic computes exactly the RFC index sequence -/
theorem sliceIndices_spec (a b c : Option Int) (len : Int) :
    sliceIndices a b c len = SpecS.slice a b c len := by
  unfold sliceIndices SpecS.slice SpecS.bounds SpecS.normalize normI
  by_cases h1 : c.getD 1 > 0
  · have h1' : c.getD 1 ≥ 0 := by omega
    simp [h1, h1', loopPos_eq_up]
  · by_cases h2 : c.getD 1 < 0
    · have h2' : ¬ c.getD 1 ≥ 0 := by omega
      simp [h1, h2, h2', loopNeg_eq_down]
    · simp [h1, h2]

-- characterisation of the RFC sequence itself
theorem up_mem (e upper i : Int) (h : 0 < e) : ∀ x ∈ SpecS.up e upper i h, i ≤ x ∧ x < upper := by
  fun_induction SpecS.up e upper i h with
  | case1 i hlt ih =>
    intro x hx; simp only [List.mem_cons] at hx
    rcases hx with rfl | hx
    · omega
    · have := ih x hx; omega
  | case2 i hlt => intro x hx; simp at hx

theorem down_mem (e lower i : Int) (h : e < 0) : ∀ x ∈ SpecS.down e lower i h, lower < x ∧ x ≤ i := by
  fun_induction SpecS.down e lower i h with
  | case1 i hlt ih =>
    intro x hx; simp only [List.mem_cons] at hx
    rcases hx with rfl | hx
    · omega
    · have := ih x hx; omega
  | case2 i hlt => intro x hx; simp at hx

/-- every index the slice yields is an index of the array -/
theorem slice_inRange (a b c : Option Int) (len : Int) (hlen : 0 ≤ len) :
    ∀ x ∈ SpecS.slice a b c len, 0 ≤ x ∧ x < len := by
  intro x hx
  unfold SpecS.slice SpecS.bounds SpecS.normalize at hx
  by_cases h1 : c.getD 1 > 0
  · have h1' : c.getD 1 ≥ 0 := by omega
    simp only [h1, h1', dite_true, if_true] at hx
    have := up_mem _ _ _ _ x hx; omega
  · by_cases h2 : c.getD 1 < 0
    · have h2' : ¬ c.getD 1 ≥ 0 := by omega
      simp only [h1, h2, h2', dite_true, dite_false, if_false] at hx
      have := down_mem _ _ _ _ x hx; omega
    · simp [h1, h2] at hx

theorem slice_step_zero (a b : Option Int) (len : Int) : SpecS.slice a b (some 0) len = [] := by
  simp [SpecS.slice]

/-- arithmetic progression, stated on the list: consecutive elements differ by `e` -/
inductive Prog (e : Int) : List Int → Prop
  | nil : Prog e []
  | single (x) : Prog e [x]
  | cons (x y l) : y = x + e → Prog e (y :: l) → Prog e (x :: y :: l)

theorem up_prog (e upper i : Int) (h : 0 < e) :
    Prog e (SpecS.up e upper i h) ∧ (SpecS.up e upper i h).head? = (if i < upper then some i else none) := by
  fun_induction SpecS.up e upper i h with
  | case1 i hlt ih =>
    obtain ⟨ih1, ih2⟩ := ih
    refine ⟨?_, by simp [hlt]⟩
    cases hl : SpecS.up e upper (i + e) h with
    | nil => exact Prog.single i
    | cons y l =>
      rw [hl] at ih1 ih2
      refine Prog.cons i y l ?_ ih1
      simp only [List.head?_cons] at ih2
      split at ih2 <;> simp_all
  | case2 i hlt => exact ⟨Prog.nil, by simp [hlt]⟩

/-- maximality: the element after the last one is outside the half-open range -/
theorem up_maximal (e upper i : Int) (h : 0 < e) :
    ∀ x, (SpecS.up e upper i h).getLast? = some x → upper ≤ x + e := by
  fun_induction SpecS.up e upper i h with
  | case1 i hlt ih =>
    intro x hx
    cases hl : SpecS.up e upper (i + e) h with
    | nil =>
      rw [hl] at hx; simp at hx; subst hx
      have : ¬ (i + e < upper) := by
        intro hc; rw [SpecS.up] at hl; simp [hc] at hl
      omega
    | cons y l =>
      rw [hl] at hx ih
      apply ih x
      simpa [List.getLast?_cons_cons] using hx
  | case2 i hlt => intro x hx; simp at hx

#print axioms sliceIndices_spec
#print axioms slice_inRange
#print axioms up_prog
#print axioms up_maximal
#print axioms implIndex_spec
end JP
