import JsonPathVerif.Theorem
/-! C02 prototype: for queries whose top-level segments have a single selector each (filters may contain
anything), the model of the evaluator returns the RFC nodelist *in RFC order*. -/
namespace JP
open List
variable (E : Engine) (root : Json)

/-- no multi-selector segment at the top level -/
def unionFreeSeg : Segment → Prop
  | .selector _ => True
  | .descendant (.selector _) => True
  | _ => False
def unionFreeSegs : List Segment → Prop
  | [] => True
  | s :: ss => unionFreeSeg s ∧ unionFreeSegs ss

theorem seg_eq (s : Segment) (d : Data) (hs : okSeg s) (hu : unionFreeSeg s) (hd : d.shaped) :
    (s.process E root d).shaped ∧ nodesOf (s.process E root d) = Spec.seg E root s (nodesOf d) := by
  match s, hs, hu with
  | .selector s, hs, _ =>
    obtain ⟨h1, h2⟩ := sel_spec E root s d (by simpa [okSeg] using hs) hd
    exact ⟨by simpa [Segment.process] using h1, by simp [Segment.process, Spec.seg, h2]⟩
  | .descendant (.selector s), hs, _ =>
    have hd' : (d.flatMap processDescendant).shaped := Data.shaped_flatMap _ _ processDescendant_shaped
    obtain ⟨h1, h2⟩ := sel_spec E root s (d.flatMap processDescendant) (by simpa [okSeg] using hs) hd'
    refine ⟨by simpa [Segment.process] using h1, ?_⟩
    simp only [Segment.process, Spec.seg, h2, desc_nodes d hd]
    rw [flatMap_filter_of_nil isCont (Spec.sel E root s) _ (fun n hn => Spec.sel_scalar E root s n hn)]

theorem segs_eq : ∀ (ss : List Segment) (d : Data), okSegs ss → unionFreeSegs ss → d.shaped →
    (Segment.processList E root ss d).shaped ∧
    nodesOf (Segment.processList E root ss d) = Spec.segs E root ss (nodesOf d)
  | [], d, _, _, hd => by simp [Segment.processList, Spec.segs, hd]
  | s :: ss, d, hs, hu, hd => by
    have hs' : okSeg s ∧ okSegs ss := by simpa [okSegs] using hs
    obtain ⟨h1, h2⟩ := seg_eq E root s d hs'.1 hu.1 hd
    obtain ⟨h3, h4⟩ := segs_eq ss (s.process E root d) hs'.2 hu.2 h1
    exact ⟨by simpa [Segment.processList] using h3, by simp only [Segment.processList, Spec.segs, h4, h2]⟩

/-- C02 (partial): results in RFC document order, duplicates preserved, for union-free top levels -/
theorem query_ordered (segs : List Segment) (hs : okSegs segs) (hu : unionFreeSegs segs) :
    ∃ ps, jsPathProcess E segs root = .ok ps ∧ ps.map toN = Spec.query E segs root := by
  obtain ⟨h1, h2⟩ := segs_eq E root segs (rootData root) hs hu trivial
  unfold jsPathProcess Spec.query
  have hroot : nodesOf (rootData root) = [([], root)] := rfl
  rw [hroot] at h2
  revert h1 h2
  generalize Segment.processList E root segs (rootData root) = r
  intro h1 h2
  cases r with
  | ref p => exact ⟨[p], rfl, by simpa [nodesOf, Data.toVec] using h2⟩
  | refs ps => exact ⟨ps, rfl, by simpa [nodesOf, Data.toVec] using h2⟩
  | nothing => exact ⟨[], rfl, by simpa [nodesOf, Data.toVec] using h2⟩
  | value v => exact absurd h1 (by simp)

#print axioms query_ordered
end JP
