import JsonPathVerif.Eval
/-! The evaluator of src/query/*.rs **generic over the `Queryable` trait** (second transcription of the same Rust code):
every place where `Eval.lean` pattern-matches on a `Json` constructor is here the corresponding trait accessor call, exactly
as in the Rust source (`as_array`, `as_object`, `as_str`, `get`, the numeric view `as_f64().or_else(as_i64 as f64)`,
`as_bool` through `ok_val`, `From<bool/i64/f64/&str>`, `null()`, `PartialEq`, `extension_custom`).
Recursion over the data (descendants, deep equality) cannot be structural for an abstract `T`; it takes fuel, supplied by the
ghost accessor `depth` (see its comment).
`Theorems/C15.lean` proves that for any faithful view `T → Json` this evaluator commutes with the view. -/
namespace JP

/-- the `Queryable` trait (with the `From` conversions and `PartialEq` it requires) as a structure of accessors -/
structure Queryable (T : Type) where
  get : T → Str → Option (Str × T)            -- `get(key)`; also reports the member name it resolved (ghost, for locations)
  asArray : T → Option (List T)
  asObject : T → Option (List (Str × T))
  asStr : T → Option Str
  /-- `as_f64().or_else(|| as_i64().map(|v| v as f64))` – the only way the engine looks at numbers -/
  num : T → Option Num
  asBool : T → Option Bool
  null : T
  ofBool : Bool → T
  ofI64 : Int → T
  ofF64 : Int → Nat → T
  ofStr : Str → T
  beq : T → T → Bool
  extensionCustom : Str → List T → T
  /-- ghost: nesting depth of a value.  Every Rust value is a finite tree, which is why the two recursions over the data
  (`process_descendant`, `eq_json`) terminate; an abstract `T` has to say so.  Used only as recursion bound, never in a result. -/
  depth : T → Nat

structure PtrG (T : Type) where
  loc : Loc
  inner : T
  path : Str

inductive DataG (T : Type) where
  | ref (p : PtrG T) | refs (ps : List (PtrG T)) | value (v : T) | nothing

variable {T : Type}

def DataG.reduce : DataG T → DataG T → DataG T
  | .ref a, .ref b => .refs [a, b]
  | .ref a, .refs bs => .refs (a :: bs)
  | .refs as, .ref b => .refs (as ++ [b])
  | .refs as, .refs bs => .refs (as ++ bs)
  | .ref a, .nothing => .ref a
  | .refs as, .nothing => .refs as
  | .nothing, .ref b => .ref b
  | .nothing, .refs bs => .refs bs
  | _, _ => .nothing

def DataG.toVec : DataG T → List (PtrG T)
  | .ref p => [p]
  | .refs ps => ps
  | _ => []

def DataG.flatMap (f : PtrG T → DataG T) : DataG T → DataG T
  | .ref p => f p
  | .refs ps => .refs (ps.flatMap fun p => (f p).toVec)
  | _ => .nothing

def PtrG.idx (inner : T) (loc : Loc) (path : Str) (i : Nat) : PtrG T :=
  ⟨loc ++ [.idx i], inner, path ++ ['['] ++ natStr i ++ [']']⟩

def PtrG.key (inner : T) (loc : Loc) (realKey : Str) (path : Str) (key : Str) : PtrG T :=
  let p := if key.head? == some '\'' && key.getLast? == some '\'' then path ++ ['['] ++ key ++ [']']
           else path ++ ['[', '\''] ++ key ++ ['\'', ']']
  ⟨loc ++ [.key realKey], inner, p⟩

def PtrG.empty (inner : T) (loc : Loc) : PtrG T := ⟨loc, inner, []⟩
def PtrG.isInternal (p : PtrG T) : Bool := p.path.isEmpty

def rootDataG (root : T) : DataG T := .ref ⟨[], root, ['$']⟩

variable (Q : Queryable T)

def childrenPtrG (p : PtrG T) : List (PtrG T) :=
  match Q.asArray p.inner with
  | some xs => (zipIdxFrom xs 0).map fun (x, i) => PtrG.idx x p.loc p.path i
  | none => match Q.asObject p.inner with
    | some kvs => kvs.map fun (k, v) => PtrG.key v p.loc k p.path k
    | none => []

def processWildcardG (p : PtrG T) : DataG T :=
  match Q.asArray p.inner with
  | some xs => if xs.isEmpty then .nothing else .refs (childrenPtrG Q p)
  | none => match Q.asObject p.inner with
    | some kvs => if kvs.isEmpty then .nothing else .refs (childrenPtrG Q p)
    | none => .nothing

def processSliceG (a b c : Option Int) (p : PtrG T) : DataG T :=
  match Q.asArray p.inner with
  | some xs =>
    .refs ((sliceIndices a b c xs.length).filterMap fun i =>
      match xs[i.toNat]? with
      | some x => some (PtrG.idx x p.loc p.path i.toNat)
      | none => none)
  | none => .nothing

def processKeyG (key : Str) (p : PtrG T) : DataG T :=
  match Q.get p.inner (normalizeKey key) with
  | some (rk, v) => .ref (PtrG.key v p.loc rk p.path key)
  | none => .nothing

def processIndexG (idx : Int) (p : PtrG T) : DataG T :=
  match Q.asArray p.inner with
  | some xs =>
    if idx ≥ 0 then
      if idx ≥ xs.length then .nothing
      else match xs[idx.toNat]? with
        | some x => .ref (PtrG.idx x p.loc p.path idx.toNat)
        | none => .nothing
    else
      let a := idx.natAbs
      if a > xs.length then .nothing
      else match xs[xs.length - a]? with
        | some x => .ref (PtrG.idx x p.loc p.path (xs.length - a))
        | none => .nothing
  | none => .nothing

/-- `process_descendant`: recursion over the data through the accessors; `fuel` bounds the nesting depth -/
def descendantFuel : Nat → PtrG T → DataG T
  | 0, _ => .nothing
  | fuel+1, p =>
    match Q.asArray p.inner with
    | some xs => (DataG.ref p).reduce (.refs
        ((zipIdxFrom xs 0).flatMap fun (x, i) => (descendantFuel fuel (PtrG.idx x p.loc p.path i)).toVec))
    | none => match Q.asObject p.inner with
      | some kvs => (DataG.ref p).reduce (.refs
          (kvs.flatMap fun (k, v) => (descendantFuel fuel (PtrG.key v p.loc k p.path k)).toVec))
      | none => .nothing
def descendantG (p : PtrG T) : DataG T := descendantFuel Q (Q.depth p.inner + 1) p

def boolOfG : DataG T → Bool
  | .value v => (Q.asBool v).getD false
  | _ => false

def dboolG (b : Bool) : DataG T := .value (Q.ofBool b)
def di64G (n : Nat) : DataG T := .value (Q.ofI64 n)

def filterProcessWithG (item : PtrG T → Bool) (d : DataG T) : DataG T :=
  d.flatMap fun p =>
    if p.isInternal then dboolG Q (item p)
    else match Q.asArray p.inner with
      | some _ => .refs ((childrenPtrG Q p).filter fun c => item (PtrG.empty c.inner c.loc))
      | none => match Q.asObject p.inner with
        | some _ => .refs ((childrenPtrG Q p).filter fun c => item (PtrG.empty c.inner c.loc))
        | none => .nothing

def filterChildrenWithG (item : PtrG T → Bool) (d : DataG T) : DataG T :=
  d.flatMap fun p =>
    match Q.asArray p.inner with
    | some _ => .refs ((childrenPtrG Q p).filter fun c => item (PtrG.empty c.inner c.loc))
    | none => match Q.asObject p.inner with
      | some _ => .refs ((childrenPtrG Q p).filter fun c => item (PtrG.empty c.inner c.loc))
      | none => .nothing

/-- `eq_json`: numbers by value, arrays and objects structurally through the accessors, otherwise the type's own `==` -/
def eqJsonFuel : Nat → T → T → Bool
  | 0, _, _ => false
  | fuel+1, a, b =>
    match Q.num a, Q.num b with
    | some x, some y => x.exactEq y
    | _, _ =>
      match Q.asArray a, Q.asArray b with
      | some xs, some ys => xs.length == ys.length && (List.zipWith (eqJsonFuel fuel) xs ys).all id
      | _, _ =>
        match Q.asObject a, Q.asObject b with
        | some xs, some ys =>
          xs.length == ys.length && xs.all fun (k, x) => ys.any fun (k', y) => k == k' && eqJsonFuel fuel x y
        | _, _ => Q.beq a b

def eqJsonG (a b : T) : Bool := eqJsonFuel Q (Q.depth a + 1) a b

def ltJsonG (a b : T) : Bool :=
  match Q.num a, Q.num b with
  | some x, some y => x.lt y
  | _, _ => match Q.asStr a, Q.asStr b with
    | some x, some y => x < y
    | _, _ => false

def ptrsEqG : List (PtrG T) → List (PtrG T) → Bool
  | [], [] => true
  | a :: as, b :: bs => (Q.beq a.inner b.inner && a.path == b.path) && ptrsEqG as bs
  | _, _ => false

def eqDataG : DataG T → DataG T → Bool
  | .value l, .value r => eqJsonG Q l r
  | .value v, .ref p => eqJsonG Q v p.inner
  | .ref p, .value v => eqJsonG Q v p.inner
  | .ref l, .ref r => eqJsonG Q l.inner r.inner
  | .refs l, .refs r => ptrsEqG Q l r
  | .ref r, .refs rhs => match Q.asArray r.inner with
      | some xs => xs.length == rhs.length && (List.zipWith (eqJsonG Q) xs (rhs.map (·.inner))).all id
      | none => false
  | .nothing, .nothing => true
  | _, _ => false

def ltDataG : DataG T → DataG T → Bool
  | .value l, .value r => ltJsonG Q l r
  | .value v, .ref p => ltJsonG Q v p.inner
  | .ref p, .value v => ltJsonG Q p.inner v
  | .ref l, .ref r => ltJsonG Q l.inner r.inner
  | _, _ => false

def cmpDataG (op : CmpOp) (l r : DataG T) : Bool :=
  match op with
  | .eq => eqDataG Q l r
  | .ne => !eqDataG Q l r
  | .gt => ltDataG Q r l
  | .ge => ltDataG Q r l || eqDataG Q l r
  | .lt => ltDataG Q l r
  | .le => ltDataG Q l r || eqDataG Q l r

def literalValueG : Literal → T
  | .int i => Q.ofI64 i
  | .float n d => Q.ofF64 n d
  | .str s => Q.ofStr s
  | .bool b => Q.ofBool b
  | .null => Q.null

def processSQSegG (d : DataG T) : SQSeg → DataG T
  | .index i => d.flatMap (processIndexG Q i)
  | .name k => d.flatMap (processKeyG Q k)

def lengthItemG (j : T) : DataG T :=
  match Q.asStr j with
  | some s => di64G Q s.length
  | none => match Q.asArray j with
    | some xs => di64G Q xs.length
    | none => match Q.asObject j with
      | some kvs => di64G Q kvs.length
      | none => .nothing

def lengthFnG (d : DataG T) : DataG T :=
  match d with
  | .ref p => lengthItemG Q p.inner
  | .refs ps => di64G Q ps.length
  | .value v => lengthItemG Q v
  | .nothing => .nothing

def countFnG : DataG T → DataG T
  | .ref _ => di64G Q 1
  | .value _ => di64G Q 1
  | .refs ps => di64G Q ps.length
  | .nothing => di64G Q 0

def valueFnG : DataG T → DataG T
  | .ref p => .ref p
  | .value v => .value v
  | .refs [p] => .ref p
  | _ => .nothing

def argValuesG : DataG T → List T
  | .value v => [v]
  | .ref p => [p.inner]
  | .refs ps => ps.map (·.inner)
  | .nothing => []

def toStrDG : DataG T → Option Str
  | .value v => Q.asStr v
  | .ref p => Q.asStr p.inner
  | _ => none

def toPatDG : DataG T → Option Str
  | .value v => (Q.asStr v).map unDouble
  | .ref p => Q.asStr p.inner
  | _ => none

def presentOfG : DataG T → Bool
  | .ref _ => true
  | .refs ps => !ps.isEmpty
  | _ => false

variable (E : Engine) (root : T)

mutual
def Segment.processG : Segment → DataG T → DataG T
  | .descendant s, d => s.processG (d.flatMap (descendantG Q))
  | .selector s, d => s.processG d
  | .selectors ss, d => Selector.processAllG ss d
def Selector.processAllG : List Selector → DataG T → DataG T
  | [], _ => rootDataG root
  | [s], d => s.processG d
  | s :: s' :: ss, d => (s.processG d).reduce (Selector.processAllG (s' :: ss) d)
def Selector.processG : Selector → DataG T → DataG T
  | .name k, d => d.flatMap (processKeyG Q k)
  | .index i, d => d.flatMap (processIndexG Q i)
  | .wildcard, d => d.flatMap (processWildcardG Q)
  | .slice a b c, d => d.flatMap (processSliceG Q a b c)
  | .filter f, d => filterChildrenWithG Q (fun p => boolOfG Q (f.elemG (.ref p))) d
def Segment.processListG : List Segment → DataG T → DataG T
  | [], d => d
  | s :: ss, d => Segment.processListG ss (s.processG d)
def Filter.elemG : Filter → DataG T → DataG T
  | .or fs, d => dboolG Q (Filter.anyG fs d)
  | .and fs, d => dboolG Q (Filter.allG fs d)
  | .atom a, d => a.processG d
def Filter.anyG : List Filter → DataG T → Bool
  | [], _ => false
  | f :: fs, d =>
      boolOfG Q (filterProcessWithG Q (fun p => boolOfG Q (f.elemG (.ref p))) d) || Filter.anyG fs d
def Filter.allG : List Filter → DataG T → Bool
  | [], _ => true
  | f :: fs, d =>
      boolOfG Q (filterProcessWithG Q (fun p => boolOfG Q (f.elemG (.ref p))) d) && Filter.allG fs d
def FilterAtom.processG : FilterAtom → DataG T → DataG T
  | .filter e n, d =>
      let r := filterProcessWithG Q (fun p => boolOfG Q (e.elemG (.ref p))) d
      bif n then dboolG Q (!boolOfG Q r) else r
  | .test e n, d =>
      let res := e.processG d
      bif e.isResBool then (bif n then dboolG Q (!boolOfG Q res) else res)
      else (bif presentOfG res then dboolG Q (!n) else dboolG Q n)
  | .cmp op l r, d => dboolG Q (cmpDataG Q op (l.processG d) (r.processG d))
def Comparable.processG : Comparable → DataG T → DataG T
  | .lit l, _ => .value (literalValueG Q l)
  | .fn f, d => f.processG d
  | .sq isRoot segs, d => segs.foldl (processSQSegG Q) (if isRoot then rootDataG root else d)
def Test.processG : Test → DataG T → DataG T
  | .rel segs, d => Segment.processListG segs d
  | .abs segs, _ => Segment.processListG segs (rootDataG root)
  | .fn f, d => f.processG d
def TestFunction.processG : TestFunction → DataG T → DataG T
  | .length a, d => lengthFnG Q (a.processG d)
  | .count a, d => countFnG Q (a.processG d)
  | .value a, d => valueFnG (a.processG d)
  | .match a b, d =>
      match toStrDG Q (a.processG d), toPatDG Q (b.processG d) with
      | some s, some p => dboolG Q (E.regexFn s p false)
      | _, _ => dboolG Q false
  | .search a b, d =>
      match toStrDG Q (a.processG d), toPatDG Q (b.processG d) with
      | some s, some p => dboolG Q (E.regexFn s p true)
      | _, _ => dboolG Q false
  | .custom name args, d => .value (Q.extensionCustom name (FnArg.valuesG args d))
def FnArg.valuesG : List FnArg → DataG T → List T
  | [], _ => []
  | a :: as, d => argValuesG (a.processG d) ++ FnArg.valuesG as d
def FnArg.processG : FnArg → DataG T → DataG T
  | .lit l, _ => .value (literalValueG Q l)
  | .test t, d => t.processG d
  | .filter f, d => filterProcessWithG Q (fun p => boolOfG Q (f.elemG (.ref p))) d
end

/-- `js_path_process`, generic -/
def jsPathProcessG (segs : List Segment) : Except Unit (List (PtrG T)) :=
  match Segment.processListG Q E root segs (rootDataG root) with
  | .ref p => .ok [p]
  | .refs ps => .ok ps
  | .value _ => .error ()
  | .nothing => .ok []

end JP
