import JsonPathVerif.Parser
import JsonPathVerif.Spec
/-! C07, layer 6b (function typing): whatever pair tree pest hands to the builder of `parser.rs`, a query that the builder
accepts is well-typed in the sense of RFC 9535 2.4.3 (`Spec.wtSegs`): `length`/`match`/`search` only get ValueType arguments,
`count`/`value` only queries, a value-returning function is never used as a test, a logical one never compared, arities are
right.  The statement quantifies over ALL pair trees, so it does not depend on the grammar. -/
namespace JP
open Spec

theorem mapR_all {α β} {f : α → R β} {P : β → Prop} (h : ∀ x y, f x = .ok y → P y) :
    ∀ (l : List α) (ys : List β), mapR f l = .ok ys → ∀ y ∈ ys, P y
  | [], ys, hm => by simp [mapR] at hm; subst hm; simp
  | x :: xs, ys, hm => by
    unfold mapR at hm
    cases hx : f x with
    | error e => simp [hx] at hm
    | ok y =>
      simp only [hx] at hm
      cases hxs : mapR f xs with
      | error e => simp [hxs] at hm
      | ok ys' =>
        simp only [hxs, Except.ok.injEq] at hm
        subst hm
        intro z hz
        simp only [List.mem_cons] at hz
        rcases hz with rfl | hz
        · exact h x _ hx
        · exact mapR_all h xs ys' hxs z hz

theorem wtSegs_of_all : ∀ (ss : List Segment), (∀ s ∈ ss, wtSeg s = true) → wtSegs ss = true
  | [], _ => rfl
  | s :: ss, h => by simp [wtSegs, h s (by simp), wtSegs_of_all ss (fun t ht => h t (List.mem_cons_of_mem _ ht))]
theorem wtSels_of_all : ∀ (ss : List Selector), (∀ s ∈ ss, wtSel s = true) → wtSels ss = true
  | [], _ => rfl
  | s :: ss, h => by simp [wtSels, h s (by simp), wtSels_of_all ss (fun t ht => h t (List.mem_cons_of_mem _ ht))]
theorem wtFilters_of_all : ∀ (fs : List Filter), (∀ f ∈ fs, wtFilter f = true) → wtFilters fs = true
  | [], _ => rfl
  | f :: fs, h => by simp [wtFilters, h f (by simp), wtFilters_of_all fs (fun t ht => h t (List.mem_cons_of_mem _ ht))]
theorem wtArgs_of_all : ∀ (as : List FnArg), (∀ a ∈ as, wtArg a = true) → wtArgs as = true
  | [], _ => rfl
  | a :: as, h => by simp [wtArgs, h a (by simp), wtArgs_of_all as (fun t ht => h t (List.mem_cons_of_mem _ ht))]

theorem isSingularSegs_eq : ∀ (ss : List Segment), JP.isSingularSegs ss = Spec.isSingularSegs ss
  | [] => rfl
  | .selector (.name _) :: r => by simp [JP.isSingularSegs, Spec.isSingularSegs, isSingularSegs_eq r]
  | .selector (.index _) :: r => by simp [JP.isSingularSegs, Spec.isSingularSegs, isSingularSegs_eq r]
  | .selector .wildcard :: _ => rfl
  | .selector (.slice _ _ _) :: _ => rfl
  | .selector (.filter _) :: _ => rfl
  | .selectors _ :: _ => rfl
  | .descendant _ :: _ => rfl

/-- an argument as the builder produces it: well-formed inside, and if it is a function call, a well-typed one -/
def goodArg (a : FnArg) : Prop := wtArg a = true ∧ ∀ f, a = .test (.fn f) → tyFn f ≠ .bad
def goodTest (t : Test) : Prop := wtArg (.test t) = true ∧ ∀ f, t = .fn f → tyFn f ≠ .bad
def goodFn (f : TestFunction) : Prop := wtFn f = true ∧ tyFn f ≠ .bad

theorem comparable_value {f : TestFunction} (hc : f.isComparable = true) (hb : tyFn f ≠ .bad) : tyFn f = .value := by
  cases f with
  | length a => simp only [tyFn] at hb ⊢; split <;> simp_all
  | count a => simp only [tyFn] at hb ⊢; split <;> simp_all
  | value a => simp only [tyFn] at hb ⊢; split <;> simp_all
  | «match» a b => simp [TestFunction.isComparable] at hc
  | search a b => simp [TestFunction.isComparable] at hc
  | custom n as => simp [TestFunction.isComparable] at hc

theorem noncomparable_logical {f : TestFunction} (hc : f.isComparable = false) (hb : tyFn f ≠ .bad) : tyFn f = .logical := by
  cases f with
  | length a => simp [TestFunction.isComparable] at hc
  | count a => simp [TestFunction.isComparable] at hc
  | value a => simp [TestFunction.isComparable] at hc
  | «match» a b => simp only [tyFn] at hb ⊢; split <;> simp_all
  | search a b => simp only [tyFn] at hb ⊢; split <;> simp_all
  | custom n as => rfl

theorem valueType_ty {a : FnArg} (hg : goodArg a) (hv : a.isValueType = true) : tyArg a = .value := by
  cases a with
  | lit l => rfl
  | filter f => simp [FnArg.isValueType] at hv
  | test t =>
    cases t with
    | rel ss => simp only [FnArg.isValueType, isSingularSegs_eq] at hv; simp [tyArg, hv]
    | abs ss => simp only [FnArg.isValueType, isSingularSegs_eq] at hv; simp [tyArg, hv]
    | fn f =>
      simp only [FnArg.isValueType] at hv
      simp only [tyArg]
      exact comparable_value hv (hg.2 f rfl)

theorem nodesType_shape {a : FnArg} (hn : a.isNodesType = true) : (∃ ss, a = .test (.rel ss)) ∨ (∃ ss, a = .test (.abs ss)) := by
  cases a with
  | lit l => simp [FnArg.isNodesType] at hn
  | filter f => simp [FnArg.isNodesType] at hn
  | test t =>
    cases t with
    | rel ss => exact .inl ⟨ss, rfl⟩
    | abs ss => exact .inr ⟨ss, rfl⟩
    | fn f => simp [FnArg.isNodesType] at hn

/-- `TestFunction::try_new` only builds well-typed calls (given well-formed arguments) -/
theorem tryNewFn_good (name : Str) (args : List FnArg) (hargs : ∀ a ∈ args, goodArg a) (f : TestFunction)
    (h : tryNewFn name args = .ok f) : goodFn f := by
  unfold tryNewFn at h
  simp only at h
  split at h
  · -- length
    match args, hargs, h with
    | [a], hargs, h =>
      have hg := hargs a (by simp)
      by_cases hv : a.isValueType = true
      · simp only [hv, if_true] at h; cases h
        exact ⟨by simpa [wtFn] using hg.1, by simp [tyFn, valueType_ty hg hv]⟩
      · simp [hv] at h; cases h
    | [], _, h => cases h
    | _ :: _ :: _, _, h => cases h
  · split at h
    · -- value
      match args, hargs, h with
      | [a], hargs, h =>
        have hg := hargs a (by simp)
        by_cases hv : a.isNodesType = true
        · simp only [hv, if_true] at h; cases h
          rcases nodesType_shape hv with ⟨ss, rfl⟩ | ⟨ss, rfl⟩
          · exact ⟨by simpa [wtFn] using hg.1, by simp [tyFn]⟩
          · exact ⟨by simpa [wtFn] using hg.1, by simp [tyFn]⟩
        · simp [hv] at h; cases h
      | [], _, h => cases h
      | _ :: _ :: _, _, h => cases h
    · split at h
      · -- count
        match args, hargs, h with
        | [a], hargs, h =>
          have hg := hargs a (by simp)
          by_cases hl : (a.isLit || a.isFilter) = true
          · simp [hl] at h; cases h
          · by_cases hv : a.isNodesType = true
            · simp only [hl, hv, if_true, Bool.false_eq_true, if_false] at h; cases h
              rcases nodesType_shape hv with ⟨ss, rfl⟩ | ⟨ss, rfl⟩
              · exact ⟨by simpa [wtFn] using hg.1, by simp [tyFn]⟩
              · exact ⟨by simpa [wtFn] using hg.1, by simp [tyFn]⟩
            · simp [hl, hv] at h; cases h
        | [], _, h => cases h
        | _ :: _ :: _, _, h => cases h
      · split at h
        · -- search
          match args, hargs, h with
          | [a, b], hargs, h =>
            have ga := hargs a (by simp); have gb := hargs b (by simp)
            by_cases hv : (a.isValueType && b.isValueType) = true
            · simp only [hv, if_true] at h; cases h
              simp only [Bool.and_eq_true] at hv
              exact ⟨by simp [wtFn, ga.1, gb.1], by simp [tyFn, valueType_ty ga hv.1, valueType_ty gb hv.2]⟩
            · simp [hv] at h; cases h
          | [], _, h => cases h
          | [_], _, h => cases h
          | _ :: _ :: _ :: _, _, h => cases h
        · split at h
          · -- match
            match args, hargs, h with
            | [a, b], hargs, h =>
              have ga := hargs a (by simp); have gb := hargs b (by simp)
              by_cases hv : (a.isValueType && b.isValueType) = true
              · simp only [hv, if_true] at h; cases h
                simp only [Bool.and_eq_true] at hv
                exact ⟨by simp [wtFn, ga.1, gb.1], by simp [tyFn, valueType_ty ga hv.1, valueType_ty gb hv.2]⟩
              · simp [hv] at h; cases h
            | [], _, h => cases h
            | [_], _, h => cases h
            | _ :: _ :: _ :: _, _, h => cases h
          · split at h
            · cases h
            · cases h
              exact ⟨by simpa [wtFn] using wtArgs_of_all args (fun a ha => (hargs a ha).1), by simp [tyFn]⟩

/-- what the builder guarantees at a given fuel, for every input text and EVERY pair tree -/
structure BuilderWT (fuel : Nat) : Prop where
  segments : ∀ inp p ss, segmentsB fuel inp p = .ok ss → wtSegs ss = true
  childSegment : ∀ inp p sg, childSegmentB fuel inp p = .ok sg → wtSeg sg = true
  segment : ∀ inp p sg, segmentB fuel inp p = .ok sg → wtSeg sg = true
  selector : ∀ inp p sl, selectorB fuel inp p = .ok sl → wtSel sl = true
  fnArg : ∀ inp p a, fnArgB fuel inp p = .ok a → goodArg a
  functionExpr : ∀ inp p f, functionExprB fuel inp p = .ok f → goodFn f
  test : ∀ inp p t, testB fuel inp p = .ok t → goodTest t
  logicalExpr : ∀ inp p f, logicalExprB fuel inp p = .ok f → wtFilter f = true
  logicalExprAnd : ∀ inp p f, logicalExprAndB fuel inp p = .ok f → wtFilter f = true
  filterAtom : ∀ inp p a, filterAtomB fuel inp p = .ok a → wtAtom a = true
  comparable : ∀ inp p c, comparableB fuel inp p = .ok c → wtCmp c = true

theorem builderWT_zero : BuilderWT 0 where
  segments := fun inp p r h => by simp [segmentsB, err] at h
  childSegment := fun inp p r h => by simp [childSegmentB, err] at h
  segment := fun inp p r h => by simp [segmentB, err] at h
  selector := fun inp p r h => by simp [selectorB, err] at h
  fnArg := fun inp p r h => by simp [fnArgB, err] at h
  functionExpr := fun inp p r h => by simp [functionExprB, err] at h
  test := fun inp p r h => by simp [testB, err] at h
  logicalExpr := fun inp p r h => by simp [logicalExprB, err] at h
  logicalExprAnd := fun inp p r h => by simp [logicalExprAndB, err] at h
  filterAtom := fun inp p r h => by simp [filterAtomB, err] at h
  comparable := fun inp p r h => by simp [comparableB, err] at h

theorem ok_pure {α} (a b : α) (h : (pure a : R α) = .ok b) : a = b := by
  cases h; rfl

theorem getLast_mem' {α} : ∀ (l : List α) (x : α), l.getLast? = some x → x ∈ l
  | [], _, h => by simp at h
  | [a], x, h => by simp at h; simp [h]
  | a :: b :: l, x, h => by
    have : (a :: b :: l).getLast? = (b :: l).getLast? := by simp [List.getLast?_cons_cons]
    rw [this] at h
    exact List.mem_cons_of_mem _ (getLast_mem' (b :: l) x h)

theorem singularB_sq (inp : Inp) (rule : PairT) (c : Comparable) (h : singularB inp rule = .ok c) : wtCmp c = true := by
  unfold singularB at h
  simp only [bind, Except.bind] at h
  repeat' split at h
  all_goals first
    | (cases h; rfl)
    | (simp [err, pure, Except.pure] at h; try (cases h; rfl))
    | cases h

theorem builderWT_succ (fuel : Nat) (ih : BuilderWT fuel) : BuilderWT (fuel + 1) where
  segments := fun inp p ss h => by
    unfold segmentsB at h
    refine wtSegs_of_all ss (mapR_all (P := fun s => wtSeg s = true) ?_ _ _ h)
    intro x y hxy
    cases hf : firstInner x with
    | error e => simp [hf] at hxy
    | ok c => simp only [hf] at hxy; exact ih.segment inp c y hxy
  childSegment := fun inp p sg h => by
    unfold childSegmentB at h
    split at h
    · cases ok_pure _ _ h; rfl
    · cases ok_pure _ _ h; rfl
    · cases hm : mapR (selectorB fuel inp) p.inner with
      | error e => simp [hm] at h
      | ok sels =>
        have hall := mapR_all (P := fun s => wtSel s = true) (fun x y hxy => ih.selector inp x y hxy) _ _ hm
        rw [hm] at h
        match sels, hall, h with
        | [s], hall, h => cases ok_pure _ _ h; simpa [wtSeg] using hall s (by simp)
        | [], hall, h => cases ok_pure _ _ h; rfl
        | a :: b :: r, hall, h => cases ok_pure _ _ h; simpa [wtSeg] using wtSels_of_all _ hall
    · simp [err] at h
  segment := fun inp p sg h => by
    unfold segmentB at h
    repeat' (first | split at h | (dsimp only at h; split at h))
    all_goals first
      | (cases h; done)
      | (simp [err] at h; done)
      | exact ih.childSegment _ _ _ h
      | (cases ok_pure _ _ h; simpa [wtSeg] using ih.childSegment _ _ _ ‹childSegmentB fuel inp _ = Except.ok _›)
  selector := fun inp p sl h => by
    unfold selectorB at h
    cases hf : firstInner p with
    | error e => simp [hf] at h
    | ok child =>
      simp only [hf] at h
      split at h
      · split at h
        · cases ok_pure _ _ h; rfl
        · cases h
      · cases ok_pure _ _ h; rfl
      · split at h
        · split at h
          · cases ok_pure _ _ h; rfl
          · cases h
        · cases h
      · split at h
        · cases ok_pure _ _ h; rfl
        · cases h
      · cases hf2 : firstInner child with
        | error e => simp [hf2] at h
        | ok le =>
          simp only [hf2] at h
          cases hl : logicalExprB fuel inp le with
          | error e => simp [hl] at h
          | ok f => simp only [hl] at h; cases ok_pure _ _ h; simpa [wtSel] using ih.logicalExpr inp le f hl
      · simp [err] at h
  fnArg := fun inp p a h => by
    unfold fnArgB at h
    cases hf : firstInner p with
    | error e => simp [hf] at h
    | ok next =>
      simp only [hf] at h
      split at h
      · split at h
        · cases ok_pure _ _ h; exact ⟨rfl, fun f hf => by cases hf⟩
        · cases h
      · cases ht : testB fuel inp next with
        | error e => simp [ht] at h
        | ok t =>
          simp only [ht] at h; cases ok_pure _ _ h
          have g := ih.test inp next t ht
          exact ⟨g.1, fun f hf => g.2 f (by cases hf; rfl)⟩
      · cases hl : logicalExprB fuel inp next with
        | error e => simp [hl] at h
        | ok f =>
          simp only [hl] at h; cases ok_pure _ _ h
          exact ⟨by simpa [wtArg] using ih.logicalExpr inp next f hl, fun f hf => by cases hf⟩
      · simp [err] at h
  functionExpr := fun inp p f h => by
    unfold functionExprB at h
    simp only at h
    repeat' split at h
    all_goals first
      | (cases h; done)
      | (simp [err] at h; done)
      | exact tryNewFn_good _ _ (mapR_all (P := goodArg) (fun x y hxy => ih.fnArg inp x y hxy) _ _ ‹mapR (fnArgB fuel inp) _ = Except.ok _›) f h
  test := fun inp p t h => by
    unfold testB at h
    cases hf : firstInner p with
    | error e => simp [hf] at h
    | ok child =>
      simp only [hf] at h
      split at h
      · cases hf2 : firstInner child with
        | error e => simp [hf2] at h
        | ok c =>
          simp only [hf2] at h
          cases hs : segmentsB fuel inp c with
          | error e => simp [hs] at h
          | ok ss => simp only [hs] at h; cases ok_pure _ _ h; exact ⟨by simpa [wtArg] using ih.segments inp c ss hs, fun f hf => by cases hf⟩
      · cases hf2 : firstInner child with
        | error e => simp [hf2] at h
        | ok c =>
          simp only [hf2] at h
          cases hs : segmentsB fuel inp c with
          | error e => simp [hs] at h
          | ok ss => simp only [hs] at h; cases ok_pure _ _ h; exact ⟨by simpa [wtArg] using ih.segments inp c ss hs, fun f hf => by cases hf⟩
      · cases hfe : functionExprB fuel inp child with
        | error e => simp [hfe] at h
        | ok f =>
          simp only [hfe] at h; cases ok_pure _ _ h
          have g := ih.functionExpr inp child f hfe
          exact ⟨by simpa [wtArg] using g.1, fun f' hf' => by cases hf'; exact g.2⟩
      · simp [err] at h
  logicalExpr := fun inp p f h => by
    unfold logicalExprB at h
    cases hm : mapR (logicalExprAndB fuel inp) p.inner with
    | error e => simp [hm] at h
    | ok fs =>
      have hall := mapR_all (P := fun x => wtFilter x = true) (fun x y hxy => ih.logicalExprAnd inp x y hxy) _ _ hm
      rw [hm] at h
      match fs, hall, h with
      | [g], hall, h => cases ok_pure _ _ h; exact hall _ (by simp)
      | [], hall, h => cases ok_pure _ _ h; rfl
      | a :: b :: r, hall, h => cases ok_pure _ _ h; simpa [wtFilter] using wtFilters_of_all _ hall
  logicalExprAnd := fun inp p f h => by
    unfold logicalExprAndB at h
    generalize hm : mapR _ (Pair.inner p) = m at h
    cases m with
    | error e => simp at h
    | ok fs =>
      have hall := mapR_all (P := fun x => wtFilter x = true) (fun x y hxy => by
        cases ha : filterAtomB fuel inp x with
        | error e => simp [ha] at hxy
        | ok a => simp only [ha] at hxy; cases hxy; simpa [wtFilter] using ih.filterAtom inp x a ha) _ _ hm
      match fs, hall, h with
      | [g], hall, h => cases ok_pure _ _ h; exact hall _ (by simp)
      | [], hall, h => cases ok_pure _ _ h; rfl
      | a :: b :: r, hall, h => cases ok_pure _ _ h; simpa [wtFilter] using wtFilters_of_all _ hall
  filterAtom := fun inp p a h => by
    unfold filterAtomB at h
    cases hf : firstInner p with
    | error e => simp [hf] at h
    | ok rule =>
      simp only [hf] at h
      split at h
      · -- paren_expr
        cases hm : mapR (logicalExprB fuel inp) (rule.inner.filter (isRule .r_logical_expr)) with
        | error e => simp [hm] at h
        | ok es =>
          have hall := mapR_all (P := fun x => wtFilter x = true) (fun x y hxy => ih.logicalExpr inp x y hxy) _ _ hm
          simp only [hm] at h
          cases hl : es.getLast? with
          | none => simp [hl, err] at h
          | some e =>
            simp only [hl] at h; cases ok_pure _ _ h
            simpa [wtAtom] using hall e (getLast_mem' _ _ hl)
      · -- comp_expr
        split at h
        · rename_i l o r _ _
          cases hl : comparableB fuel inp l with
          | error e => simp [hl] at h
          | ok lhs =>
            simp only [hl] at h
            cases hr : comparableB fuel inp r with
            | error e => simp [hr] at h
            | ok rhs =>
              simp only [hr] at h
              cases ho : cmpOpOf (o.str inp) with
              | error e => simp [ho] at h
              | ok op =>
                simp only [ho] at h; cases ok_pure _ _ h
                simp [wtAtom, ih.comparable inp l lhs hl, ih.comparable inp r rhs hr]
        · simp [err] at h
      · -- test_expr
        cases hm : mapR (testB fuel inp) (rule.inner.filter (isRule .r_test)) with
        | error e => simp [hm] at h
        | ok ts =>
          have hall := mapR_all (P := goodTest) (fun x y hxy => ih.test inp x y hxy) _ _ hm
          simp only [hm] at h
          cases hl : ts.getLast? with
          | none => simp [hl, err] at h
          | some t =>
            have g := hall t (getLast_mem' _ _ hl)
            simp only [hl] at h
            cases t with
            | fn tf =>
              simp only at h
              by_cases hc : tf.isComparable = true
              · simp [hc, err] at h
              · have hc' : tf.isComparable = false := by simpa using hc
                simp only [hc', Bool.false_eq_true, if_false] at h
                cases ok_pure _ _ h
                have hw : wtFn tf = true := by simpa [wtArg] using g.1
                simp [wtAtom, noncomparable_logical hc' (g.2 tf rfl), hw]
            | rel ss => simp only at h; cases ok_pure _ _ h; simpa [wtAtom, wtArg] using g.1
            | abs ss => simp only at h; cases ok_pure _ _ h; simpa [wtAtom, wtArg] using g.1
      · simp [err] at h
  comparable := fun inp p c h => by
    unfold comparableB at h
    cases hf : firstInner p with
    | error e => simp [hf] at h
    | ok rule =>
      simp only [hf] at h
      split at h
      · split at h
        · cases ok_pure _ _ h; rfl
        · cases h
      · exact singularB_sq inp rule c h
      · cases hfe : functionExprB fuel inp rule with
        | error e => simp [hfe] at h
        | ok tf =>
          simp only [hfe] at h
          have g := ih.functionExpr inp rule tf hfe
          by_cases hc : tf.isComparable = true
          · simp only [hc, if_true] at h; cases ok_pure _ _ h
            simp [wtCmp, comparable_value hc g.2, g.1]
          · simp [hc, err] at h
      · simp [err] at h

theorem builderWT : ∀ fuel, BuilderWT fuel
  | 0 => builderWT_zero
  | fuel+1 => builderWT_succ fuel (builderWT fuel)

/-- C07 layer 6b: every query the parser model accepts is well-typed (RFC 9535 2.4.3) -/
theorem parse_wellTyped (s : Str) (q : List Segment) (h : parseJsonPath s = .ok q) : wtSegs q = true := by
  unfold parseJsonPath at h
  split at h
  · simp [err] at h
  · simp only at h
    split at h
    · split at h
      · simp only [bind, Except.bind] at h
        split at h
        · cases h
        · split at h
          · cases h
          · exact (builderWT _).segments _ _ q h
      · simp [err] at h
    · simp [err] at h

end JP
