import JsonPathVerif.Parser
import JsonPathVerif.Spec
/-! C07, layer 6b (function typing): whatever pair tree pest hands to the builder of `parser.rs`, a query that the builder
accepts is well-typed in the sense of RFC 9535 2.4.3 (`Spec.wtSegs`): `length`/`match`/`search` only get ValueType arguments,
`count`/`value` only queries, a value-returning function is never used as a test, a logical one never compared, arities are
right.  The statement quantifies over ALL pair trees, so it does not depend on the grammar. -/
namespace JP
open Spec

theorem mapR_all {α β} {f : α → R β} {P : β → Prop} (h : ∀ x y, f x = .ok y → P y) :
    ∀ (l : List α) (ys : List β), mapR f l = .ok ys → ∀ y ∈ ys, P y
  | [], ys, hm => by simp [mapR] at hm; subst hm; simp
  | x :: xs, ys, hm => by
    unfold mapR at hm
    cases hx : f x with
    | error e => simp [hx] at hm
    | ok y =>
      simp only [hx] at hm
      cases hxs : mapR f xs with
      | error e => simp [hxs] at hm
      | ok ys' =>
        simp only [hxs, Except.ok.injEq] at hm
        subst hm
        intro z hz
        simp only [List.mem_cons] at hz
        rcases hz with rfl | hz
        · exact h x _ hx
        · exact mapR_all h xs ys' hxs z hz

theorem wtSegs_of_all : ∀ (ss : List Segment), (∀ s ∈ ss, wtSeg s = true) → wtSegs ss = true
  | [], _ => rfl
  | s :: ss, h => by simp [wtSegs, h s (by simp), wtSegs_of_all ss (fun t ht => h t (List.mem_cons_of_mem _ ht))]
theorem wtSels_of_all : ∀ (ss : List Selector), (∀ s ∈ ss, wtSel s = true) → wtSels ss = true
  | [], _ => rfl
  | s :: ss, h => by simp [wtSels, h s (by simp), wtSels_of_all ss (fun t ht => h t (List.mem_cons_of_mem _ ht))]
theorem wtFilters_of_all : ∀ (fs : List Filter), (∀ f ∈ fs, wtFilter f = true) → wtFilters fs = true
  | [], _ => rfl
  | f :: fs, h => by simp [wtFilters, h f (by simp), wtFilters_of_all fs (fun t ht => h t (List.mem_cons_of_mem _ ht))]
theorem wtArgs_of_all : ∀ (as : List FnArg), (∀ a ∈ as, wtArg a = true) → wtArgs as = true
  | [], _ => rfl
  | a :: as, h => by simp [wtArgs, h a (by simp), wtArgs_of_all as (fun t ht => h t (List.mem_cons_of_mem _ ht))]

theorem isSingularSegs_eq : ∀ (ss : List Segment), JP.isSingularSegs ss = Spec.isSingularSegs ss
  | [] => rfl
  | .selector (.name _) :: r => by simp [JP.isSingularSegs, Spec.isSingularSegs, isSingularSegs_eq r]
  | .selector (.index _) :: r => by simp [JP.isSingularSegs, Spec.isSingularSegs, isSingularSegs_eq r]
  | .selector .wildcard :: _ => rfl
  | .selector (.slice _ _ _) :: _ => rfl
  | .selector (.filter _) :: _ => rfl
  | .selectors _ :: _ => rfl
  | .descendant _ :: _ => rfl

/-- an argument as the builder produces it: well-formed inside, and if it is a function call, a well-typed one -/
def goodArg (a : FnArg) : Prop := wtArg a = true ∧ ∀ f, a = .test (.fn f) → tyFn f ≠ .bad
def goodTest (t : Test) : Prop := wtArg (.test t) = true ∧ ∀ f, t = .fn f → tyFn f ≠ .bad
def goodFn (f : TestFunction) : Prop := wtFn f = true ∧ tyFn f ≠ .bad

theorem comparable_value {f : TestFunction} (hc : f.isComparable = true) (hb : tyFn f ≠ .bad) : tyFn f = .value := by
  cases f with
  | length a => simp only [tyFn] at hb ⊢; split <;> simp_all
  | count a => simp only [tyFn] at hb ⊢; split <;> simp_all
  | value a => simp only [tyFn] at hb ⊢; split <;> simp_all
  | «match» a b => simp [TestFunction.isComparable] at hc
  | search a b => simp [TestFunction.isComparable] at hc
  | custom n as => simp [TestFunction.isComparable] at hc

theorem noncomparable_logical {f : TestFunction} (hc : f.isComparable = false) (hb : tyFn f ≠ .bad) : tyFn f = .logical := by
  cases f with
  | length a => simp [TestFunction.isComparable] at hc
  | count a => simp [TestFunction.isComparable] at hc
  | value a => simp [TestFunction.isComparable] at hc
  | «match» a b => simp only [tyFn] at hb ⊢; split <;> simp_all
  | search a b => simp only [tyFn] at hb ⊢; split <;> simp_all
  | custom n as => rfl

theorem valueType_ty {a : FnArg} (hg : goodArg a) (hv : a.isValueType = true) : tyArg a = .value := by
  cases a with
  | lit l => rfl
  | filter f => simp [FnArg.isValueType] at hv
  | test t =>
    cases t with
    | rel ss => simp only [FnArg.isValueType, isSingularSegs_eq] at hv; simp [tyArg, hv]
    | abs ss => simp only [FnArg.isValueType, isSingularSegs_eq] at hv; simp [tyArg, hv]
    | fn f =>
      simp only [FnArg.isValueType] at hv
      simp only [tyArg]
      exact comparable_value hv (hg.2 f rfl)

theorem nodesType_shape {a : FnArg} (hn : a.isNodesType = true) : (∃ ss, a = .test (.rel ss)) ∨ (∃ ss, a = .test (.abs ss)) := by
  cases a with
  | lit l => simp [FnArg.isNodesType] at hn
  | filter f => simp [FnArg.isNodesType] at hn
  | test t =>
    cases t with
    | rel ss => exact .inl ⟨ss, rfl⟩
    | abs ss => exact .inr ⟨ss, rfl⟩
    | fn f => simp [FnArg.isNodesType] at hn

/-- `TestFunction::try_new` only builds well-typed calls (given well-formed arguments) -/
theorem tryNewFn_good (name : Str) (args : List FnArg) (hargs : ∀ a ∈ args, goodArg a) (f : TestFunction)
    (h : tryNewFn name args = .ok f) : goodFn f := by
  unfold tryNewFn at h
  simp only at h
  split at h
  · -- length
    match args, hargs, h with
    | [a], hargs, h =>
      have hg := hargs a (by simp)
      by_cases hv : a.isValueType = true
      · simp only [hv, if_true] at h; cases h
        exact ⟨by simpa [wtFn] using hg.1, by simp [tyFn, valueType_ty hg hv]⟩
      · simp [hv] at h; cases h
    | [], _, h => cases h
    | _ :: _ :: _, _, h => cases h
  · split at h
    · -- value
      match args, hargs, h with
      | [a], hargs, h =>
        have hg := hargs a (by simp)
        by_cases hv : a.isNodesType = true
        · simp only [hv, if_true] at h; cases h
          rcases nodesType_shape hv with ⟨ss, rfl⟩ | ⟨ss, rfl⟩
          · exact ⟨by simpa [wtFn] using hg.1, by simp [tyFn]⟩
          · exact ⟨by simpa [wtFn] using hg.1, by simp [tyFn]⟩
        · simp [hv] at h; cases h
      | [], _, h => cases h
      | _ :: _ :: _, _, h => cases h
    · split at h
      · -- count
        match args, hargs, h with
        | [a], hargs, h =>
          have hg := hargs a (by simp)
          split at h
          · cases h
          · by_cases hv : a.isNodesType = true
            · simp only [hv, if_true] at h; cases h
              rcases nodesType_shape hv with ⟨ss, rfl⟩ | ⟨ss, rfl⟩
              · exact ⟨by simpa [wtFn] using hg.1, by simp [tyFn]⟩
              · exact ⟨by simpa [wtFn] using hg.1, by simp [tyFn]⟩
            · simp [hv] at h; cases h
        | [], _, h => cases h
        | _ :: _ :: _, _, h => cases h
      · split at h
        · -- search
          match args, hargs, h with
          | [a, b], hargs, h =>
            have ga := hargs a (by simp); have gb := hargs b (by simp)
            by_cases hv : (a.isValueType && b.isValueType) = true
            · simp only [hv, if_true] at h; cases h
              simp only [Bool.and_eq_true] at hv
              exact ⟨by simp [wtFn, ga.1, gb.1], by simp [tyFn, valueType_ty ga hv.1, valueType_ty gb hv.2]⟩
            · simp [hv] at h; cases h
          | [], _, h => cases h
          | [_], _, h => cases h
          | _ :: _ :: _ :: _, _, h => cases h
        · split at h
          · -- match
            match args, hargs, h with
            | [a, b], hargs, h =>
              have ga := hargs a (by simp); have gb := hargs b (by simp)
              by_cases hv : (a.isValueType && b.isValueType) = true
              · simp only [hv, if_true] at h; cases h
                simp only [Bool.and_eq_true] at hv
                exact ⟨by simp [wtFn, ga.1, gb.1], by simp [tyFn, valueType_ty ga hv.1, valueType_ty gb hv.2]⟩
              · simp [hv] at h; cases h
            | [], _, h => cases h
            | [_], _, h => cases h
            | _ :: _ :: _ :: _, _, h => cases h
          · split at h
            · cases h
            · cases h
              exact ⟨by simpa [wtFn] using wtArgs_of_all args (fun a ha => (hargs a ha).1), by simp [tyFn]⟩

end JP
