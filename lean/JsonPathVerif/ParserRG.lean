import JsonPathVerif.ParserWT
/-! C07, integer range: whatever pair tree pest hands to the builder, every integer of an index selector, a slice bound or step,
or a singular-query index in a query the builder accepts lies in the I-JSON range ±(2^53-1), and every number LITERAL is an integer
in that range or a decimal that rounds to a finite double (`rgLit`).  (RFC 9535 does not clearly demand the literal part – the oracle
abstains on such strings –, but it is what keeps comparisons inside the exact-number domain: see D30.) -/
namespace JP

def inRangeB (i : Int) : Bool := decide (-9007199254740991 ≤ i ∧ i ≤ 9007199254740991)
def oInRange : Option Int → Bool | none => true | some i => inRangeB i
def sqRange : SQSeg → Bool | .index i => inRangeB i | .name _ => true
/-- a number literal the crate can hold: an integer in the I-JSON range, a float that rounds to a finite double -/
def rgLit : Literal → Bool
  | .int i => inRangeB i
  | .float n d => f64Finite n d
  | _ => true

mutual
def rgSeg : Segment → Bool
  | .descendant s => rgSeg s
  | .selector s => rgSel s
  | .selectors ss => rgSels ss
def rgSels : List Selector → Bool
  | [] => true
  | s :: ss => rgSel s && rgSels ss
def rgSel : Selector → Bool
  | .index i => inRangeB i
  | .slice a b c => oInRange a && oInRange b && oInRange c
  | .filter f => rgFlt f
  | _ => true
def rgSegs : List Segment → Bool
  | [] => true
  | s :: ss => rgSeg s && rgSegs ss
def rgFlt : Filter → Bool
  | .or fs => rgFlts fs
  | .and fs => rgFlts fs
  | .atom a => rgAtom a
def rgFlts : List Filter → Bool
  | [] => true
  | f :: fs => rgFlt f && rgFlts fs
def rgAtom : FilterAtom → Bool
  | .filter e _ => rgFlt e
  | .test t _ => rgTest t
  | .cmp _ l r => rgCmp l && rgCmp r
def rgTest : Test → Bool
  | .rel ss => rgSegs ss
  | .abs ss => rgSegs ss
  | .fn f => rgFn f
def rgCmp : Comparable → Bool
  | .lit l => rgLit l
  | .sq _ segs => segs.all sqRange
  | .fn f => rgFn f
def rgFn : TestFunction → Bool
  | .length a => rgArg a
  | .count a => rgArg a
  | .value a => rgArg a
  | .match a b => rgArg a && rgArg b
  | .search a b => rgArg a && rgArg b
  | .custom _ args => rgArgs args
def rgArgs : List FnArg → Bool
  | [] => true
  | a :: as => rgArg a && rgArgs as
def rgArg : FnArg → Bool
  | .lit l => rgLit l
  | .test t => rgTest t
  | .filter f => rgFlt f
end

theorem rgSegs_of_all : ∀ (ss : List Segment), (∀ s ∈ ss, rgSeg s = true) → rgSegs ss = true
  | [], _ => rfl
  | s :: ss, h => by simp [rgSegs, h s (by simp), rgSegs_of_all ss (fun t ht => h t (List.mem_cons_of_mem _ ht))]
theorem rgSels_of_all : ∀ (ss : List Selector), (∀ s ∈ ss, rgSel s = true) → rgSels ss = true
  | [], _ => rfl
  | s :: ss, h => by simp [rgSels, h s (by simp), rgSels_of_all ss (fun t ht => h t (List.mem_cons_of_mem _ ht))]
theorem rgFlts_of_all : ∀ (fs : List Filter), (∀ f ∈ fs, rgFlt f = true) → rgFlts fs = true
  | [], _ => rfl
  | f :: fs, h => by simp [rgFlts, h f (by simp), rgFlts_of_all fs (fun t ht => h t (List.mem_cons_of_mem _ ht))]
theorem rgArgs_of_all : ∀ (as : List FnArg), (∀ a ∈ as, rgArg a = true) → rgArgs as = true
  | [], _ => rfl
  | a :: as, h => by simp [rgArgs, h a (by simp), rgArgs_of_all as (fun t ht => h t (List.mem_cons_of_mem _ ht))]

theorem validateRange_ok (v w : Int) (h : validateRange v = .ok w) : w = v ∧ inRangeB v = true := by
  unfold validateRange at h
  by_cases h1 : v > MAXV
  · simp [h1, err] at h
  · by_cases h2 : v < -MAXV
    · simp [h1, h2, err] at h
    · simp only [h1, h2, decide_false, Bool.or_self, Bool.false_eq_true, if_false] at h
      cases ok_pure _ _ h
      simp only [MAXV] at h1 h2
      exact ⟨rfl, by simp [inRangeB]; omega⟩

theorem bind_ok {α β} (x : R α) (f : α → R β) (b : β) (h : (x >>= f) = .ok b) : ∃ a, x = .ok a ∧ f a = .ok b := by
  cases x with
  | error e => cases h
  | ok a => exact ⟨a, rfl, h⟩

/-- a bound that went through `getInt` and `validate_range` -/
theorem checked_int (inp : Inp) (r : PairT) (k : Int → R (Option Int × Option Int × Option Int)) (res : Option Int × Option Int × Option Int)
    (h : (do let v ← getInt inp r; let v ← validateRange v; k v) = .ok res) : ∃ v, inRangeB v = true ∧ k v = .ok res := by
  obtain ⟨v, _, h2⟩ := bind_ok _ _ _ h
  obtain ⟨w, hw, h3⟩ := bind_ok _ _ _ h2
  obtain ⟨e, hr⟩ := validateRange_ok _ _ hw
  subst e
  exact ⟨w, hr, h3⟩

/-- one step of the loop over the parts of a `slice_selector` keeps "all present bounds are in range" -/
def sliceStep (inp : Inp) (x : Option Int × Option Int × Option Int) (r : PairT) : R (Option Int × Option Int × Option Int) :=
  match x with
  | (a, b, c) =>
    match r.rule with
    | .r_start => do let v ← getInt inp r; let v ← validateRange v; pure (some v, b, c)
    | .r_end => do let v ← getInt inp r; let v ← validateRange v; pure (a, some v, c)
    | .r_step => match r.inner with
        | i :: _ => do let v ← getInt inp i; let v ← validateRange v; pure (a, b, some v)
        | [] => pure (a, b, none)
    | _ => err

def okTriple (s : Option Int × Option Int × Option Int) : Prop := oInRange s.1 = true ∧ oInRange s.2.1 = true ∧ oInRange s.2.2 = true

theorem sliceStep_ok (inp : Inp) (s s' : Option Int × Option Int × Option Int) (r : PairT) (hs : okTriple s)
    (h : sliceStep inp s r = .ok s') : okTriple s' := by
  obtain ⟨sa, sb, sc⟩ := s
  unfold sliceStep at h
  simp only at h
  split at h
  · obtain ⟨v, hv, hk⟩ := checked_int inp r _ _ h
    cases ok_pure _ _ hk; exact ⟨hv, hs.2.1, hs.2.2⟩
  · obtain ⟨v, hv, hk⟩ := checked_int inp r _ _ h
    cases ok_pure _ _ hk; exact ⟨hs.1, hv, hs.2.2⟩
  · split at h
    · rename_i i _ _
      obtain ⟨v, hv, hk⟩ := checked_int inp i _ _ h
      cases ok_pure _ _ hk; exact ⟨hs.1, hs.2.1, hv⟩
    · cases ok_pure _ _ h; exact ⟨hs.1, hs.2.1, rfl⟩
  · simp [err] at h

theorem foldlM_ok {σ α} (f : σ → α → R σ) (P : σ → Prop) (hstep : ∀ s a s', P s → f s a = .ok s' → P s') :
    ∀ (l : List α) (s s' : σ), P s → l.foldlM f s = .ok s' → P s'
  | [], s, s', hs, h => by simp only [List.foldlM_nil, pure, Except.pure] at h; cases h; exact hs
  | a :: l, s, s', hs, h => by
    simp only [List.foldlM_cons] at h
    obtain ⟨s1, h1, h2⟩ := bind_ok _ _ _ h
    exact foldlM_ok f P hstep l s1 s' (hstep s a s1 hs h1) h2

/-- `slice_selector`: every bound that is present went through `validate_range` -/
theorem sliceB_rg (inp : Inp) (rule : PairT) (a b c : Option Int) (h : sliceB inp rule = .ok (a, b, c)) :
    oInRange a = true ∧ oInRange b = true ∧ oInRange c = true :=
  foldlM_ok (sliceStep inp) okTriple (fun s r s' hs hf => sliceStep_ok inp s s' r hs hf) _ _ _ ⟨rfl, rfl, rfl⟩ h

theorem sqSegB_rg (inp : Inp) (r : PairT) (sg : SQSeg) (h : sqSegB inp r = .ok sg) : sqRange sg = true := by
  unfold sqSegB at h
  split at h
  · dsimp only at h
    repeat' split at h
    all_goals first
      | (simp [err] at h; done)
      | (cases h; done)
      | (cases hf : firstInner r with
         | error e => simp [hf, Functor.map, Except.map] at h
         | ok c => simp [hf, Functor.map, Except.map] at h; subst h; rfl)
  · obtain ⟨c, _, h2⟩ := bind_ok _ _ _ h
    obtain ⟨v, _, h3⟩ := bind_ok _ _ _ h2
    obtain ⟨w, hw, h4⟩ := bind_ok _ _ _ h3
    obtain ⟨e, hr⟩ := validateRange_ok _ _ hw
    subst e
    cases ok_pure _ _ h4; exact hr
  · simp [err] at h

theorem parseNumber_rg (num : Str) (l : Literal) (h : parseNumber num = .ok l) : rgLit l = true := by
  unfold parseNumber at h
  simp only at h
  split at h
  · split at h
    · rename_i n d _
      split at h
      · rename_i hfin; cases ok_pure _ _ h; simpa [rgLit] using hfin
      · cases h
    · cases h
  · split at h
    · rename_i v _
      by_cases h1 : v > MAXV
      · simp [h1, err] at h
      · by_cases h2 : v < -MAXV
        · simp [h1, h2, err] at h
        · simp only [h1, h2, decide_false, Bool.or_self, Bool.false_eq_true, if_false] at h
          cases ok_pure _ _ h
          simp only [MAXV] at h1 h2
          simp [rgLit, inRangeB]; omega
    · cases h
theorem parseString_rg (str : Str) (l : Literal) (h : parseString str = .ok l) : rgLit l = true := by
  unfold parseString at h
  cases hv : validateJsStr (trim str) with
  | error e => simp [hv, bind, Except.bind] at h
  | ok s' =>
    simp only [hv, bind, Except.bind] at h
    by_cases c1 : (s'.head? == some '\'' && s'.getLast? == some '\'') = true
    · simp only [c1, if_true] at h; cases ok_pure _ _ h; rfl
    · by_cases c2 : (s'.head? == some '"' && s'.getLast? == some '"') = true
      · simp only [c1, c2, if_true, Bool.false_eq_true, if_false] at h; cases ok_pure _ _ h; rfl
      · simp [c1, c2, err] at h
theorem literalB_rg (inp : Inp) (rule : PairT) (l : Literal) (h : literalB inp rule = .ok l) : rgLit l = true := by
  unfold literalB at h
  cases hf : firstInner rule with
  | error e => simp [hf, bind, Except.bind] at h
  | ok first =>
    simp only [hf, bind, Except.bind] at h
    split at h
    · exact parseString_rg _ l h
    · exact parseNumber_rg _ l h
    · split at h
      · cases ok_pure _ _ h; rfl
      · split at h
        · cases ok_pure _ _ h; rfl
        · simp [err] at h
    · cases ok_pure _ _ h; rfl
    · simp [err] at h

theorem singularB_rg (inp : Inp) (rule : PairT) (c : Comparable) (h : singularB inp rule = .ok c) : rgCmp c = true := by
  unfold singularB at h
  obtain ⟨q, _, h2⟩ := bind_ok _ _ _ h
  obtain ⟨fi, _, h3⟩ := bind_ok _ _ _ h2
  obtain ⟨segs, hs, h4⟩ := bind_ok _ _ _ h3
  have hall := mapR_all (P := fun sg => sqRange sg = true) (fun x y hxy => sqSegB_rg inp x y hxy) _ _ hs
  have : (segs.all sqRange) = true := by simp only [List.all_eq_true]; exact hall
  split at h4
  · cases ok_pure _ _ h4; simpa [rgCmp] using this
  · cases ok_pure _ _ h4; simpa [rgCmp] using this
  · simp [err] at h4

structure BuilderRG (fuel : Nat) : Prop where
  segments : ∀ inp p ss, segmentsB fuel inp p = .ok ss → rgSegs ss = true
  childSegment : ∀ inp p sg, childSegmentB fuel inp p = .ok sg → rgSeg sg = true
  segment : ∀ inp p sg, segmentB fuel inp p = .ok sg → rgSeg sg = true
  selector : ∀ inp p sl, selectorB fuel inp p = .ok sl → rgSel sl = true
  fnArg : ∀ inp p a, fnArgB fuel inp p = .ok a → rgArg a = true
  functionExpr : ∀ inp p f, functionExprB fuel inp p = .ok f → rgFn f = true
  test : ∀ inp p t, testB fuel inp p = .ok t → rgTest t = true
  logicalExpr : ∀ inp p f, logicalExprB fuel inp p = .ok f → rgFlt f = true
  logicalExprAnd : ∀ inp p f, logicalExprAndB fuel inp p = .ok f → rgFlt f = true
  filterAtom : ∀ inp p a, filterAtomB fuel inp p = .ok a → rgAtom a = true
  comparable : ∀ inp p c, comparableB fuel inp p = .ok c → rgCmp c = true

theorem builderRG_zero : BuilderRG 0 where
  segments := fun inp p r h => by simp [segmentsB, err] at h
  childSegment := fun inp p r h => by simp [childSegmentB, err] at h
  segment := fun inp p r h => by simp [segmentB, err] at h
  selector := fun inp p r h => by simp [selectorB, err] at h
  fnArg := fun inp p r h => by simp [fnArgB, err] at h
  functionExpr := fun inp p r h => by simp [functionExprB, err] at h
  test := fun inp p r h => by simp [testB, err] at h
  logicalExpr := fun inp p r h => by simp [logicalExprB, err] at h
  logicalExprAnd := fun inp p r h => by simp [logicalExprAndB, err] at h
  filterAtom := fun inp p r h => by simp [filterAtomB, err] at h
  comparable := fun inp p r h => by simp [comparableB, err] at h

theorem tryNewFn_rg (name : Str) (args : List FnArg) (hargs : ∀ a ∈ args, rgArg a = true) (f : TestFunction)
    (h : tryNewFn name args = .ok f) : rgFn f = true := by
  unfold tryNewFn at h
  simp only at h
  repeat' split at h
  all_goals first
    | (cases h; done)
    | (simp [err] at h; done)
    | (cases ok_pure _ _ h; simp [rgFn, hargs]; done)
    | (cases ok_pure _ _ h; simpa [rgFn] using rgArgs_of_all args hargs)

theorem builderRG_succ (fuel : Nat) (ih : BuilderRG fuel) : BuilderRG (fuel + 1) where
  segments := fun inp p ss h => by
    unfold segmentsB at h
    refine rgSegs_of_all ss (mapR_all (P := fun s => rgSeg s = true) ?_ _ _ h)
    intro x y hxy
    cases hf : firstInner x with
    | error e => simp [hf] at hxy
    | ok c => simp only [hf] at hxy; exact ih.segment inp c y hxy
  childSegment := fun inp p sg h => by
    unfold childSegmentB at h
    split at h
    · cases ok_pure _ _ h; rfl
    · cases ok_pure _ _ h; rfl
    · cases hm : mapR (selectorB fuel inp) p.inner with
      | error e => simp [hm] at h
      | ok sels =>
        have hall := mapR_all (P := fun s => rgSel s = true) (fun x y hxy => ih.selector inp x y hxy) _ _ hm
        rw [hm] at h
        match sels, hall, h with
        | [s], hall, h => cases ok_pure _ _ h; simpa [rgSeg] using hall s (by simp)
        | [], hall, h => cases ok_pure _ _ h; rfl
        | a :: b :: r, hall, h => cases ok_pure _ _ h; simpa [rgSeg] using rgSels_of_all _ hall
    · simp [err] at h
  segment := fun inp p sg h => by
    unfold segmentB at h
    repeat' (first | split at h | (dsimp only at h; split at h))
    all_goals first
      | (cases h; done)
      | (simp [err] at h; done)
      | exact ih.childSegment _ _ _ h
      | (cases ok_pure _ _ h; simpa [rgSeg] using ih.childSegment _ _ _ ‹childSegmentB fuel inp _ = Except.ok _›)
  selector := fun inp p sl h => by
    unfold selectorB at h
    cases hf : firstInner p with
    | error e => simp [hf] at h
    | ok child =>
      simp only [hf] at h
      split at h
      · split at h
        · cases ok_pure _ _ h; rfl
        · cases h
      · cases ok_pure _ _ h; rfl
      · split at h
        · split at h
          · rename_i v _ w hw
            cases ok_pure _ _ h
            obtain ⟨e, hr⟩ := validateRange_ok _ _ hw
            subst e; exact hr
          · cases h
        · cases h
      · split at h
        · rename_i a b c hs
          cases ok_pure _ _ h
          obtain ⟨h1, h2, h3⟩ := sliceB_rg inp child a b c hs
          simp [rgSel, h1, h2, h3]
        · cases h
      · cases hf2 : firstInner child with
        | error e => simp [hf2] at h
        | ok le =>
          simp only [hf2] at h
          cases hl : logicalExprB fuel inp le with
          | error e => simp [hl] at h
          | ok f => simp only [hl] at h; cases ok_pure _ _ h; simpa [rgSel] using ih.logicalExpr inp le f hl
      · simp [err] at h
  fnArg := fun inp p a h => by
    unfold fnArgB at h
    cases hf : firstInner p with
    | error e => simp [hf] at h
    | ok next =>
      simp only [hf] at h
      split at h
      · split at h
        · cases ok_pure _ _ h; simpa [rgArg] using literalB_rg _ _ _ (by assumption)
        · cases h
      · cases ht : testB fuel inp next with
        | error e => simp [ht] at h
        | ok t => simp only [ht] at h; cases ok_pure _ _ h; simpa [rgArg] using ih.test inp next t ht
      · cases hl : logicalExprB fuel inp next with
        | error e => simp [hl] at h
        | ok f => simp only [hl] at h; cases ok_pure _ _ h; simpa [rgArg] using ih.logicalExpr inp next f hl
      · simp [err] at h
  functionExpr := fun inp p f h => by
    unfold functionExprB at h
    simp only at h
    repeat' split at h
    all_goals first
      | (cases h; done)
      | (simp [err] at h; done)
      | exact tryNewFn_rg _ _ (mapR_all (P := fun a => rgArg a = true) (fun x y hxy => ih.fnArg inp x y hxy) _ _ ‹mapR (fnArgB fuel inp) _ = Except.ok _›) f h
  test := fun inp p t h => by
    unfold testB at h
    cases hf : firstInner p with
    | error e => simp [hf] at h
    | ok child =>
      simp only [hf] at h
      split at h
      · cases hf2 : firstInner child with
        | error e => simp [hf2] at h
        | ok c =>
          simp only [hf2] at h
          cases hs : segmentsB fuel inp c with
          | error e => simp [hs] at h
          | ok ss => simp only [hs] at h; cases ok_pure _ _ h; simpa [rgTest] using ih.segments inp c ss hs
      · cases hf2 : firstInner child with
        | error e => simp [hf2] at h
        | ok c =>
          simp only [hf2] at h
          cases hs : segmentsB fuel inp c with
          | error e => simp [hs] at h
          | ok ss => simp only [hs] at h; cases ok_pure _ _ h; simpa [rgTest] using ih.segments inp c ss hs
      · cases hfe : functionExprB fuel inp child with
        | error e => simp [hfe] at h
        | ok f => simp only [hfe] at h; cases ok_pure _ _ h; simpa [rgTest] using ih.functionExpr inp child f hfe
      · simp [err] at h
  logicalExpr := fun inp p f h => by
    unfold logicalExprB at h
    cases hm : mapR (logicalExprAndB fuel inp) p.inner with
    | error e => simp [hm] at h
    | ok fs =>
      have hall := mapR_all (P := fun x => rgFlt x = true) (fun x y hxy => ih.logicalExprAnd inp x y hxy) _ _ hm
      rw [hm] at h
      match fs, hall, h with
      | [g], hall, h => cases ok_pure _ _ h; exact hall _ (by simp)
      | [], hall, h => cases ok_pure _ _ h; rfl
      | a :: b :: r, hall, h => cases ok_pure _ _ h; simpa [rgFlt] using rgFlts_of_all _ hall
  logicalExprAnd := fun inp p f h => by
    unfold logicalExprAndB at h
    generalize hm : mapR _ (Pair.inner p) = m at h
    cases m with
    | error e => simp at h
    | ok fs =>
      have hall := mapR_all (P := fun x => rgFlt x = true) (fun x y hxy => by
        cases ha : filterAtomB fuel inp x with
        | error e => simp [ha] at hxy
        | ok a => simp only [ha] at hxy; cases hxy; simpa [rgFlt] using ih.filterAtom inp x a ha) _ _ hm
      match fs, hall, h with
      | [g], hall, h => cases ok_pure _ _ h; exact hall _ (by simp)
      | [], hall, h => cases ok_pure _ _ h; rfl
      | a :: b :: r, hall, h => cases ok_pure _ _ h; simpa [rgFlt] using rgFlts_of_all _ hall
  filterAtom := fun inp p a h => by
    unfold filterAtomB at h
    cases hf : firstInner p with
    | error e => simp [hf] at h
    | ok rule =>
      simp only [hf] at h
      split at h
      · cases hm : mapR (logicalExprB fuel inp) (rule.inner.filter (isRule .r_logical_expr)) with
        | error e => simp [hm] at h
        | ok es =>
          have hall := mapR_all (P := fun x => rgFlt x = true) (fun x y hxy => ih.logicalExpr inp x y hxy) _ _ hm
          simp only [hm] at h
          cases hl : es.getLast? with
          | none => simp [hl, err] at h
          | some e => simp only [hl] at h; cases ok_pure _ _ h; simpa [rgAtom] using hall e (getLast_mem' _ _ hl)
      · split at h
        · rename_i l o r _ _
          cases hl : comparableB fuel inp l with
          | error e => simp [hl] at h
          | ok lhs =>
            simp only [hl] at h
            cases hr : comparableB fuel inp r with
            | error e => simp [hr] at h
            | ok rhs =>
              simp only [hr] at h
              cases ho : cmpOpOf (o.str inp) with
              | error e => simp [ho] at h
              | ok op => simp only [ho] at h; cases ok_pure _ _ h; simp [rgAtom, ih.comparable inp l lhs hl, ih.comparable inp r rhs hr]
        · simp [err] at h
      · cases hm : mapR (testB fuel inp) (rule.inner.filter (isRule .r_test)) with
        | error e => simp [hm] at h
        | ok ts =>
          have hall := mapR_all (P := fun x => rgTest x = true) (fun x y hxy => ih.test inp x y hxy) _ _ hm
          simp only [hm] at h
          cases hl : ts.getLast? with
          | none => simp [hl, err] at h
          | some t =>
            have g := hall t (getLast_mem' _ _ hl)
            simp only [hl] at h
            cases t with
            | fn tf =>
              simp only at h
              by_cases hc : tf.isComparable = true
              · simp [hc, err] at h
              · have hc' : tf.isComparable = false := by simpa using hc
                simp only [hc', Bool.false_eq_true, if_false] at h
                cases ok_pure _ _ h; simpa [rgAtom] using g
            | rel ss => simp only at h; cases ok_pure _ _ h; simpa [rgAtom] using g
            | abs ss => simp only at h; cases ok_pure _ _ h; simpa [rgAtom] using g
      · simp [err] at h
  comparable := fun inp p c h => by
    unfold comparableB at h
    cases hf : firstInner p with
    | error e => simp [hf] at h
    | ok rule =>
      simp only [hf] at h
      split at h
      · split at h
        · cases ok_pure _ _ h; simpa [rgCmp] using literalB_rg _ _ _ (by assumption)
        · cases h
      · exact singularB_rg inp rule c h
      · cases hfe : functionExprB fuel inp rule with
        | error e => simp [hfe] at h
        | ok tf =>
          simp only [hfe] at h
          by_cases hc : tf.isComparable = true
          · simp only [hc, if_true] at h; cases ok_pure _ _ h; simpa [rgCmp] using ih.functionExpr inp rule tf hfe
          · simp [hc, err] at h
      · simp [err] at h

theorem builderRG : ∀ fuel, BuilderRG fuel
  | 0 => builderRG_zero
  | fuel+1 => builderRG_succ fuel (builderRG fuel)

/-- C07: every integer of an index selector, slice, or singular-query index in an accepted query is in the I-JSON range -/
theorem parse_intsInRange (s : Str) (q : List Segment) (h : parseJsonPath s = .ok q) : rgSegs q = true := by
  unfold parseJsonPath at h
  split at h
  · simp [err] at h
  · simp only at h
    split at h
    · split at h
      · simp only [bind, Except.bind] at h
        split at h
        · cases h
        · split at h
          · cases h
          · exact (builderRG _).segments _ _ q h
      · simp [err] at h
    · simp [err] at h

end JP
