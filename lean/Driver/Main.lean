import JsonPathVerif.Parser
import JsonPathVerif.Validity
import JsonPathVerif.KF
import JsonPathVerif.OkB
import JsonPathVerif.ParsedOk
import JsonPathVerif.Regex
import JsonPathVerif.Pointer
import JsonPathVerif.Paths
import JsonPathVerif.PathAst
import Lean.Data.Json
open JP

def unesc (l : String) : String := ((l.replace "\\T" "\t").replace "\\N" "\n").replace "\\R" "\r"

def cpsOf (j : Lean.Json) : Str :=
  match j with
  | .arr a => a.toList.map fun x => match x with
      | .num n => Char.ofNat n.mantissa.toNat
      | _ => '?'
  | _ => []

def intOf (j : Lean.Json) : Int :=
  match j with
  | .str s => s.toInt?.getD 0
  | .num n => n.mantissa
  | _ => 0

/-- tagged document: null | {"b":..} | {"i":"dec"} | {"f":["n","d"]} | {"s":[cps]} | {"a":[..]} | {"o":[[cps,v],..]} -/
partial def docOf (j : Lean.Json) : JP.Json :=
  match j with
  | .null => .null
  | .obj _ =>
    match j.getObjVal? "b" with
    | .ok (.bool b) => .bool b
    | _ => match j.getObjVal? "i" with
    | .ok v => .num (.int (intOf v))
    | _ => match j.getObjVal? "f" with
    | .ok (.arr a) => .num (.flt (intOf a[0]!) (intOf a[1]!).toNat)
    | _ => match j.getObjVal? "s" with
    | .ok v => .str (cpsOf v)
    | _ => match j.getObjVal? "a" with
    | .ok (.arr a) => .arr (a.toList.map docOf)
    | _ => match j.getObjVal? "o" with
    | .ok (.arr a) => .obj (a.toList.map fun kv => match kv with
        | .arr p => (cpsOf p[0]!, docOf p[1]!)
        | _ => ([], .null))
    | _ => .null
  | _ => .null

def gcdNorm (n : Int) (d : Nat) : Int × Nat :=
  let g := Nat.gcd n.natAbs d
  if g == 0 then (0, 1) else (n / g, d / g)

partial def canon : JP.Json → String
  | .null => "null"
  | .bool b => "{\"b\":" ++ toString b ++ "}"
  | .num (.int i) => "{\"i\":\"" ++ toString i ++ "\"}"
  | .num (.flt n d) => let (n, d) := gcdNorm n d; "{\"f\":[\"" ++ toString n ++ "\",\"" ++ toString d ++ "\"]}"
  | .str s => "{\"s\":" ++ cps s ++ "}"
  | .arr xs => "{\"a\":[" ++ ",".intercalate (xs.map canon) ++ "]}"
  | .obj kvs => "{\"o\":[" ++ ",".intercalate (kvs.map fun (k, v) => "[" ++ cps k ++ "," ++ canon v ++ "]") ++ "]}"

def locJ (l : Loc) : String :=
  "[" ++ ",".intercalate (l.map fun s => match s with
    | .key k => "{\"k\":" ++ cps k ++ "}"
    | .idx i => "{\"i\":" ++ toString i ++ "}") ++ "]"

def reEngine (dflt : Bool) : Engine := ⟨fun s p sub => match Re.regexFn s p sub with | .yes => true | .no => false | .unsupported => dflt⟩
def dummyEngine : Engine := reEngine false
def bstr (b : Bool) : String := if b then "true" else "false"

/-- highest-ranked RFC parse of a query string (independent of the pest grammar model) -/
def rfcBest (s : Str) : Option (List Segment × Rfc.Verdict) :=
  (Abnf.parseAll s).foldl (fun acc q =>
    let v := Rfc.verdictOf q
    match acc with
    | none => some (q, v)
    | some (_, v0) => if Rfc.rank v > Rfc.rank v0 then some (q, v) else acc) none

/-- is the exact rational n/d a finite normal f64 (so that the exact-number model and f64 agree on it)? -/
def oddPart : Nat → Nat → Nat
  | 0, n => n
  | f+1, n => if n % 2 == 0 && n != 0 then oddPart f (n / 2) else n
def f64Exact (nd : Int × Nat) : Bool :=
  let (n, d) := nd
  if d == 0 then false else
  let g := Nat.gcd n.natAbs d
  let n' := n.natAbs / g
  let d' := d / g
  if n' == 0 then true
  else oddPart 2000 d' == 1 && oddPart 2000 n' < 2 ^ 53 && n' < d' * 2 ^ 1023 && n' * 2 ^ 1022 ≥ d'
def i64Exact (i : Int) : Bool := oddPart 2000 i.natAbs < 2 ^ 53

def verdictStr : Rfc.Verdict → String
  | .valid => "valid" | .invalid => "invalid" | .custom => "custom" | .unjudged => "unjudged"

def evalCase (line : String) : String :=
  match Lean.Json.parse line with
  | .error e => "{\"badjson\":\"" ++ e ++ "\"}"
  | .ok j =>
    let q := (j.getObjValAs? String "q").toOption.getD ""
    let d := docOf ((j.getObjVal? "tdoc").toOption.getD .null)
    let render (segs : List Segment) (E : Engine) : String := match jsPathProcess E segs d with
      | .error _ => "{\"err\":2}"
      | .ok ps => "{\"ok\":[" ++ ",".intercalate (ps.map fun p =>
          let rq := match parseJsonPath p.path with
            | .ok segs' => (match jsPathProcess E segs' d with
              | .ok [p'] => p'.path == p.path && p'.loc == p.loc
              | _ => false)
            | .error _ => false
          let rf := match reference d p.path with
            | some (l, _) => l == p.loc
            | none => false
          "{\"p\":" ++ cps p.path ++ ",\"l\":" ++ locJ p.loc ++ ",\"v\":" ++ canon p.inner ++ ",\"rq\":" ++ bstr rq ++ ",\"rf\":" ++ bstr rf ++ "}") ++ "]}"
    let (impl, reUnsupported, implAst) := match parseJsonPath q.toList with
      | .error _ => ("{\"err\":1}", false, none)
      | .ok segs =>
        let i := render segs (reEngine false)
        (i, i != render segs (reEngine true), some segs)
    match rfcBest q.toList with
    | none => "{\"impl\":" ++ impl ++ ",\"rfc\":\"invalid\"}"
    | some (segs, v) =>
      if v == .invalid then "{\"impl\":" ++ impl ++ ",\"rfc\":\"invalid\"}" else
      let specR := Spec.query dummyEngine segs d
      let specR' := Spec.query (reEngine true) segs d
      let specUns := (specR.map (·.1)) != (specR'.map (·.1))
      let spec := "{\"ok\":[" ++ ",".intercalate (specR.map fun n =>
            "{\"p\":" ++ cps (Spec.npath n.1) ++ ",\"l\":" ++ locJ n.1 ++ ",\"v\":" ++ canon n.2 ++ ",\"rq\":true,\"rf\":true}") ++ "]}"
      let astAgree := match implAst with
        | some a => ",".intercalate (a.map segJ) == ",".intercalate (segs.map segJ)
        | none => false
      let flags := "{\"escfree\":" ++ bstr (KF.escFreeSegs segs) ++
        ",\"normalnames\":" ++ bstr (KF.normalNames segs) ++
        ",\"plainkeys\":" ++ bstr (KF.plainKeys d) ++
        ",\"multisel\":" ++ bstr (KF.multiSelOnMulti dummyEngine d segs [([], d)]) ++
        ",\"ast_agree\":" ++ bstr astAgree ++
        ",\"ok_hyp\":" ++ bstr (okSegsB segs) ++
        ",\"parsed_hyp\":" ++ bstr (KF.escFreeSegs segs && shSegs segs) ++
        ",\"float_overflow\":" ++ bstr (!((Rfc.fSegs segs).litFloats.all f64Exact && (Rfc.fSegs segs).litInts.all i64Exact)) ++
        ",\"nonfinite_literal\":" ++ bstr (!((Rfc.fSegs segs).litFloats.all fun nd => f64Finite nd.1 nd.2)) ++
        ",\"regex_unsupported\":" ++ bstr (reUnsupported || specUns) ++ "}"
      "{\"impl\":" ++ impl ++ ",\"spec\":" ++ spec ++ ",\"rfc\":\"" ++ verdictStr v ++ "\",\"flags\":" ++ flags ++ "}"

def parseCase (l : String) : String :=
  let impl := match parseJsonPath l.toList with
    | .ok segs => "{\"ok\":[" ++ ",".intercalate (segs.map segJ) ++ "]}"
    | .error _ => "{\"err\":1}"
  let v := match Rfc.verdict l.toList with
    | .valid => "valid" | .invalid => "invalid" | .custom => "custom" | .unjudged => "unjudged"
  "{\"impl\":" ++ impl ++ ",\"rfc\":\"" ++ v ++ "\"}"

def locOfJ (j : Lean.Json) : Loc :=
  match j with
  | .arr a => a.toList.map fun (st : Lean.Json) =>
      match st.getObjVal? "k" with
      | .ok v => Step.key (cpsOf v)
      | _ => Step.idx (match st.getObjVal? "i" with | .ok v => (intOf v).toNat | _ => 0)
  | _ => []


def refCase (line : String) : String :=
  match Lean.Json.parse line with
  | .error e => "{\"badjson\":\"" ++ e ++ "\"}"
  | .ok j =>
    let d := docOf ((j.getObjVal? "tdoc").toOption.getD .null)
    let path := (j.getObjValAs? String "path").toOption.getD ""
    let nv := docOf ((j.getObjVal? "tnew").toOption.getD .null)
    let found := match reference d path.toList with
      | some (l, v) => "{\"l\":" ++ locJ l ++ ",\"v\":" ++ canon v ++ "}"
      | none => "null"
    let (wrote, after) := match referenceSet d path.toList nv with
      | some d' => (true, d')
      | none => (false, d)
    let impl := "{\"ref\":" ++ found ++ ",\"mut\":" ++ bstr wrote ++ ",\"after\":" ++ canon after ++ "}"
    -- lens specification on the location the path was generated from (absent for non-normalized paths)
    let spec := match j.getObjVal? "tloc" with
      | .ok (.arr a) =>
        let l := locOfJ (.arr a)
        (match d.at l with
         | some v =>
           let after := (setAt nv d (locSteps l)).getD d
           "{\"ref\":{\"l\":" ++ locJ l ++ ",\"v\":" ++ canon v ++ "},\"mut\":true,\"after\":" ++ canon after ++ "}"
         | none => "{\"ref\":null,\"mut\":false,\"after\":" ++ canon d ++ "}")
      | _ => "null"
    "{\"impl\":" ++ impl ++ ",\"spec\":" ++ spec ++ "}"

/-- updates through all paths one query returned, in result order -/
def refseqCase (line : String) : String :=
  match Lean.Json.parse line with
  | .error e => "{\"badjson\":\"" ++ e ++ "\"}"
  | .ok j =>
    let q := (j.getObjValAs? String "q").toOption.getD ""
    let d := docOf ((j.getObjVal? "tdoc").toOption.getD .null)
    let news := match j.getObjVal? "tnews" with | .ok (.arr a) => a.toList.map docOf | _ => []
    let newAt (i : Nat) : JP.Json := news.getD (i % (max news.length 1)) .null
    let impl := match parseJsonPath q.toList with
      | .error _ => "{\"err\":1}"
      | .ok segs => match jsPathProcess (reEngine false) segs d with
        | .error _ => "{\"err\":1}"
        | .ok ps =>
          let (after, wrote, _) := ps.foldl (fun (acc : JP.Json × List Bool × Nat) p =>
            let (doc, w, i) := acc
            match referenceSet doc p.path (newAt i) with
            | some doc' => (doc', w ++ [true], i + 1)
            | none => (doc, w ++ [false], i + 1)) (d, [], 0)
          "{\"paths\":[" ++ ",".intercalate (ps.map fun p => cps p.path) ++ "],\"wrote\":[" ++ ",".intercalate (wrote.map bstr) ++ "],\"after\":" ++ canon after ++ "}"
    match rfcBest q.toList with
    | none => "{\"impl\":" ++ impl ++ ",\"rfc\":\"invalid\"}"
    | some (segs, v) =>
      if v == .invalid then "{\"impl\":" ++ impl ++ ",\"rfc\":\"invalid\"}" else
      let ns := Spec.query dummyEngine segs d
      -- lens specification: write through the LOCATIONS of the RFC nodelist, in RFC order
      let (after, wrote, _) := ns.foldl (fun (acc : JP.Json × List Bool × Nat) n =>
        let (doc, w, i) := acc
        match setAt (newAt i) doc (locSteps n.1) with
        | some doc' => (doc', w ++ [true], i + 1)
        | none => (doc, w ++ [false], i + 1)) (d, [], 0)
      let spec := "{\"paths\":[" ++ ",".intercalate (ns.map fun n => cps (Spec.npath n.1)) ++ "],\"wrote\":[" ++ ",".intercalate (wrote.map bstr) ++ "],\"after\":" ++ canon after ++ "}"
      let flags := "{\"escfree\":" ++ bstr (KF.escFreeSegs segs) ++ ",\"normalnames\":" ++ bstr (KF.normalNames segs) ++
        ",\"plainkeys\":" ++ bstr (KF.plainKeys d) ++ ",\"multisel\":" ++ bstr (KF.multiSelOnMulti dummyEngine d segs [([], d)]) ++
        ",\"regex_unsupported\":" ++ bstr (decide ((Spec.query (reEngine true) segs d).length ≠ ns.length)) ++ "}"
      "{\"impl\":" ++ impl ++ ",\"spec\":" ++ spec ++ ",\"rfc\":\"" ++ verdictStr v ++ "\",\"flags\":" ++ flags ++ "}"

def regexCase (line : String) : String :=
  match Lean.Json.parse line with
  | .error e => "{\"badjson\":\"" ++ e ++ "\"}"
  | .ok j =>
    let s := (j.getObjValAs? String "s").toOption.getD ""
    let p := (j.getObjValAs? String "p").toOption.getD ""
    let sub := (j.getObjValAs? Bool "sub").toOption.getD false
    match Re.regexFn s.toList p.toList sub with
    | .yes => "{\"m\":true}"
    | .no => "{\"m\":false}"
    | .unsupported => "{\"unsupported\":1}"

/-- a history: the model is stateless, so each op is evaluated on its own -/
def histCase (line : String) : String :=
  match Lean.Json.parse line with
  | .error e => "{\"badjson\":\"" ++ e ++ "\"}"
  | .ok j =>
    let docs := match j.getObjVal? "tdocs" with | .ok (.arr a) => a.toList.map docOf | _ => []
    let queries := match j.getObjVal? "queries" with
      | .ok (.arr a) => a.toList.map fun (q : Lean.Json) => match q with | Lean.Json.str s => s | _ => ""
      | _ => []
    let ops := match j.getObjVal? "ops" with
      | .ok (.arr a) => a.toList.map fun (o : Lean.Json) => match o with
        | Lean.Json.arr p => ((intOf p[0]!).toNat, (intOf p[1]!).toNat)
        | _ => (0, 0)
      | _ => []
    let one (qi di : Nat) : String :=
      let q := queries.getD qi ""
      let d := docs.getD di .null
      match parseJsonPath q.toList with
      | .error _ => "\"err\""
      | .ok segs => match jsPathProcess (reEngine false) segs d with
        | .error _ => "\"err\""
        | .ok ps => "[" ++ ",".intercalate (ps.map fun p => "[" ++ cps p.path ++ "," ++ locJ p.loc ++ "]") ++ "]"
    "{\"seq\":[" ++ ",".intercalate (ops.map fun (qi, di) => one qi di) ++ "]}"

-- ---- programmatically built queries: wire AST -> model AST (same format as `segJ`)
def optIntOf (j : Lean.Json) : Option Int := match j with | .null => none | v => some (intOf v)
def litOfJ (j : Lean.Json) : Literal :=
  match j with
  | .null => .null
  | _ =>
    match j.getObjVal? "i" with
    | .ok v => .int (intOf v)
    | _ => match j.getObjVal? "fl" with
    | .ok (.arr a) => .float (intOf a[0]!) (intOf a[1]!).toNat
    | _ => match j.getObjVal? "s" with
    | .ok v => .str (cpsOf v)
    | _ => match j.getObjVal? "b" with
    | .ok (.bool b) => .bool b
    | _ => .null
def arrOf (j : Except String Lean.Json) : List Lean.Json := match j with | .ok (.arr a) => a.toList | _ => []
def cmpOpOfS (s : String) : CmpOp :=
  if s == "==" then .eq else if s == "!=" then .ne else if s == ">" then .gt else if s == ">=" then .ge else if s == "<" then .lt else .le
def sqSegOfJ (j : Lean.Json) : SQSeg :=
  match j.getObjVal? "I" with
  | .ok v => .index (intOf v)
  | _ => .name (cpsOf ((j.getObjVal? "N").toOption.getD .null))
mutual
partial def segOfJ (j : Lean.Json) : Segment :=
  match j.getObjVal? "D" with
  | .ok d => .descendant (segOfJ d)
  | _ => match j.getObjVal? "S" with
  | .ok s => .selector (selOfJ s)
  | _ => .selectors ((arrOf (j.getObjVal? "SS")).map selOfJ)
partial def selOfJ (j : Lean.Json) : Selector :=
  match j with
  | .str _ => .wildcard
  | _ => match j.getObjVal? "N" with
  | .ok n => .name (cpsOf n)
  | _ => match j.getObjVal? "I" with
  | .ok i => .index (intOf i)
  | _ => match j.getObjVal? "L" with
  | .ok (.arr l) => .slice (optIntOf l[0]!) (optIntOf l[1]!) (optIntOf l[2]!)
  | _ => .filter (fltOfJ ((j.getObjVal? "F").toOption.getD .null))
partial def fltOfJ (j : Lean.Json) : Filter :=
  match j.getObjVal? "or" with
  | .ok (.arr a) => .or (a.toList.map fltOfJ)
  | _ => match j.getObjVal? "and" with
  | .ok (.arr a) => .and (a.toList.map fltOfJ)
  | _ => .atom (atomOfJ ((j.getObjVal? "atom").toOption.getD .null))
partial def atomOfJ (j : Lean.Json) : FilterAtom :=
  let n := (j.getObjValAs? Bool "not").toOption.getD false
  match j.getObjVal? "f" with
  | .ok f => .filter (fltOfJ f) n
  | _ => match j.getObjVal? "t" with
  | .ok t => .test (testOfJ t) n
  | _ => match j.getObjVal? "c" with
  | .ok (.arr c) => .cmp (cmpOpOfS (match c[0]! with | .str s => s | _ => "==")) (cmpbOfJ c[1]!) (cmpbOfJ c[2]!)
  | _ => default
partial def cmpbOfJ (j : Lean.Json) : Comparable :=
  match j.getObjVal? "lit" with
  | .ok l => .lit (litOfJ l)
  | _ => match j.getObjVal? "fn" with
  | .ok f => .fn (fnOfJ f)
  | _ => match j.getObjVal? "sq" with
  | .ok (.arr sq) => .sq (match sq[0]! with | .str s => s == "$" | _ => false) ((arrOf (.ok sq[1]!)).map sqSegOfJ)
  | _ => default
partial def testOfJ (j : Lean.Json) : Test :=
  match j.getObjVal? "rel" with
  | .ok (.arr a) => .rel (a.toList.map segOfJ)
  | _ => match j.getObjVal? "abs" with
  | .ok (.arr a) => .abs (a.toList.map segOfJ)
  | _ => .fn (fnOfJ ((j.getObjVal? "fn").toOption.getD .null))
partial def argOfJ (j : Lean.Json) : FnArg :=
  match j.getObjVal? "lit" with
  | .ok l => .lit (litOfJ l)
  | _ => match j.getObjVal? "t" with
  | .ok t => .test (testOfJ t)
  | _ => .filter (fltOfJ ((j.getObjVal? "f").toOption.getD .null))
partial def fnOfJ (j : Lean.Json) : TestFunction :=
  let name := String.ofList (cpsOf ((j.getObjVal? "name").toOption.getD .null))
  let args := (arrOf (j.getObjVal? "args")).map argOfJ
  let a (i : Nat) : FnArg := args.getD i (.lit .null)
  if name == "length" then .length (a 0) else if name == "value" then .value (a 0) else if name == "count" then .count (a 0)
  else if name == "search" then .search (a 0) (a 1) else if name == "match" then .match (a 0) (a 1)
  else .custom ((if name.startsWith "custom:" then (name.drop 7).toString else name).toList) args
end

/-- a programmatically built query: the model evaluator on the AST itself (no parser involved) -/
def astCase (line : String) : String :=
  match Lean.Json.parse line with
  | .error e => "{\"badjson\":\"" ++ e ++ "\"}"
  | .ok j =>
    let d := docOf ((j.getObjVal? "tdoc").toOption.getD .null)
    let segs := (arrOf (j.getObjVal? "ast")).map segOfJ
    let render (E : Engine) : String := match jsPathProcess E segs d with
      | .error _ => "{\"err\":1}"
      | .ok ps => "{\"ok\":[" ++ ",".intercalate (ps.map fun p =>
          "{\"p\":" ++ cps p.path ++ ",\"l\":" ++ locJ p.loc ++ ",\"v\":" ++ canon p.inner ++ "}") ++ "]}"
    let i := render (reEngine false)
    let uns := i != render (reEngine true)
    let fl := !((Rfc.fSegs segs).litFloats.all f64Exact && (Rfc.fSegs segs).litInts.all i64Exact)
    "{\"impl\":" ++ i ++ ",\"rfc\":\"unjudged\",\"flags\":{\"regex_unsupported\":" ++ bstr uns ++ ",\"float_overflow\":" ++ bstr fl ++
      ",\"ok_hyp\":" ++ bstr (okSegsB segs) ++ "}}"

partial def loop (h : IO.FS.Stream) (out : IO.FS.Stream) (mode : String) : IO Unit := do
  let line ← h.getLine
  if line.isEmpty then return ()
  if mode == "eval" then out.putStrLn (evalCase line)
  else if mode == "regex" then out.putStrLn (regexCase line)
  else if mode == "ref" then out.putStrLn (refCase line)
  else if mode == "refseq" then out.putStrLn (refseqCase line)
  else if mode == "hist" then out.putStrLn (histCase line)
  else if mode == "ast" then out.putStrLn (astCase line)
  else out.putStrLn (parseCase (unesc ((line.dropEndWhile (· == '\n')).toString)))
  out.flush
  loop h out mode

def main (args : List String) : IO Unit := do
  loop (← IO.getStdin) (← IO.getStdout) (args.headD "parse")
