"""Shared machinery of the checks: paths, builds, proof step, process runners, evidence."""
import os, sys, json, time, subprocess, hashlib, re, collections
from fractions import Fraction

ROOT = os.path.dirname(os.path.dirname(os.path.abspath(__file__)))
LEAN = os.path.join(ROOT, 'lean')
HARNESS = os.path.join(ROOT, 'harness')
WORK = os.path.join(ROOT, '.work')
GEN = os.path.join(ROOT, 'gen')
REPO = os.environ.get('JP_REPO', '/repo')
GRAMMAR = 'src/parser/grammar/json_path_9535.pest'
ALLOWED_AXIOMS = {'propext', 'Classical.choice', 'Quot.sound'}
ENV = {**os.environ, 'CARGO_NET_OFFLINE': 'true'}
NCPU = os.cpu_count() or 4
sys.setrecursionlimit(200000)


def log(*a):
    print(*a, file=sys.stderr, flush=True)


class Ctx:
    def __init__(s, prop, tier, seed, opts):
        s.prop, s.tier, s.seed, s.opts = prop, tier, seed, opts
        s.kf = json.load(open(os.path.join(ROOT, 'known_findings.json')))
        s.my_kf = [k for k in s.kf['open'] if prop in k['affects']]
        s.registry = json.load(open(os.path.join(LEAN, 'theorems.json')))
        s.scale = 3 if tier == 'quick' else 30


def sh(cmd, **kw):
    return subprocess.run(cmd, capture_output=True, text=True, **kw)


# ---------------------------------------------------------------------------------------------- grammar tie
def regen_grammar(ctx):
    """translate /repo's .pest into Lean; replace the model's grammar file iff it differs"""
    src = os.path.join(REPO, GRAMMAR)
    dst = os.path.join(LEAN, 'JsonPathVerif', 'PestGrammar.lean')
    out = {'source': src, 'changed': False}
    r = sh(['python3', os.path.join(GEN, 'pest2lean.py'), src, 'JP', 'JsonPathVerif'])
    if r.returncode != 0 or 'namespace' not in r.stdout:
        out['error'] = 'translator failed: ' + (r.stderr or r.stdout)[-1500:]
        return out
    old = open(dst).read() if os.path.exists(dst) else ''
    if r.stdout != old:
        open(dst, 'w').write(r.stdout)
        out['changed'] = True
    committed = sh(['git', '-C', ROOT, 'show', 'HEAD:lean/JsonPathVerif/PestGrammar.lean']).stdout
    out['differs_from_committed'] = (r.stdout != committed)
    out['sha1'] = hashlib.sha1(r.stdout.encode()).hexdigest()
    return out


def restore_committed_grammar():
    dst = os.path.join(LEAN, 'JsonPathVerif', 'PestGrammar.lean')
    committed = sh(['git', '-C', ROOT, 'show', 'HEAD:lean/JsonPathVerif/PestGrammar.lean']).stdout
    if committed: open(dst, 'w').write(committed)


# ---------------------------------------------------------------------------------------------- proof step
def strip_comments(src):
    src = re.sub(r'/-.*?-/', '', src, flags=re.S)
    return '\n'.join(l.split('--')[0] for l in src.splitlines())


def proof_step(ctx, gram):
    """build the property's theorem module and the driver; audit axioms of every registered theorem"""
    t0 = time.time()
    prop = ctx.prop
    entry = ctx.registry[prop]
    names = [t['name'] for t in entry['theorems']]
    modules = entry['modules']
    out = {'theorems': names, 'roles': {t['name']: t['role'] for t in entry['theorems']}, 'broken': [], 'forbidden_hits': [],
           'build_err': '', 'driver_ok': True, 'checker_cmd': ''}
    r = sh(['lake', 'build'] + modules, cwd=LEAN)
    built = r.returncode == 0
    if not built:
        out['build_err'] = (r.stdout + r.stderr)[-4000:]
    d = sh(['lake', 'build', 'jpmodel'], cwd=LEAN)
    if d.returncode != 0 and gram.get('differs_from_committed'):
        # the regenerated grammar does not elaborate inside the parser model: fall back to the committed grammar
        # so that the correspondence can still exhibit concrete differing inputs
        out['build_err'] += '\n[driver with regenerated grammar]\n' + (d.stdout + d.stderr)[-3000:]
        restore_committed_grammar()
        gram['fallback_to_committed'] = True
        d = sh(['lake', 'build', 'jpmodel'], cwd=LEAN)
        out['broken'] = list(names)
    if d.returncode != 0:
        out['driver_ok'] = False
        out['build_err'] += '\n[driver]\n' + (d.stdout + d.stderr)[-3000:]
    audit = os.path.join(WORK, f'audit_{prop}.lean')
    with open(audit, 'w') as f:
        f.write(''.join(f'import {m}\n' for m in modules) + ''.join(f'#print axioms {n}\n' for n in names))
    res = {}
    if built:
        a = sh(['lake', 'env', 'lean', audit], cwd=LEAN)
        txt = a.stdout.replace('\n  ', ' ')
        for line in txt.splitlines():
            m = re.match(r"'([^']+)' depends on axioms: \[(.*)\]", line)
            if m: res[m.group(1)] = set(x.strip() for x in m.group(2).split(','))
            m = re.match(r"'([^']+)' does not depend on any axioms", line)
            if m: res[m.group(1)] = set()
        out['axioms'] = {n: sorted(res.get(n, ['<missing>'])) for n in names}
        if not out['broken']:
            out['broken'] = [n for n in names if n not in res or not res[n] <= ALLOWED_AXIOMS]
    else:
        out['broken'] = list(names)
    # forbidden constructs, outside comments
    hits = []
    for dp, _, fs in os.walk(os.path.join(LEAN, 'JsonPathVerif')):
        for fn in fs:
            if fn.endswith('.lean'):
                code = strip_comments(open(os.path.join(dp, fn)).read())
                for i, l in enumerate(code.splitlines()):
                    if re.search(r'\bsorry\b|\badmit\b|^axiom |native_decide|bv_decide|implemented_by|\bunsafe |maxHeartbeats 0', l):
                        hits.append(f'{fn}:{i + 1}: {l.strip()[:80]}')
    out['forbidden_hits'] = hits
    out['checker_cmd'] = f"cd {LEAN} && lake build {' '.join(modules)} && lake env lean {audit}"
    if ctx.tier == 'thorough' and built:
        lc = []
        for m in modules:
            c = sh(['lake', 'env', 'leanchecker', m], cwd=LEAN)
            lc.append({'module': m, 'rc': c.returncode})
            if c.returncode != 0: out['broken'] = list(names); out['build_err'] += f'\nleanchecker {m}: ' + (c.stdout + c.stderr)[-500:]
        out['leanchecker'] = lc
    out['wall_s'] = round(time.time() - t0, 2)
    log(f"[{prop}] proof step: {len(names)} theorems, broken={out['broken']}, forbidden={len(hits)}, {out['wall_s']}s")
    return out


# ---------------------------------------------------------------------------------------------- harness
def build_harness(ctx):
    t0 = time.time()
    toml = os.path.join(HARNESS, 'Cargo.toml')
    s = open(toml).read()
    s2 = re.sub(r'path = "[^"]*"', f'path = "{REPO}"', s)
    if s2 != s: open(toml, 'w').write(s2)
    lock_dst = os.path.join(HARNESS, 'Cargo.lock')
    if os.path.exists(os.path.join(REPO, 'Cargo.lock')):      # pin the harness to the repository's own dependency versions
        lock_src = open(os.path.join(REPO, 'Cargo.lock')).read()
        cur = open(lock_dst).read() if os.path.exists(lock_dst) else ''
        # same versions as the repository: only rewrite when a package version of the repository's lock is not in ours
        pins = set(re.findall(r'name = "([^"]+)"\nversion = "([^"]+)"', lock_src))
        if not pins <= set(re.findall(r'name = "([^"]+)"\nversion = "([^"]+)"', cur)):
            open(lock_dst, 'w').write(lock_src)
    r = sh(['cargo', 'build', '--release', '--offline'], cwd=HARNESS, env=ENV)
    if r.returncode == 0 and ctx.prop == 'C08':
        # second, unoptimised build for the ladders: recursion depth and frame sizes as a development build has them
        r = sh(['cargo', 'build', '--profile', 'ladder', '--offline'], cwd=HARNESS, env=ENV)
    log(f"[{ctx.prop}] harness build rc={r.returncode} {time.time() - t0:.1f}s")
    return r.returncode == 0, r.stderr[-4000:]


HBIN = os.path.join(HARNESS, 'target', 'release', 'jpharness')
HBIN_LADDER = os.path.join(HARNESS, 'target', 'ladder', 'jpharness')
MBIN = os.path.join(LEAN, '.lake', 'build', 'bin', 'jpmodel')


def _run_chunk(binary, mode, chunk, timeout):
    """feed `chunk` to the executable; the time limit applies to each case (time since the previous answer line), not to the chunk"""
    import threading
    p = subprocess.Popen([binary, mode], stdin=subprocess.PIPE, stdout=subprocess.PIPE, stderr=subprocess.DEVNULL)
    got = []; last = [time.time()]
    def feed():
        try:
            p.stdin.write(('\n'.join(chunk) + '\n').encode('utf-8')); p.stdin.close()
        except (BrokenPipeError, OSError): pass
    def read():
        for raw in p.stdout:
            got.append(raw.decode('utf-8', 'replace').rstrip('\n')); last[0] = time.time()
    tf = threading.Thread(target=feed, daemon=True); tr = threading.Thread(target=read, daemon=True)
    tf.start(); tr.start()
    rc = None
    while True:
        tr.join(0.2)
        if not tr.is_alive(): break
        if time.time() - last[0] > timeout:
            p.kill(); rc = 'timeout'; tr.join(5); break
    if rc is None: rc = p.wait()
    else: p.wait()
    return list(got), rc


def run_lines(binary, mode, lines, timeout=40, isolate=True, max_timeouts=2):
    """run a line-protocol executable over `lines`; survive aborts and hangs: the case that kills the process is
    reported as {"abort": rc} / {"timeout": 1} and the run resumes after it.  After `max_timeouts` hangs the remaining
    cases are reported as {"skipped": 1} (a hang is a violation anyway; this keeps a hanging mutant from stalling the check)"""
    out = []
    start = 0
    n = len(lines)
    timeouts = 0
    while start < n:
        if timeouts >= max_timeouts:
            out.extend([json.dumps({'skipped': 1})] * (n - start)); break
        chunk = lines[start:]
        got, rc = _run_chunk(binary, mode, chunk, timeout)
        if rc == 'timeout': timeouts += 1
        if len(got) >= len(chunk):
            out.extend(got[:len(chunk)]); break
        out.extend(got)
        out.append(json.dumps({'timeout': 1} if rc == 'timeout' else {'abort': rc}))
        start += len(got) + 1
    return out


def run_sharded(binary, mode, lines, timeout=40):
    """split over cores for large suites"""
    if len(lines) < 4000:
        return run_lines(binary, mode, lines, timeout)
    from concurrent.futures import ThreadPoolExecutor
    k = min(NCPU, max(1, len(lines) // 2000))
    size = (len(lines) + k - 1) // k
    parts = [lines[i:i + size] for i in range(0, len(lines), size)]
    with ThreadPoolExecutor(k) as ex:
        rs = list(ex.map(lambda p: run_lines(binary, mode, p, timeout), parts))
    return [x for r in rs for x in r]


def gen(script, *a):
    r = sh(['python3', os.path.join(GEN, script)] + [str(x) for x in a])
    if r.returncode != 0:
        raise SystemExit(f'generator {script} {a} failed: {r.stderr[-2000:]}')
    ls = r.stdout.split('\n')
    if ls and ls[-1] == '': ls = ls[:-1]
    return ls


# ---------------------------------------------------------------------------------------------- canonical forms
def norm(x):
    """canonicalise wire values: floats as exact rationals"""
    if isinstance(x, dict):
        if 'f2' in x: m, e = x['f2']; return ['f', str(Fraction(int(m)) * Fraction(2) ** int(e))]
        if 'f' in x and isinstance(x['f'], list): n, d = x['f']; return ['f', str(Fraction(int(n), int(d)))]
        if 'fl' in x:
            v = x['fl']
            if isinstance(v, str): return ['fl', v]
            a, b = v
            if isinstance(b, int):
                fr = Fraction(int(a)) * Fraction(2) ** b
            else:
                if int(b) == 0: return ['fl', 'inf' if int(a) > 0 else '-inf']     # the model's infinity marker
                fr = Fraction(int(a), int(b))
            try: return ['fl', repr(float(fr))]
            except OverflowError: return ['fl', 'inf' if fr > 0 else '-inf']
        return {k: norm(v) for k, v in x.items()}
    if isinstance(x, list): return [norm(v) for v in x]
    return x


def key(o):
    return json.dumps(o, sort_keys=True, default=str, ensure_ascii=False)


def chash(o):
    return hashlib.sha1(key(o).encode()).hexdigest()[:12]


def tag(v):
    """document -> wire format of the Lean driver (members in serde_json iteration order = byte order of keys)"""
    if v is None: return None
    if v is True or v is False: return {"b": v}
    if isinstance(v, int): return {"i": str(v)}
    if isinstance(v, float):
        f = Fraction(v); return {"f": [str(f.numerator), str(f.denominator)]}
    if isinstance(v, str): return {"s": [ord(c) for c in v]}
    if isinstance(v, list): return {"a": [tag(x) for x in v]}
    return {"o": [[[ord(c) for c in k], tag(x)] for k, x in sorted(v.items(), key=lambda kv: kv[0].encode('utf-8'))]}


# ---------------------------------------------------------------------------------------------- output
# ------------------------------------------------------------------------------------------------ source obligations
HIDDEN_STATE = re.compile(r'thread_local!|lazy_static!|\bstatic\s+mut\b|\bOnceCell\b|\bOnceLock\b|\bLazyLock\b|\bLazy\s*<|\bRefCell\b|\bCell\s*<|\bUnsafeCell\b|'
                          r'\bMutex\b|\bRwLock\b|\bAtomic[A-Z][A-Za-z0-9]*\b|\bunsafe\b|std::env\b|std::fs\b|std::time\b|SystemTime|Instant::|\brand::')


def rust_code_only(src):
    """Rust source without comments, string/char literals and the trailing `#[cfg(test)] mod …` block"""
    out = []; i = 0; n = len(src)
    while i < n:
        c = src[i]
        if src.startswith('//', i):
            j = src.find('\n', i); i = n if j < 0 else j
        elif src.startswith('/*', i):
            depth = 1; i += 2
            while i < n and depth:
                if src.startswith('/*', i): depth += 1; i += 2
                elif src.startswith('*/', i): depth -= 1; i += 2
                else: i += 1
        elif c == '"':
            i += 1
            while i < n and src[i] != '"': i += 2 if src[i] == '\\' else 1
            i += 1; out.append('""')
        elif c == 'r' and re.match(r'r#*"', src[i:]):
            m = re.match(r'r(#*)"', src[i:]); end = '"' + m.group(1)
            j = src.find(end, i + len(m.group(0))); i = n if j < 0 else j + len(end); out.append('""')
        elif c == "'" and re.match(r"'(\\.[^']*|[^'\\])'", src[i:]):
            i += len(re.match(r"'(\\.[^']*|[^'\\])'", src[i:]).group(0)); out.append("' '")
        else:
            out.append(c); i += 1
    code = ''.join(out)
    m = re.search(r'#\[cfg\(test\)\]\s*(pub\s+)?mod\s+\w+\s*\{', code)
    return code[:m.start()] if m else code


def source_obligations(ctx):
    """Facts about /repo's source that the model takes for granted and that are checked on the text of the code at every run.
    no-hidden-state (C12): the Lean model makes parsing and evaluation functions of their arguments; safe Rust code without mutable statics, thread-locals,
    interior mutability (Cell, RefCell, Mutex, RwLock, atomics, once-cells, lazies), `unsafe`, clocks, environment or file access cannot be anything else
    (an immutable `static`/`const` table holds no state and is not flagged). A hit does not show a violation, it shows that purity is no longer established: the check then searches for a history-dependent result and, failing that,
    reports `no-failing-input-found`."""
    broken = []
    if ctx.prop == 'C12':
        hits = []
        for dp, _, fs in os.walk(os.path.join(REPO, 'src')):
            for f in sorted(fs):
                if not f.endswith('.rs'): continue
                path = os.path.join(dp, f)
                code = rust_code_only(open(path, encoding='utf-8', errors='replace').read())
                for ln, line in enumerate(code.split('\n'), 1):
                    m = HIDDEN_STATE.search(line)
                    if m: hits.append({'file': os.path.relpath(path, REPO), 'line_in_code_only_text': ln, 'construct': m.group(0), 'text': line.strip()[:160]})
        if hits: broken.append({'obligation': 'no-hidden-state', 'model_assumption': 'parse and eval are functions of (query, document) only (theorems C12.history_independent, C12.repeatable)', 'hits': hits[:10]})
    return broken


def write_replay(ctx, name, obj):
    p = os.path.join(ROOT, 'evidence', 'replays', f'{ctx.prop}-{name}.json')
    obj = dict(obj); obj.setdefault('property', ctx.prop)
    obj['how_to_replay'] = f'bin/check {ctx.prop} --replay={p}'
    json.dump(obj, open(p, 'w'), indent=1, ensure_ascii=False, default=str)
    return p


TRUSTED = [
    'Lean 4.33.0 kernel; axioms allowed in property theorems: propext, Classical.choice, Quot.sound (audited by #print axioms on every run)',
    'Spec.* / Rfc.* as a reading of RFC 9535',
    'hand-written Lean model Impl.* of src/query/*.rs and parser.rs, tied to /repo by the behavioural correspondence of this run (sampling, not proof)',
    'gen/pest2lean.py: translator of the .pest grammar into the PEG-combinator model (re-run on every check)',
    'PEG combinators as a rendering of pest 2.x generated code',
    'rustc/cargo as installed; harness built in release mode with overflow-checks = true (ladders additionally on an unoptimised build)',
    'the ABNF oracle prunes repetitions with FOLLOW sets (differentially checked against the unpruned oracle); documents deeper than 128 levels are built by the harness in code',
    'C12 only: the source obligation is a textual scan; it presupposes that the dependencies (pest, regex, serde_json) are functions of their inputs',
]


def write_evidence(ctx, proof, res, t0, nviol):
    names = proof['theorems']
    cov = {
        'obligations': max(1, len(names)),
        'discharged': len([n for n in names if n not in proof['broken']]) if names else 0,
        'checker_cmd': proof['checker_cmd'] or 'lake build',
        'trusted_base': TRUSTED,
        'theorems': [{'name': n, 'role': proof['roles'][n], 'axioms': proof.get('axioms', {}).get(n)} for n in names],
        'broken_theorems': proof['broken'],
        'forbidden_construct_hits': proof['forbidden_hits'],
    }
    if 'leanchecker' in proof: cov['leanchecker'] = proof['leanchecker']
    if ctx.prop == 'C12':
        cov['source_obligations'] = {'checked': ['no-hidden-state: no mutable static, thread_local!, lazy/once cell, interior mutability, unsafe, clock, environment or file access in /repo/src '
                                                 '(comments, literals and test modules stripped)'], 'broken': getattr(ctx, 'oblig', None) or []}
    if res is not None:
        cov.update({
            'evaluations': res.stats['cases'],
            'distinct_nontrivial': len(res.nontrivial),
            'rule': res.rule,
            'samples': res.samples[:6] or ['<none>'],
            'correspondence': {'cases': res.stats['cases'], 'real_vs_model_differences': len(res.corr_fail),
                               'real_vs_spec_differences_explained_by_known_findings': res.stats['known_finding_cases'],
                               'real_vs_spec_violations': len(res.violations)},
            'distribution': {k: v for k, v in sorted(res.stats.items())},
            'suites': res.suite_info,
        })
    else:
        cov.update({'evaluations': 0, 'distinct_nontrivial': 0, 'rule': 'build failed before any case ran', 'samples': ['<none>']})
    ev = {'property_id': ctx.prop, 'tier': ctx.tier, 'seed': ctx.seed, 'level': 'proof', 'coverage': cov,
          'assumptions': ['f64 rounding is not modelled: generated numbers stay in the exactly representable domain (DESIGN 3.6)',
                          'the regex crate is modelled by a dialect matcher; patterns outside the dialect are counted, not judged',
                          'correspondence is differential testing on generated inputs; it ties the model to the code only where cases exercise it'],
          'wall_s': round(time.time() - t0, 2), 'violations': int(nviol)}
    json.dump(ev, open(os.path.join(ROOT, 'evidence', f'{ctx.prop}.json'), 'w'), indent=1, ensure_ascii=False, default=str)
