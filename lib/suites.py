"""Case suites per property: generation, running real crate + Lean model, comparison through the property's projection."""
import json, os, collections, random, copy
from common import *   # noqa


class Res:
    def __init__(s):
        s.stats = collections.Counter(); s.violations = []; s.corr_fail = []; s.kf_seen = {}
        s.samples = []; s.nontrivial = set(); s.rule = ''; s.suite_info = []

    def merge(s, o):
        s.stats.update(o.stats); s.violations += o.violations; s.corr_fail += o.corr_fail
        s.kf_seen.update(o.kf_seen); s.nontrivial |= o.nontrivial; s.suite_info += o.suite_info
        if not s.samples: s.samples = o.samples


# ------------------------------------------------------------------------------------------------ projections
def status_of(r):
    for k in ('panic', 'abort', 'timeout', 'skipped', 'docchanged', 'err', 'badjson'):
        if k in r: return k
    return 'ok' if 'ok' in r else 'unknown'


def items_of(r):
    return norm(r['ok'])


def proj_eval(prop, r):
    st = status_of(r)
    if st != 'ok': return ('status', 'err' if st == 'err' else st)
    it = items_of(r)
    if prop in ('C02', 'C11', 'C13', 'C12'): return ('ok', [key(e['l']) for e in it])
    if prop == 'C03': return ('ok', sorted(set(key([e['l'], ''.join(map(chr, e['p'])), bool(e.get('rq', True))]) for e in it)))
    if prop == 'C15': return ('ok', [key([''.join(map(chr, e['p'])), e['v']]) for e in it])
    # C01 and the filter/function properties: multiset of (location, value)
    return ('ok', sorted(key([e['l'], e['v']]) for e in it))


KF_FLAG = {
    'multisel': lambda f, c: f['multisel'],
    'notnormalnames': lambda f, c: not f['normalnames'],
    'notplainkeys': lambda f, c: not f['plainkeys'],
    'notescfree': lambda f, c: not f['escfree'],
}


def qfeatures(q):
    fs = []
    if '..' in q: fs.append('desc')
    if '?' in q: fs.append('filter')
    if ',' in q: fs.append('union')
    if ':' in q: fs.append('slice')
    if '*' in q: fs.append('wild')
    if '(' in q: fs.append('paren_or_fn')
    if '&&' in q or '||' in q: fs.append('logic')
    if '==' in q or '<' in q or '>' in q or '!=' in q: fs.append('cmp')
    return fs


def npath_py(loc):
    """RFC 9535 2.7 Normalized Path of a location (address-derived, from the harness)"""
    out = '$'
    for st in loc:
        if 'i' in st: out += '[%d]' % st['i']
        else:
            k = ''.join(map(chr, st['k'])); e = ''
            for ch in k:
                o = ord(ch)
                if ch == "'": e += "\\'"
                elif ch == '\\': e += '\\\\'
                elif o == 8: e += '\\b'
                elif o == 12: e += '\\f'
                elif o == 10: e += '\\n'
                elif o == 13: e += '\\r'
                elif o == 9: e += '\\t'
                elif o < 0x20: e += '\\u%04x' % o
                else: e += ch
            out += "['" + e + "']"
    return out


def c03_table(r):
    """location -> set of (path, requery ok) reported for it"""
    t = {}
    for e in items_of(r):
        t.setdefault(key(e['l']), set()).add((''.join(map(chr, e['p'])), bool(e.get('rq', True))))
    return t


def c09_table(r):
    t = {}
    for e in items_of(r): t.setdefault(key(e['l']), set()).add(bool(e.get('rf', True)))
    return t


def c03_self_check(r):
    """C03 on the real result alone: every path is the Normalized Path of the node's (address-derived) location, re-query
    returns exactly that node, and two results share a path exactly when they are the same node"""
    seen = {}
    for e in r['ok']:
        if e['l'] == 'NOTFOUND': return 'result value is not a node of the document'
        p = ''.join(map(chr, e['p']))
        if p != npath_py(e['l']): return 'path is not the Normalized Path of the node'
        if not e.get('rq', True): return 're-query of the reported path does not return exactly that node'
        if seen.setdefault(p, key(e['l'])) != key(e['l']): return 'two different nodes share one path'
    return None


def status_class(r):
    st = status_of(r)
    return st if st in ('ok', 'err') else ('crash:' + st)


def corr_differs(prop, r, impl):
    """does the real crate differ from the Lean model, through the projection this property is about?"""
    if prop in ('C08',): return status_class(r) != status_class(impl)
    if prop in ('C12',): return False          # C12 compares the real entry points / repetitions with each other
    if prop in ('C03', 'C09'):
        if status_of(r) != 'ok' or status_of(impl) != 'ok': return status_class(r) != status_class(impl)
        a, b = (c03_table(r), c03_table(impl)) if prop == 'C03' else (c09_table(r), c09_table(impl))
        return any(not (a[l] <= b[l]) for l in a if l in b)      # every path the crate reports for a node is one the model reports for it
    return proj_eval(prop, r) != proj_eval(prop, impl)


def judge_eval(ctx, case, r, m):
    """verdict: ok | skip:<why> | known | viol ; corr = real differs from the model through the property's projection"""
    prop = ctx.prop
    out = {'corr': False, 'verdict': 'ok', 'kf': [], 'nontrivial': False}
    if 'badjson' in r or 'badjson' in m:
        out['verdict'] = 'skip:badjson'; return out
    if 'skipped' in r or 'skipped' in m:
        out['verdict'] = 'skip:not_run_after_repeated_timeouts'; return out
    if status_of(r) in ('panic', 'abort', 'timeout', 'docchanged'):
        out['verdict'] = 'viol'; out['why'] = status_of(r); return out
    if 'impl' not in m:          # the model gave no answer within its limit (very deep document on a loaded machine): nothing to compare with
        out['verdict'] = 'skip:model_gave_no_answer'; return out
    flags = m.get('flags') or {}
    if flags.get('regex_unsupported'):
        out['verdict'] = 'skip:regex_unsupported'; return out
    # a number literal whose value is not exactly an f64 is outside the exact-number model (skip) - except a literal beyond the range of
    # f64 that the crate ACCEPTED: the exact-number spec says what comparisons with it must give, and the crate has to meet that or reject it
    nonfinite_accepted = bool(flags.get('nonfinite_literal')) and status_of(r) == 'ok'
    if flags.get('float_overflow') and not nonfinite_accepted:
        out['verdict'] = 'skip:number_literal_outside_exact_f64_domain'; return out
    out['corr'] = corr_differs(prop, r, m['impl'])
    pr = proj_eval(prop, r)
    out['nontrivial'] = pr[0] == 'ok' and len(pr[1]) > 0
    # crashes are violations of whatever property is being looked at (and of C08)
    if pr[0] == 'status' and pr[1] in ('panic', 'abort', 'timeout', 'docchanged'):
        out['verdict'] = 'viol'; out['why'] = pr[1]; return out
    if prop == 'C12':
        if r.get('entrypoints_agree') is False: out['verdict'] = 'viol'; out['why'] = 'entry points disagree'
        elif r.get('parsed_once_agrees') is False: out['verdict'] = 'viol'; out['why'] = 'a query parsed once (parse_json_path + js_path_process) gives another result than the string entry point'
        return out
    # what `query` / `query_only_path` return is part of what each property observes (the judged list below is query_with_path's)
    if prop in ('C01', 'C11') and r.get('ep_same_nodes') is False:
        out['verdict'] = 'viol'; out['why'] = 'query() does not return the nodes query_with_path returns'; return out
    if prop == 'C03' and r.get('ep_same_paths') is False:
        out['verdict'] = 'viol'; out['why'] = 'query_only_path does not report the paths query_with_path reports'; return out
    if prop == 'C02' and r.get('entrypoints_agree') is False and r.get('ep_same_nodes') and r.get('ep_same_paths'):
        out['verdict'] = 'viol'; out['why'] = 'the entry points return the same nodes in different orders'; return out
    rfc = m.get('rfc')
    if prop == 'C08':
        # the only source of Err is an invalid query string: whatever the model parser accepts must evaluate to Ok
        return out
    if rfc in ('invalid', 'unjudged', None) and not (rfc == 'unjudged' and nonfinite_accepted):
        out['verdict'] = 'skip:rfc_' + str(rfc) if not out['corr'] else 'ok'
        return out
    if prop == 'C03':
        why = c03_self_check(r) if status_of(r) == 'ok' else None
        differs = why is not None
    elif prop == 'C09':
        differs = status_of(r) == 'ok' and any(not e.get('rf', True) for e in r['ok'])
        why = 'a path returned by a query, fed back to reference(), does not yield the node it was reported for'
    else:
        differs = pr != proj_eval(prop, m['spec']); why = 'real != spec'
        if prop == 'C11' and not differs and status_of(r) == 'ok':
            # the index written into a reported path is part of the arithmetic: for nodes reached through indices only it must be the node's position
            for e in r['ok']:
                if isinstance(e.get('l'), list) and all('i' in st for st in e['l']) and ''.join(map(chr, e['p'])) != npath_py(e['l']):
                    differs = True; why = 'the index in the reported path is not the position of the selected element'; break
    if differs:
        in_class = [k for k in ctx.my_kf if k['class'] in KF_FLAG and KF_FLAG[k['class']](flags, case)]
        if in_class and not out['corr']:
            out['verdict'] = 'known'; out['kf'] = in_class
        else:
            out['verdict'] = 'viol'; out['why'] = why
    return out


def json_depth_exceeds(v, limit):
    stack = [(v, 1)]
    while stack:
        x, d = stack.pop()
        if isinstance(x, (list, dict)):
            if d > limit: return True
            for y in (x if isinstance(x, list) else x.values()): stack.append((y, d + 1))
    return False


def harness_line(l):
    """serde_json refuses input nested deeper than 128 levels. The tagged copy of a document (which only the Lean driver reads) is twice as
    deep as the document, so it is dropped from the harness's copy of long lines; and a document that is itself too deep is sent as its inner
    part plus the list of single-child containers around it (`wrap`, outermost first: "[]" or "." + member name), which the harness rebuilds in code."""
    if len(l) < 1500 or '"tdoc"' not in l: return l
    c = json.loads(l); c.pop('tdoc', None); c.pop('tdocs', None)
    d = c.get('doc')
    if json_depth_exceeds(d, 90):
        wrap = []
        while json_depth_exceeds(d, 90) and ((isinstance(d, list) and len(d) == 1) or (isinstance(d, dict) and len(d) == 1)):
            if isinstance(d, list): wrap.append('[]'); d = d[0]
            else:
                k = next(iter(d)); wrap.append('.' + k); d = d[k]
        c['doc'] = d; c['wrap'] = wrap
    return json.dumps(c, ensure_ascii=False)


def eval_suite(ctx, name, lines, res, mode='eval'):
    if not lines: return
    real = run_sharded(HBIN, mode, [harness_line(l) for l in lines])
    model = run_sharded(MBIN, 'ast' if mode == 'ast' else 'eval', lines)
    assert len(real) == len(model) == len(lines), (name, len(real), len(model), len(lines))
    info = collections.Counter()
    for ln, rl, ml in zip(lines, real, model):
        c = json.loads(ln); r = json.loads(rl); m = json.loads(ml)
        res.stats['cases'] += 1; info['cases'] += 1
        j = judge_eval(ctx, c, r, m)
        for f in qfeatures(c.get('q', '')): res.stats['q_' + f] += 1
        if 'flags' in m:
            for fk, fv in m['flags'].items():
                if fv: res.stats['flag_' + fk] += 1
        res.stats['rfc_' + str(m.get('rfc'))] += 1
        res.stats['real_' + status_of(r)] += 1
        if ctx.prop == 'C03' and 'spec' in m and 'ok' in m['spec']:
            # the Python rendering of RFC 2.7 used to judge real results must agree with the Lean `Spec.npath`
            for e in m['spec']['ok']:
                if npath_py(e['l']) != ''.join(map(chr, e['p'])): raise SystemExit('internal error: npath_py disagrees with Spec.npath on ' + json.dumps(e))
                res.stats['npath_py_checked_against_Spec'] += 1
        if j['nontrivial']:
            res.nontrivial.add(chash([c.get('q', c.get('ast')), c.get('doc')])); info['nonempty'] += 1
        if j['corr']:
            res.corr_fail.append({'suite': name, 'mode': mode, 'case': c, 'real': r, 'model': m}); info['corr_fail'] += 1
        v = j['verdict']
        if v == 'viol':
            res.violations.append({'suite': name, 'mode': mode, 'case': c, 'real': r, 'model': m, 'why': j.get('why')}); info['violations'] += 1
        elif v == 'known':
            res.stats['known_finding_cases'] += 1
            for k in j['kf']: res.kf_seen.setdefault(k['id'], k['what'])
        elif v.startswith('skip'):
            res.stats[v] += 1
        elif j['nontrivial'] and len(res.samples) < 4 and not j['corr']:
            res.samples.append({'suite': name, 'q': c.get('q', c.get('ast')), 'doc': c.get('doc')})
    res.suite_info.append({'suite': name, **info})


def kf_lines(ctx):
    out = []
    for k in ctx.my_kf:
        w = k.get('witness') or {}
        if 'q' in w and 'doc' in w:
            out.append(json.dumps({'q': w['q'], 'doc': w['doc'], 'tdoc': tag(w['doc']), 'kf': k['id']}, ensure_ascii=False))
    return out


def corpus_lines(name, prop=None):
    p = os.path.join(ROOT, 'corpus', name)
    if not os.path.exists(p): return []
    out = []
    for l in open(p):
        l = l.strip()
        if not l or l.startswith('#'): continue
        c = json.loads(l)
        if prop and 'props' in c and prop not in c['props']: continue
        if 'doc' in c and 'tdoc' not in c: c['tdoc'] = tag(c['doc'])
        if 'new' in c and 'tnew' not in c: c['tnew'] = tag(c['new'])
        if 'loc' in c and 'tloc' not in c:
            c['tloc'] = None if c['loc'] is None else [({"k": [ord(ch) for ch in st]} if isinstance(st, str) else {"i": st}) for st in c['loc']]
        out.append(json.dumps(c, ensure_ascii=False))
    return out


# ------------------------------------------------------------------------------------------------ parse
def judge_parse(ctx, s, r, m):
    if 'skipped' in r or 'skipped' in m: return {'corr': False, 'verdict': 'ok'}
    if status_of(r) in ('panic', 'abort', 'timeout'): return {'corr': False, 'verdict': 'viol', 'why': status_of(r)}
    if 'impl' not in m or 'rfc' not in m: return {'corr': False, 'verdict': 'ok'}
    if ctx.prop in ('C06', 'C07', 'C08'):
        scope = {'C06': m['rfc'] == 'valid', 'C07': m['rfc'] == 'invalid', 'C08': True}[ctx.prop]
        out = {'corr': scope and status_class(r) != status_class(m['impl']), 'verdict': 'ok'}
    else:
        out = {'corr': norm(r) != norm(m['impl']), 'verdict': 'ok'}
    st = status_of(r)
    acc = st == 'ok'
    if st in ('panic', 'abort', 'timeout'):
        out['verdict'] = 'viol'; out['why'] = st; return out
    rfc = m['rfc']
    if ctx.prop == 'C06' and rfc == 'valid' and not acc: out['verdict'] = 'viol'; out['why'] = 'valid query rejected'
    if ctx.prop == 'C07' and rfc == 'invalid' and acc: out['verdict'] = 'viol'; out['why'] = 'invalid query accepted'
    return out


def parse_suite(ctx, name, lines, res):
    if not lines: return
    real = run_sharded(HBIN, 'parse', lines)
    model = run_sharded(MBIN, 'parse', lines)
    assert len(real) == len(model) == len(lines), (name, len(real), len(model), len(lines))
    # C06/C07 are observed at the string entry points too: on seven documents (scalars, empty and non-empty containers) query, query_with_path,
    # query_only_path, js_path, js_path_vals and js_path_path must accept exactly what parse_json_path accepts
    eps = run_sharded(HBIN, 'parseep', lines) if ctx.prop in ('C06', 'C07') else [None] * len(lines)
    info = collections.Counter()
    for s, rl, ml, el in zip(lines, real, model, eps):
        r = json.loads(rl); m = json.loads(ml)
        res.stats['cases'] += 1; info['cases'] += 1
        if el is not None:
            e = json.loads(el)
            if e.get('ep') is False or (status_of(e) in ('ok', 'err') and status_of(r) in ('ok', 'err') and status_of(e) != status_of(r)):
                rel = (ctx.prop == 'C07' and m.get('rfc') == 'invalid') or (ctx.prop == 'C06' and m.get('rfc') == 'valid')
                if rel:
                    res.violations.append({'suite': name, 'mode': 'parse', 'case': s, 'real': {'parse_json_path': status_of(r), 'entry_points': e}, 'model': m,
                                           'why': 'a string entry point (query / query_with_path / query_only_path / js_path*) does not classify the string as parse_json_path does'}); info['violations'] += 1
                    continue
        if 'skipped' in m or 'rfc' not in m: res.stats['skip:model_not_run'] += 1; continue
        res.stats['rfc_' + m['rfc']] += 1
        res.stats['real_' + status_of(r)] += 1
        j = judge_parse(ctx, s, r, m)
        relevant = (ctx.prop == 'C06' and m['rfc'] == 'valid') or (ctx.prop == 'C07' and m['rfc'] == 'invalid') or (ctx.prop not in ('C06', 'C07') and 'ok' in r)
        if relevant:
            res.nontrivial.add(chash(s)); info['relevant'] += 1
            if len(res.samples) < 5 and j['verdict'] == 'ok' and not j['corr'] and len(s) > 6: res.samples.append({'suite': name, 'string': s, 'rfc': m['rfc'], 'accepted': 'ok' in r})
        if j['corr']:
            res.corr_fail.append({'suite': name, 'mode': 'parse', 'case': s, 'real': r, 'model': m}); info['corr_fail'] += 1
        if j['verdict'] == 'viol':
            res.violations.append({'suite': name, 'mode': 'parse', 'case': s, 'real': r, 'model': m, 'why': j.get('why')}); info['violations'] += 1
    res.suite_info.append({'suite': name, **info})


# ------------------------------------------------------------------------------------------------ ref (C09)
def needs_escape(k):
    return any(ch in "'\\" or ord(ch) < 0x20 for ch in k)


def judge_ref(ctx, c, r, m):
    if status_of(r) in ('panic', 'abort', 'timeout'): return {'corr': False, 'verdict': 'viol', 'why': status_of(r), 'kf': []}
    if 'impl' not in m: return {'corr': False, 'verdict': 'skip:model_gave_no_answer', 'kf': []}
    out = {'corr': norm({k: r.get(k) for k in ('ref', 'mut', 'after', 'panic')}) != norm({k: m['impl'].get(k) for k in ('ref', 'mut', 'after', 'panic')}), 'verdict': 'ok', 'kf': []}
    if status_of(r) in ('panic', 'abort', 'timeout'):
        out['verdict'] = 'viol'; out['why'] = status_of(r); return out
    spec = m.get('spec')
    if spec is None:
        out['verdict'] = 'skip:not-a-normalized-path' if not out['corr'] else 'ok'; return out
    if norm({k: r.get(k) for k in ('ref', 'mut', 'after')}) != norm(spec):
        esc = any(isinstance(s, str) and needs_escape(s) for s in (c.get('loc') or []))
        kfs = [k for k in ctx.my_kf if k['class'] == 'path_needs_escape' and esc]
        if kfs and not out['corr']:
            out['verdict'] = 'known'; out['kf'] = kfs
        else:
            out['verdict'] = 'viol'; out['why'] = 'reference/reference_mut != lens spec'
    return out


def ref_suite(ctx, name, lines, res):
    if not lines: return
    real = run_sharded(HBIN, 'ref', lines)
    model = run_sharded(MBIN, 'ref', lines)
    assert len(real) == len(model) == len(lines)
    info = collections.Counter()
    for ln, rl, ml in zip(lines, real, model):
        c = json.loads(ln); r = json.loads(rl); m = json.loads(ml)
        res.stats['cases'] += 1; info['cases'] += 1
        if ctx.prop == 'C12':
            # C12 looks at one thing here: a look-up of a path that designates no node leaves the document as it was
            if c.get('kind') == 'missing' and status_of(r) not in ('panic', 'abort', 'timeout') and norm(r.get('after')) != norm(c.get('tdoc')):
                res.violations.append({'suite': name, 'mode': 'ref', 'case': c, 'real': r, 'model': m, 'why': 'a look-up (reference / reference_mut) of a path that designates no node changed the document'}); info['violations'] += 1
            elif c.get('kind') == 'missing': res.nontrivial.add(chash([c['doc'], c['path']]))
            continue
        j = judge_ref(ctx, c, r, m)
        res.stats['kind_' + str(c.get('kind'))] += 1
        if r.get('mut'): res.nontrivial.add(chash([c['doc'], c['path']])); info['found_and_written'] += 1
        if j['corr']: res.corr_fail.append({'suite': name, 'mode': 'ref', 'case': c, 'real': r, 'model': m}); info['corr_fail'] += 1
        if j['verdict'] == 'viol':
            res.violations.append({'suite': name, 'mode': 'ref', 'case': c, 'real': r, 'model': m, 'why': j.get('why')}); info['violations'] += 1
        elif j['verdict'] == 'known':
            res.stats['known_finding_cases'] += 1
            for k in j['kf']: res.kf_seen.setdefault(k['id'], k['what'])
        elif j['verdict'].startswith('skip'): res.stats[j['verdict']] += 1
        elif r.get('mut') and len(res.samples) < 4: res.samples.append({'suite': name, 'doc': c['doc'], 'path': c['path'], 'new': c['new']})
    res.suite_info.append({'suite': name, **info})


def longref_cases(tier):
    """Normalized Paths of nodes nested far deeper than any JSON text the crate's own parser would read (documents built in code): long paths"""
    out = []
    for n in [150, 600, 2000, 6000] + ([10000] if tier == 'thorough' else []):
        for kind in ('a', 'o', 'ao'):
            for leaf, new in ((7, 'NEW'), ({'leaf': [1, 'x']}, [None])):
                out.append(json.dumps({'mode': 'longref', 'n': n, 'kind': kind, 'leaf': leaf, 'new': new}))
    return out


def longref_suite(ctx, name, lines, res):
    """harness only, one process per case; the expectation is the lens law itself: the path of an existing node designates that node and a write
    through it replaces exactly that node"""
    info = collections.Counter()
    for ln in lines:
        c = json.loads(ln); n = c['n']
        steps = [(0 if (c['kind'] == 'a' or (c['kind'] == 'ao' and i % 2 == 0)) else 'n') for i in range(n)]
        wrap = ['[]' if st == 0 else '.n' for st in steps]
        path = '$' + ''.join('[0]' if st == 0 else "['n']" for st in steps)
        def chain(v):
            for st in reversed(steps): v = [v] if st == 0 else {'n': v}
            return v
        out = run_lines(HBIN, 'ref', [json.dumps({'doc': c['leaf'], 'wrap': wrap, 'path': path, 'new': c['new']})], timeout=30)
        r = json.loads(out[0]); st = status_of(r)
        res.stats['cases'] += 1; info['cases'] += 1; res.stats['longref_' + ('found_and_written' if r.get('mut') else st)] += 1
        res.nontrivial.add(chash([n, c['kind'], c['leaf']]))
        why = None
        if st in ('panic', 'abort', 'timeout'): why = st
        elif not r.get('ref') or not r.get('mut'): why = 'reference/reference_mut does not find the node its Normalized Path designates'
        elif r['ref'].get('l') == 'NOTFOUND' or len(r['ref'].get('l') or []) != n or norm(r['ref'].get('v')) != norm(tag(c['leaf'])): why = 'reference returns another node than the path designates'
        elif norm(r.get('after')) != norm(tag(chain(c['new']))): why = 'a write through reference_mut did not replace exactly the designated node'
        if why:
            res.violations.append({'suite': name, 'mode': 'longref', 'case': {**c, 'path_prefix': path[:40], 'path_segments': n},
                                   'real': {k: (v if len(json.dumps(v)) < 300 else '…') for k, v in r.items()}, 'model': None, 'why': why, 'full_case': c}); info['violations'] += 1
        elif len(res.samples) < 6: res.samples.append({'suite': name, 'segments': n, 'kind': c['kind']})
    res.suite_info.append({'suite': name, **info})


def refseq_suite(ctx, name, lines, res):
    """updates through all paths one query returned, in result order: (paths, which writes happened, document afterwards)"""
    if not lines: return
    real = run_sharded(HBIN, 'refseq', [harness_line(l) for l in lines])
    model = run_sharded(MBIN, 'refseq', lines)
    assert len(real) == len(model) == len(lines)
    info = collections.Counter()
    for ln, rl, ml in zip(lines, real, model):
        c = json.loads(ln); r = json.loads(rl); m = json.loads(ml)
        res.stats['cases'] += 1; info['cases'] += 1
        if 'skipped' in r or 'skipped' in m or 'badjson' in r or 'badjson' in m: res.stats['skip:not_run'] += 1; continue
        flags = m.get('flags') or {}
        if flags.get('regex_unsupported'): res.stats['skip:regex_unsupported'] += 1; continue
        if status_of(r) in ('panic', 'abort', 'timeout'):
            res.violations.append({'suite': name, 'mode': 'refseq', 'case': c, 'real': r, 'model': m, 'why': status_of(r)}); info['violations'] += 1; continue
        if 'impl' not in m: res.stats['skip:model_gave_no_answer'] += 1; continue
        corr = norm(r) != norm(m['impl'])
        if corr: res.corr_fail.append({'suite': name, 'mode': 'refseq', 'case': c, 'real': r, 'model': m}); info['corr_fail'] += 1
        if m.get('rfc') in ('invalid', 'unjudged', None) or 'spec' not in m: res.stats['skip:rfc_' + str(m.get('rfc'))] += 1; continue
        if 'err' in r:
            res.stats['real_err'] += 1
        nwrites = sum(1 for w in r.get('wrote', []) if w)
        if nwrites >= 2: res.nontrivial.add(chash([c['q'], c['doc'], c['news']])); info['multi_write'] += 1
        rs = {k: r.get(k) for k in ('wrote', 'after')}; ss = {k: m['spec'].get(k) for k in ('wrote', 'after')}
        if norm(rs) != norm(ss):
            in_class = [k for k in ctx.my_kf if k['class'] in KF_FLAG and KF_FLAG[k['class']](flags, c)]
            if in_class and not corr:
                res.stats['known_finding_cases'] += 1
                for k in in_class: res.kf_seen.setdefault(k['id'], k['what'])
            else:
                res.violations.append({'suite': name, 'mode': 'refseq', 'case': c, 'real': r, 'model': m,
                                       'why': 'updates through the paths a query returned did not change exactly the reported nodes'}); info['violations'] += 1
        elif nwrites >= 2 and len(res.samples) < 6: res.samples.append({'suite': name, 'q': c['q'], 'doc': c['doc'], 'news': c['news']})
    res.suite_info.append({'suite': name, **info})


# ------------------------------------------------------------------------------------------------ regex (C10)
def regex_suite(ctx, name, lines, res):
    if not lines: return
    real = run_sharded(HBIN, 'regex', lines)
    model = run_sharded(MBIN, 'regex', lines)
    assert len(real) == len(model) == len(lines)
    info = collections.Counter()
    for ln, rl, ml in zip(lines, real, model):
        c = json.loads(ln); r = json.loads(rl); m = json.loads(ml)
        res.stats['cases'] += 1; info['cases'] += 1
        if status_of(r) in ('panic', 'abort', 'timeout'):
            res.violations.append({'suite': name, 'mode': 'regex', 'case': c, 'real': r, 'model': m, 'why': status_of(r)}); info['violations'] += 1; continue
        if ctx.prop == 'C08': res.nontrivial.add(chash(c)); continue      # C08 looks at crashes only
        if 'unsupported' in m: res.stats['skip:regex_unsupported'] += 1; continue
        res.stats['regex_true' if r.get('m') else 'regex_false'] += 1
        if r.get('m'): res.nontrivial.add(chash(c))
        if r.get('m') != m.get('m'):
            # the dialect matcher is both the model of the regex crate and the reference semantics of match/search
            res.corr_fail.append({'suite': name, 'mode': 'regex', 'case': c, 'real': r, 'model': m})
            res.violations.append({'suite': name, 'mode': 'regex', 'case': c, 'real': r, 'model': m, 'why': 'match/search != regular-expression semantics'})
            info['violations'] += 1
        elif r.get('m') and len(res.samples) < 3: res.samples.append({'suite': name, **c})
    res.suite_info.append({'suite': name, **info})


# ------------------------------------------------------------------------------------------------ hist (C12)
def hist_suite(ctx, name, lines, res):
    if not lines: return
    real = run_lines(HBIN, 'hist', [harness_line(l) for l in lines], timeout=300)
    model = run_lines(MBIN, 'hist', lines, timeout=300)
    assert len(real) == len(model) == len(lines)
    info = collections.Counter()
    for ln, rl, ml in zip(lines, real, model):
        c = json.loads(ln); r = json.loads(rl); m = json.loads(ml)
        res.stats['cases'] += 1; info['histories'] += 1; info['ops'] += len(c['ops']); res.stats['ops'] += len(c['ops'])
        why = None
        if 'badjson' in r or 'skipped' in r: res.stats['skip:badjson'] += 1; continue
        if status_of(r) in ('panic', 'abort', 'timeout'): why = status_of(r)
        elif not r.get('parsed_agrees'): why = 'parse-once differs from parse-at-every-call'
        elif not r.get('threads_agree'): why = 'concurrent evaluation differs from sequential'
        elif not r.get('docs_unchanged'): why = 'a document was changed by evaluation'
        elif r.get('slot_reuse_agrees') is False: why = 'evaluating on a fresh copy of the document at a reused address gives a different result'
        else:
            seen = {}
            for op, o in zip(c['ops'], r['seq']):
                k = tuple(op)
                if k in seen and seen[k] != o: why = f'same (query,document) {op} gave different results within one history'
                seen.setdefault(k, o)
        if not why:
            # history independence: every result must equal the result of the same evaluation in a FRESH process
            distinct = sorted(set(tuple(op) for op in c['ops']))
            flines = [json.dumps({'queries': c['queries'], 'docs': c['docs'], 'ops': [list(op)], 'threads': 1}, ensure_ascii=False) for op in distinct]
            from concurrent.futures import ThreadPoolExecutor
            with ThreadPoolExecutor(NCPU) as ex:
                fresh = list(ex.map(lambda l: run_lines(HBIN, 'hist', [l], timeout=20)[0], flines))
            ref = {}
            for op, fr in zip(distinct, fresh):
                fj = json.loads(fr)
                if 'seq' in fj: ref[op] = fj['seq'][0]
            res.stats['fresh_process_evaluations'] += len(distinct)
            for op, o in zip(c['ops'], r['seq']):
                if tuple(op) in ref and ref[tuple(op)] != o:
                    why = f'evaluation {op} (query {c["queries"][op[0]]!r}) gives a different result after this history than in a fresh process'; break
        if why:
            res.violations.append({'suite': name, 'mode': 'hist', 'case': c, 'real': r, 'model': m, 'why': why}); info['violations'] += 1; continue
        if norm(r.get('seq')) != norm(m.get('seq')): res.stats['info_seq_differs_from_model'] += 1   # informational: the function itself is C01's business
        res.nontrivial.add(chash(c))
        if len(res.samples) < 2: res.samples.append({'suite': name, 'queries': c['queries'][:4], 'ops': c['ops'][:8], 'threads': c.get('threads')})
    res.suite_info.append({'suite': name, **info})


# ------------------------------------------------------------------------------------------------ generic (C15)
def sort_members(v):
    """a tagged value with the members of every object sorted by name (values are compared as JSON values: member order is not part of a value)"""
    if isinstance(v, dict):
        if 'o' in v: return {'o': sorted(([k, sort_members(x)] for k, x in v['o']), key=lambda kv: kv[0])}
        if 'a' in v: return {'a': [sort_members(x) for x in v['a']]}
    return v


def proj_paths_values(r):
    if status_of(r) != 'ok': return ('status', status_of(r))
    return ('ok', [key([''.join(map(chr, e['p'])), norm(sort_members(e['v']))]) for e in r['ok']])


def tag_rev(v):
    if isinstance(v, list): return {"a": [tag_rev(x) for x in v]}
    if isinstance(v, dict): return {"o": [[[ord(ch) for ch in k], tag_rev(x)] for k, x in sorted(v.items(), key=lambda kv: kv[0].encode('utf-8'), reverse=True)]}
    return tag(v)


def generic_suite(ctx, name, lines, res, only_rev=False):
    if not lines: return
    hl = [harness_line(l) for l in lines]
    rv = run_sharded(HBIN, 'eval', hl)
    rg1 = rv if only_rev else run_sharded(HBIN, 'generic', hl)       # second Queryable type, structural PartialEq, Default = {}
    rg2 = rv if only_rev else run_sharded(HBIN, 'generic2', hl)      # third Queryable type, PartialEq by JSON value, Default = "default"
    rg3 = rv if only_rev else run_sharded(HBIN, 'generic3', hl)      # fourth Queryable type: equal member values stored once and shared (Rc)
    model = run_sharded(MBIN, 'eval', lines)
    assert len(rv) == len(rg1) == len(rg2) == len(rg3) == len(model) == len(lines)
    # member order is part of the view: the same type holding every object's members in REVERSE name order must give what the model gives on the
    # reordered document (serde_json's map is sorted, so `Value` itself can never show a dependence on some other order)
    rev_idx = [i for i, l in enumerate(lines) if '{' in l.split('"tdoc"')[0].split('"doc"', 1)[-1]]
    rev_lines = []
    for i in rev_idx:
        c = json.loads(lines[i]); c['rev'] = True; c['tdoc'] = tag_rev(c['doc']); rev_lines.append(json.dumps(c, ensure_ascii=False))
    rrev = dict(zip(rev_idx, run_sharded(HBIN, 'generic', [harness_line(l) for l in rev_lines])))
    mrev = dict(zip(rev_idx, run_sharded(MBIN, 'eval', rev_lines)))
    info = collections.Counter()
    for idx, (ln, a, b1, b2, b3, ml) in enumerate(zip(lines, rv, rg1, rg2, rg3, model)):
        c = json.loads(ln); a = json.loads(a); b1 = json.loads(b1); b2 = json.loads(b2); b3 = json.loads(b3); m = json.loads(ml)
        res.stats['cases'] += 1; info['cases'] += 1
        if idx in rrev:
            br = json.loads(rrev[idx]); mr = json.loads(mrev[idx])
            if 'impl' in mr and 'skipped' not in br and 'badjson' not in br and not (mr.get('flags') or {}).get('regex_unsupported') and not (mr.get('flags') or {}).get('float_overflow'):
                res.stats['reordered_member_runs'] += 1
                if status_of(br) == 'ok' and br.get('ok'): res.nontrivial.add(chash([c['q'], c['doc'], 'rev']))
                if status_of(br) in ('panic', 'abort', 'timeout') or proj_paths_values(br) != proj_paths_values(mr['impl']):
                    res.violations.append({'suite': name, 'mode': 'generic', 'case': {**{k: v for k, v in c.items() if k != 'tdoc'}, 'rev': True}, 'real': {'generic_run_reversed_members': br}, 'model': mr,
                                           'why': 'a faithful Queryable implementation that keeps object members in another order does not get the results of that order'}); info['violations'] += 1
                    continue
        if only_rev: continue
        if 'skipped' in a or 'skipped' in b1 or 'skipped' in b2 or 'skipped' in m or 'badjson' in a: res.stats['skip:not_run'] += 1; continue
        pa = proj_eval('C15', a)
        if (m.get('flags') or {}).get('regex_unsupported'): res.stats['skip:regex_unsupported'] += 1; continue
        if (m.get('flags') or {}).get('float_overflow'): res.stats['skip:number_literal_outside_exact_f64_domain'] += 1; continue
        if 'impl' not in m: res.stats['skip:model_gave_no_answer'] += 1; continue
        pm = proj_eval('C15', m['impl'])
        if pa[0] == 'ok' and pa[1]: res.nontrivial.add(chash([c['q'], c['doc']]))
        for which, b in (('structural-eq type', b1), ('value-eq type', b2), ('type with shared member values', b3)):
            if 'skipped' in b or 'badjson' in b: continue
            pb = proj_eval('C15', b)
            if pb != pm:
                res.corr_fail.append({'suite': name, 'mode': 'generic', 'case': c, 'real': b, 'model': m}); info['corr_fail'] += 1
            if pa != pb:
                res.violations.append({'suite': name, 'mode': 'generic', 'case': c, 'real': {'value_run': a, 'generic_run': b, 'type': which}, 'model': m,
                                       'why': 'a faithful Queryable implementation (' + which + ') gives different paths/values than serde_json::Value'}); info['violations'] += 1
                break
        else:
            if pa[0] == 'ok' and pa[1] and len(res.samples) < 3: res.samples.append({'suite': name, 'q': c['q'], 'doc': c['doc']})
    res.suite_info.append({'suite': name, **info})


# ------------------------------------------------------------------------------------------------ groups (C13)
def group_suite(ctx, name, lines, res):
    if not lines: return
    real = run_sharded(HBIN, 'eval', lines)
    model = run_sharded(MBIN, 'eval', lines)
    assert len(real) == len(model) == len(lines)
    info = collections.Counter()
    groups = collections.defaultdict(list)
    for ln, rl, ml in zip(lines, real, model):
        c = json.loads(ln); r = json.loads(rl); m = json.loads(ml)
        res.stats['cases'] += 1; info['spellings'] += 1
        if (m.get('flags') or {}).get('regex_unsupported'): continue
        if 'impl' not in m: res.stats['skip:model_gave_no_answer'] += 1; continue
        pr = proj_eval('C13', r); pi = proj_eval('C13', m['impl'])
        if pr != pi: res.stats['info_spelling_differs_from_model'] += 1     # informational: the function itself is C01's business
        groups[c['group']].append((c, r, m, pr, pi))
    for g, members in groups.items():
        info['groups'] += 1
        base = members[0]
        kinds = set(key(x[3]) for x in members)
        if any(x[3][0] == 'ok' and x[3][1] for x in members): res.nontrivial.add(chash([base[0]['doc']] + sorted(x[0]['q'] for x in members)))
        # correspondence through C13's projection: does the model agree on whether the spellings agree?
        if (len(kinds) > 1) != (len(set(key(x[4]) for x in members)) > 1):
            res.corr_fail.append({'suite': name, 'mode': 'group', 'case': {'doc': base[0]['doc'], 'spellings': [x[0]['q'] for x in members]}, 'real': [x[1] for x in members][:2], 'model': base[2]}); info['corr_fail'] += 1
        if len(kinds) > 1:
            other = next(x for x in members if key(x[3]) != key(base[3]))
            res.violations.append({'suite': name, 'mode': 'group', 'case': {'doc': base[0]['doc'], 'tdoc': base[0]['tdoc'], 'q': other[0]['q'], 'q_equivalent': base[0]['q']},
                                   'real': {'q': other[1], 'q_equivalent': base[1]}, 'model': other[2],
                                   'why': 'two RFC-equivalent spellings of one query give different results'}); info['violations'] += 1
        elif len(res.samples) < 3 and base[3][0] == 'ok' and base[3][1]:
            res.samples.append({'suite': name, 'spellings': [x[0]['q'] for x in members][:4], 'doc': base[0]['doc']})
    res.suite_info.append({'suite': name, **info})


# ------------------------------------------------------------------------------------------------ ladders (C08)
def ladder_suite(ctx, name, lines, res):
    if not lines: return
    """harness only, one process per case (isolation): outcome must be ok/err within the time limit"""
    info = collections.Counter()
    harness_limit = set()
    for ln in lines:
        c = json.loads(ln)
        mode = c['mode']
        if c['shape'].startswith('deep-doc-') and c['depth'] in harness_limit and c['shape'] != 'deep-doc-control':
            res.stats['skip:document_too_deep_for_the_harness'] += 1; continue
        payload = c['q'] if mode == 'parse' else json.dumps({k: c[k] for k in ('q', 'doc', 'wrap', 'dup') if k in c})
        out = run_lines(HBIN_LADDER if os.path.exists(HBIN_LADDER) else HBIN, mode, [payload], timeout=15)
        r = json.loads(out[0])
        res.stats['cases'] += 1; info['cases'] += 1
        st = status_of(r); res.stats['ladder_' + st] += 1
        res.nontrivial.add(chash([c['shape'], c['depth']]))
        if c['shape'] == 'deep-doc-control':
            if st != 'ok': harness_limit.add(c['depth'])
            continue
        if st in ('panic', 'abort', 'timeout'):
            kfs = [k for k in ctx.my_kf if (k['class'] == 'deep_nesting' and c['shape'] in k.get('shapes', []) and c['depth'] >= k.get('min_depth', 1000) and st == 'abort')
                   or (k['class'] == 'exponential_backtracking' and c['shape'] in (k.get('shapes') or [k.get('shape')]) and c['depth'] >= k.get('min_depth', 1000) and st == 'timeout')]
            if kfs:
                res.stats['known_finding_cases'] += 1
                for k in kfs: res.kf_seen.setdefault(k['id'], k['what'])
            else:
                res.violations.append({'suite': name, 'mode': mode, 'case': {'shape': c['shape'], 'depth': c['depth'], 'q_prefix': c['q'][:60], 'q_len': len(c['q'])},
                                       'real': r, 'model': None, 'why': st, 'full_case': c}); info['violations'] += 1
        elif len(res.samples) < 3: res.samples.append({'suite': name, 'shape': c['shape'], 'depth': c['depth'], 'outcome': st})
    res.suite_info.append({'suite': name, **info})


def pumped_suite(ctx, name, lines, res):
    """long queries built by repetition at a starred position of the ABNF: the oracle judges the same shape at n = 3, the real parser gets the long one
    (one process per case)"""
    if not lines: return
    cases = [json.loads(l) for l in lines]
    shorts = sorted({c['short'] for c in cases})
    verdict = {}
    for sh, ml in zip(shorts, run_sharded(MBIN, 'parse', shorts)):
        m = json.loads(ml); verdict[sh] = m.get('rfc')
    # the oracle on the long string itself (where it answers within the limit; otherwise the verdict of the same shape at n = 3 stands,
    # since repetition at a starred position of the ABNF keeps a valid query valid)
    from concurrent.futures import ThreadPoolExecutor
    with ThreadPoolExecutor(NCPU) as ex:
        longm = list(ex.map(lambda c: run_lines(MBIN, 'parse', [c['q']], timeout=120)[0], cases))
    for c, ml in zip(cases, longm):
        m = json.loads(ml)
        c['rfc_long'] = m.get('rfc'); c['impl_long'] = None if 'impl' not in m else status_class(m['impl'])
    info = collections.Counter()
    for c in cases:
        out = run_lines(HBIN, 'parse', [c['q']], timeout=20)
        r = json.loads(out[0]); st = status_of(r)
        res.stats['cases'] += 1; info['cases'] += 1; res.stats['pumped_' + st] += 1
        rfc = c['rfc_long'] or verdict.get(c['short'])
        res.stats['pumped_oracle_' + ('on_long_query' if c['rfc_long'] else 'on_short_form')] += 1
        if c['impl_long'] is not None and c['impl_long'] != status_class(r) and not (st in ('panic', 'abort', 'timeout')):
            res.corr_fail.append({'suite': name, 'mode': 'pumped', 'case': {'shape': c['shape'], 'n': c['n']}, 'real': {'status': st}, 'model': {'impl_status': c['impl_long']}}); info['corr_fail'] += 1
        if rfc != 'valid': res.stats['skip:not_valid'] += 1; continue
        res.nontrivial.add(chash([c['shape'], c['n']]))
        why = None
        if st in ('panic', 'abort', 'timeout'): why = st
        elif ctx.prop == 'C06' and st != 'ok': why = 'valid query rejected'
        if why:
            res.violations.append({'suite': name, 'mode': 'pumped', 'case': {'shape': c['shape'], 'n': c['n'], 'short': c['short'], 'q_prefix': c['q'][:60], 'q_len': len(c['q'])},
                                   'real': r if len(json.dumps(r)) < 2000 else {'status': st}, 'model': {'rfc': rfc, 'judged_on': 'long query' if c['rfc_long'] else 'same shape at n=3'}, 'why': why, 'full_case': {k: v for k, v in c.items() if k not in ('rfc_long', 'impl_long')}}); info['violations'] += 1
        elif len(res.samples) < 3: res.samples.append({'suite': name, 'shape': c['shape'], 'n': c['n'], 'outcome': st})
    res.suite_info.append({'suite': name, **info})


# ------------------------------------------------------------------------------------------------ per-property plans
def run(ctx, round_no=0):
    res = Res()
    p = ctx.prop; S = ctx.scale
    if p == 'C15' and S > 12: S = 12      # every case is run five to seven times (four Queryable types, reordered members, model twice): 12x the quick volume keeps the thorough tier under an hour
    seed = ctx.seed + 1000 * round_no
    first = round_no == 0
    g = (lambda *a: []) if ctx.opts.get('corpus-only') else gen
    pre = (kf_lines(ctx) + corpus_lines('eval.jsonl', p)) if first else []
    if p in ('C01', 'C02', 'C03'):
        res.rule = ('(query string, document) pairs: known-finding witnesses and regression corpus first, exhaustive small-scope enumeration, structured random '
                    'queries typed against a generated document; compared through the property projection (C01 multiset of (address-derived location, value); '
                    'C02 ordered locations; C03 set of (location, path, re-query ok)); documents up to 300 levels (outer levels built by the harness in code), wide unions, plain chains, '
                    'names spelt with path punctuation, a size sweep around powers of two (arrays, objects, strings, names, unions, segments); what query() / query_only_path return is '
                    'judged against query_with_path (nodes: C01, order: C02, paths: C03); C02 also runs a Queryable type with members in reverse name order against the model on the '
                    'reordered document; non-trivial = distinct pair with a non-empty real result')
        eval_suite(ctx, 'witnesses+corpus', pre, res) if pre else None
        if first: eval_suite(ctx, 'small-scope', g('gen_small.py', p, seed, 6000 * S), res)
        eval_suite(ctx, 'random', g('gen_eval.py', seed, 12000 * S), res)
        if first: eval_suite(ctx, 'size-sweep', g('gen_sizes.py', seed, 1025 if ctx.tier == 'quick' else 2049), res)
        if p == 'C02': generic_suite(ctx, 'member-order', g('gen_eval.py', seed + 77, 3000 * S), res, only_rev=True)
        if p == 'C03': eval_suite(ctx, 'paths-of-all-nodes', g('gen_paths.py', seed, 3000 * S), res)
        if p == 'C01': eval_suite(ctx, 'targeted-filters', g('gen_targeted.py', 'c10', seed, 1500 * S) + g('gen_targeted.py', 'c05', seed, 1500 * S) + g('gen_targeted.py', 'c14', seed, 1000 * S)
                                  + g('gen_targeted.py', 'c04', seed, 1500 * S) + g('gen_targeted.py', 'c15', seed, 500 * S), res)
        if p == 'C01': parse_suite(ctx, 'parser-ast', g('gen_abnf.py', seed, 5000 * S), res)
        if p == 'C01': eval_suite(ctx, 'programmatic-asts', g('gen_ast.py', seed, 5000 * S), res, mode='ast')
    elif p in ('C04', 'C05', 'C10', 'C11', 'C14'):
        n = {'C04': 14000, 'C05': 10000, 'C10': 8000, 'C11': 0, 'C14': 10000}[p] * S
        if p == 'C04' and S > 3: n = 0
        res.rule = {'C04': 'operand-pair table: value universe squared x 6 operators x operand forms (node, literal, nothing, root, function result)',
                    'C05': 'random formulas (!, &&, ||, parentheses, nested filters) over 15 atoms x valuation documents incl. empty/falsy member values',
                    'C10': 'length/count/value argument universe of every JSON type + match/search over dialect patterns; plus raw (pattern, subject) pairs',
                    'C11': 'exhaustive: start/end in {absent,-7..7} x step in {absent,-7,-3..3,7} x len 0..6, indices -8..8, extremes +-(2^53-1)',
                    'C14': 'five extension functions x argument universe (arrays incl. nested/empty, non-arrays, missing)'}[p] + \
                   '; projection = kept nodes by address-derived location; non-trivial = distinct case with a non-empty real result'
        eval_suite(ctx, 'witnesses+corpus', pre, res) if pre else None
        eval_suite(ctx, 'targeted', g('gen_targeted.py', p.lower(), seed, n), res)
        if p == 'C11' and first: eval_suite(ctx, 'size-sweep', g('gen_sizes.py', seed, 1025), res)
        if p == 'C10': regex_suite(ctx, 'regex-dialect', g('gen_regex.py', seed, 8000 * S), res)
    elif p in ('C06', 'C07'):
        res.rule = ('query strings: ABNF-derived sentences with random optional blanks, both quote styles, escapes, number formats; single-edit mutants; '
                    '(token-level: leading zeros, -0, out-of-range integers, every kind of ill-typed call with both roots, invalid atoms embedded next to constant atoms, lone surrogates, control '
                    'characters), random token soup with long multi-byte text next to syntax errors; C06: long queries (repetition at every starred position of the ABNF, up to 3 000 / 10 000 '
                    'elements). Oracle Rfc.verdict (ABNF + validity rules); the string entry points must classify every string as parse_json_path does on seven documents. '
                    'non-trivial = distinct string that is valid (C06) / invalid (C07)')
        parse_suite(ctx, 'corpus', corpus_lines_raw('parse.txt'), res) if first and corpus_lines_raw('parse.txt') else None
        parse_suite(ctx, 'abnf-sentences+mutants', g('gen_abnf.py', seed, 15000 * S), res)
        parse_suite(ctx, 'token-soup', g('gen_parse.py', seed, 15000 * S), res)
        if first and p == 'C06': pumped_suite(ctx, 'long-queries', gen('gen_pumped.py', ctx.tier), res)
    elif p == 'C08':
        res.rule = ('all parser strings of C06/C07 plus integer extremes in every integer position, scalar/empty documents and nesting ladders, run in isolated '
                    'worker processes with overflow checks; outcome must be Ok/Err (no panic, abort, timeout); evaluation of a parsed query must be Ok; '
                    'plus programmatically built queries (random ASTs incl. shapes the parser cannot produce, integers in the I-JSON range); ladders on an UNOPTIMISED build: nesting of '
                    'parentheses / filters / functions, 19 wide-document shapes, documents nested 1 000 - 30 000 levels (built in code, with a control query), comparisons nested in count()/value(); '
                    'long queries; regex patterns of every shape (crashes only)')
        if first: parse_suite(ctx, 'corpus', corpus_lines_raw('parse.txt'), res)
        if first: eval_suite(ctx, 'corpus-eval', corpus_lines('eval.jsonl', p), res)
        parse_suite(ctx, 'abnf-sentences+mutants', g('gen_abnf.py', seed, 8000 * S), res)
        parse_suite(ctx, 'token-soup', g('gen_parse.py', seed, 8000 * S), res)
        eval_suite(ctx, 'extremes', g('gen_extreme.py', seed, 6000 * S), res)
        eval_suite(ctx, 'programmatic-asts', g('gen_ast.py', seed, 6000 * S), res, mode='ast')
        eval_suite(ctx, 'random', g('gen_eval.py', seed, 6000 * S), res)
        if first: ladder_suite(ctx, 'nesting-ladders', gen('gen_ladder.py', ctx.tier), res)
        if first: pumped_suite(ctx, 'long-queries', gen('gen_pumped.py', ctx.tier), res)
        regex_suite(ctx, 'regex-patterns', g('gen_regex.py', seed, 6000 * S), res)      # patterns of every shape, valid or not: match/search must not panic
    elif p == 'C09':
        res.rule = ('(document, path, new value): Normalized Path of every kind of node (names with / ~ quotes digits blanks), one-step-off absent locations, '
                    'non-path queries; compared: found node by address, write result, whole document after the write; spec = lens laws on locations; paths returned by queries fed back to '
                    'reference; update sequences through all paths of one query; paths of 150 - 10 000 segments into documents built in code')
        if first and corpus_lines('ref.jsonl'): ref_suite(ctx, 'corpus', corpus_lines('ref.jsonl'), res)
        if first: eval_suite(ctx, 'kf-witnesses', kf_lines(ctx), res)
        eval_suite(ctx, 'query-paths-fed-back', g('gen_eval.py', seed, 6000 * S) + g('gen_small.py', p, seed, 3000 * S), res)
        refseq_suite(ctx, 'update-sequences', g('gen_refseq.py', seed, 5000 * S), res)
        ref_suite(ctx, 'ref', g('gen_ref.py', seed, 12000 * S), res)
        if first: longref_suite(ctx, 'long-paths', longref_cases(ctx.tier), res)
    elif p == 'C12':
        res.rule = ('histories: seeded sequences of evaluations interleaving several queries and documents, each also by pre-parsed query and from N threads '
                    'sharing one Arc, every evaluation compared with a fresh process; the three entry points and a parsed-once query compared position by position on random, size-sweep and '
                    'targeted function cases; a look-up of a path that designates no node must leave the document unchanged; source obligation: no construct in /repo/src that can hold state')
        hist_suite(ctx, 'histories', g('gen_hist.py', seed, 60 * S), res)
        eval_suite(ctx, 'entry-points', g('gen_eval.py', seed, 8000 * S), res)
        if first: eval_suite(ctx, 'size-sweep', g('gen_sizes.py', seed, 513), res)
        eval_suite(ctx, 'targeted-functions', g('gen_targeted.py', 'c10', seed, 1500 * S) + g('gen_targeted.py', 'c14', seed, 800 * S) + g('gen_targeted.py', 'c15', seed, 800 * S), res)
        ref_suite(ctx, 'look-ups', g('gen_ref.py', seed, 4000 * S), res)
    elif p == 'C13':
        res.rule = ('metamorphic: abstract queries rendered into 6 random spellings each (shorthand/quotes, .* vs [*], optional parentheses, number spellings, '
                    'blanks at every S); all spellings must agree on the real crate, and each agrees with the model')
        group_suite(ctx, 'spellings', g('gen_targeted.py', 'c13', seed, 12000 * S), res)
    elif p == 'C15':
        res.rule = ('the same (query, document) cases through serde_json::Value and through two other Queryable types (members in a Vec, separate unsigned '
                    'variant, lossy Debug, Default != null, no reference override; one with structural PartialEq and accessors kept apart, one with PartialEq by JSON value and second spellings '
                    'of strings and null) and through a type that stores equal member values once (Rc); paths and values must be equal position by position; all equal the model; the first type '
                    'is also run with every object\'s members in reverse name order and compared with the model on the reordered document')
        generic_suite(ctx, 'second-queryable', g('gen_eval.py', seed, 10000 * S), res)
        generic_suite(ctx, 'targeted-functions', g('gen_targeted.py', 'c10', seed, 3000 * S) + g('gen_targeted.py', 'c14', seed, 3000 * S) + g('gen_targeted.py', 'c04', seed, 3000 * S), res)
        generic_suite(ctx, 'singular-queries', g('gen_targeted.py', 'c15', seed, 2000 * S), res)
        if first: generic_suite(ctx, 'size-sweep', g('gen_sizes.py', seed, 257), res)
    else:
        raise SystemExit('unknown property ' + p)
    return res


def corpus_lines_raw(name):
    p = os.path.join(ROOT, 'corpus', name)
    if not os.path.exists(p): return []
    return [l.rstrip('\n') for l in open(p) if l.strip() and not l.startswith('#')]


# ------------------------------------------------------------------------------------------------ minimisation
def shrinks_doc(d):
    """one-step reductions of a JSON document"""
    out = []
    if isinstance(d, list):
        for i in range(len(d)): out.append(d[:i] + d[i + 1:])
        for i, x in enumerate(d):
            for s in shrinks_doc(x): out.append(d[:i] + [s] + d[i + 1:])
            if isinstance(x, (list, dict)) and x: out.append(d[:i] + [0] + d[i + 1:])
    elif isinstance(d, dict):
        for k in d: out.append({a: b for a, b in d.items() if a != k})
        for k, x in d.items():
            for s in shrinks_doc(x): out.append({**d, k: s})
            if isinstance(x, (list, dict)) and x: out.append({**d, k: 0})
    elif isinstance(d, str) and len(d) > 1: out.append(d[:1])
    return out


def size(o): return len(json.dumps(o, ensure_ascii=False))


def minimise(ctx, res):
    vs = sorted(res.violations, key=lambda v: size(v['case']))
    v = vs[0]
    if v['mode'] == 'eval' and isinstance(v['case'], dict) and 'doc' in v['case'] and 'q' in v['case']:
        cur = v
        for _ in range(12):
            cands = shrinks_doc(cur['case']['doc'])[:300]
            if not cands: break
            lines = [json.dumps({'q': cur['case']['q'], 'doc': d, 'tdoc': tag(d)}, ensure_ascii=False) for d in cands]
            real = run_lines(HBIN, 'eval', lines); model = run_lines(MBIN, 'eval', lines)
            better = None
            for ln, rl, ml in zip(lines, real, model):
                c = json.loads(ln); r = json.loads(rl); m = json.loads(ml)
                j = judge_eval(ctx, c, r, m)
                if j['verdict'] == 'viol' and (better is None or size(c) < size(better['case'])):
                    better = {'suite': cur['suite'], 'mode': 'eval', 'case': c, 'real': r, 'model': m, 'why': j.get('why')}
            if better is None or size(better['case']) >= size(cur['case']): break
            cur = better
        v = cur
    out = {'kind': 'property-violation', 'suite': v['suite'], 'mode': v['mode'], 'why': v.get('why'), 'case': v.get('full_case', v['case']),
           'real': v['real'], 'model': v['model'], 'other_violations_in_this_run': len(res.violations) - 1}
    if isinstance(out['case'], dict): out['case'].pop('tdoc', None)
    out['hash'] = chash(v['case'])
    return out


def replay(ctx, path):
    """re-run the case of a replay file through the same judge"""
    rp = json.load(open(path))
    res = Res(); res.rule = 'replay of ' + path
    c = rp.get('case'); mode = rp.get('mode')
    if c is None: raise SystemExit('replay file has no case (proof/correspondence breakage is replayed by re-running the check)')
    if mode in ('eval', 'group'):
        if 'tdoc' not in c: c['tdoc'] = tag(c['doc'])
        if mode == 'group':
            lines = [json.dumps({'group': 0, 'q': c['q'], 'doc': c['doc'], 'tdoc': c['tdoc']}), json.dumps({'group': 0, 'q': c['q_equivalent'], 'doc': c['doc'], 'tdoc': c['tdoc']})]
            group_suite(ctx, 'replay', lines, res)
        else: eval_suite(ctx, 'replay', [json.dumps(c, ensure_ascii=False)], res)
    elif mode == 'ast': eval_suite(ctx, 'replay', [json.dumps({**c, 'tdoc': tag(c['doc'])}, ensure_ascii=False)], res, mode='ast')
    elif mode == 'generic':
        # a case reported by the reordered-members run carries `rev`: replay that run only (the suite derives the reordered case itself)
        base = {k: v for k, v in c.items() if k != 'rev'}
        generic_suite(ctx, 'replay', [json.dumps({**base, 'tdoc': tag(base['doc'])}, ensure_ascii=False)], res, only_rev=bool(c.get('rev')))
    elif mode == 'parse':
        if isinstance(c, dict): ladder_suite(ctx, 'replay', [json.dumps(c)], res)
        else: parse_suite(ctx, 'replay', [c], res)
    elif mode == 'longref': longref_suite(ctx, 'replay', [json.dumps(c)], res)
    elif mode == 'run': ladder_suite(ctx, 'replay', [json.dumps(c)], res)
    elif mode == 'pumped': pumped_suite(ctx, 'replay', [json.dumps(c)], res)
    elif mode == 'ref': ref_suite(ctx, 'replay', [json.dumps({**c, 'tdoc': tag(c['doc']), 'tnew': tag(c['new'])}, ensure_ascii=False)], res)
    elif mode == 'regex': regex_suite(ctx, 'replay', [json.dumps(c, ensure_ascii=False)], res)
    elif mode == 'refseq': refseq_suite(ctx, 'replay', [json.dumps({**c, 'tdoc': tag(c['doc']), 'tnews': [tag(v) for v in c['news']]}, ensure_ascii=False)], res)
    elif mode == 'hist': hist_suite(ctx, 'replay', [json.dumps(c, ensure_ascii=False)], res)
    return res
