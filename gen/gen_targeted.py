#!/usr/bin/env python3
"""Targeted case sets (prototype): python3 gen_targeted.py <kind> <seed> <n>  -> JSON lines {"q","doc","tdoc"}"""
import sys, json, random, itertools
from fractions import Fraction
kind = sys.argv[1]; rnd = random.Random(int(sys.argv[2])); N = int(sys.argv[3])
def tag(v):
    if v is None: return None
    if v is True or v is False: return {"b": v}
    if isinstance(v, int): return {"i": str(v)}
    if isinstance(v, float):
        f = Fraction(v); return {"f": [str(f.numerator), str(f.denominator)]}
    if isinstance(v, str): return {"s": [ord(c) for c in v]}
    if isinstance(v, list): return {"a": [tag(x) for x in v]}
    return {"o": [[[ord(c) for c in k], tag(x)] for k, x in sorted(v.items(), key=lambda kv: kv[0].encode('utf-8'))]}
def emit(q, d): print(json.dumps({"q": q, "doc": d, "tdoc": tag(d)}, ensure_ascii=False))
M = 9007199254740991
if kind == 'c11':
    # exhaustive: bounds in {absent,-7..7} x len 0..6, plus extremes; indices -8..8
    bounds = [None] + list(range(-7, 8))
    cases = []
    for ln in range(0, 7):
        arr = list(range(ln))
        for i in range(-8, 9): cases.append((f"$[{i}]", arr))
        for a in bounds:
            for b in bounds:
                for c in [None, -7, -3, -2, -1, 0, 1, 2, 3, 7]:
                    s = ('' if a is None else str(a)) + ':' + ('' if b is None else str(b)) + ('' if c is None else ':' + str(c))
                    cases.append((f"$[{s}]", arr))
    ext = [None, M, -M, M - 1, -M + 1, 0, 1, -1]
    for ln in range(0, 4):
        arr = list(range(ln))
        for a in ext:
            for b in ext:
                for c in ext:
                    s = ('' if a is None else str(a)) + ':' + ('' if b is None else str(b)) + ('' if c is None else ':' + str(c))
                    cases.append((f"$[{s}]", arr))
        for i in [M, -M]: cases.append((f"$[{i}]", arr))
    # index segments of singular queries inside comparisons: every index from far below -len to far above len
    for ln in range(0, 5):
        arr = list(range(ln))
        for i in range(-2 * ln - 3, 2 * ln + 4):
            cases.append((f"$[?@[{i}]=={max(ln - 1, 0)}]", [arr, list(reversed(arr)), [7] * ln]))
            cases.append((f"$.b[?@==$.a[{i}]]", {"a": arr, "b": [0, 1, 2, 3, None]}))
            cases.append((f"$[?@[{i}]]", [arr, [arr]]))
            cases.append((f"$[?@[0][{i}]!=1]", [[arr]]))
            # an index that selects nothing, against an operand that is empty by another route / under the functions
            cases.append((f"$[?@[{i}]==@.nope]", [arr, [7] * ln])); cases.append((f"$[?@[{i}]!=@.nope]", [arr]))
            cases.append((f"$[?@[{i}]==@[{-i - 1}]]", [arr])); cases.append((f"$[?@[{i}]<=@[{2 * ln + 5}]]", [arr]))
            cases.append((f"$[?length(@[{i}])==0]", [[['ab'] * ln][0], [[]] * ln])); cases.append((f"$[?count(@[{i}])==0]", [arr])); cases.append((f"$[?value(@[{i}])==null]", [arr, [None] * ln]))
    # values that a narrower integer type would wrap or truncate (8, 16, 31, 32, 52, 53, 63 bits), in every position
    TR = sorted({s * (2 ** k + d) for k in (8, 16, 31, 32, 33, 40, 48, 52) for d in (-1, 0, 1, 2) for s in (1, -1)})
    for ln in (0, 1, 3, 6):
        arr = list(range(ln))
        for t in TR:
            for q in (f"$[{t}]", f"$[::{t}]", f"$[{t}:]", f"$[:{t}]", f"$[{t}::-1]", f"$[:{t}:-1]", f"$[1::{t}]", f"$[?@[{t}]==0]"):
                cases.append((q, arr if not q.startswith('$[?') else [arr]))
    for q, sc in [("$[1:2]", {"a": 1}), ("$[0]", {"0": 1}), ("$[::]", "abc"), ("$[0]", 5), ("$..[1::-1]", [[1, 2, 3], [4, [5, 6]]])]: cases.append((q, sc))
    # slices as the first segment after `@` inside a filter, observed through count() and through a following segment
    for ln in range(0, 6):
        arr = list(range(ln))
        for a in [None, 0, 1, -1, -2, 2]:
            for b in [None, 0, 1, 2, 3, -1, 5]:
                for c in [None, 1, 2, -1, -2]:
                    sl = ('' if a is None else str(a)) + ':' + ('' if b is None else str(b)) + ('' if c is None else ':' + str(c))
                    k = rnd.randrange(0, ln + 1)
                    cases.append((f"$[?count(@[{sl}])=={k}]", [arr]))
                    cases.append((f"$[?count(@[{sl}])>{max(k - 1, 0)}]", [arr, list(reversed(arr))]))
                    cases.append((f"$[?@[{sl}].a]", [[{"b": 1}] * max(ln - 1, 0) + [{"a": 1}]] if ln else [[]]))
                    cases.append((f"$[?@[{sl}][?@>{k}]]", [arr]))
    # the same slices over arrays whose elements are not distinct: a position must never be recovered from a value
    def variants(arr):
        if not isinstance(arr, list) or not arr or not all(isinstance(x, int) for x in arr): return []
        return [[7] * len(arr), ['a', 'b'] * (len(arr) // 2) + ['a'] * (len(arr) % 2), [x // 2 for x in arr]]
    extra = []
    for q, d in cases:
        if q.startswith('$[') and ':' in q and not q.startswith('$[?') and rnd.random() < 0.5:
            for v in variants(d): extra.append((q, v))
    cases += extra
    if N and N < len(cases): cases = rnd.sample(cases, N)
    for q, d in cases: emit(q, d)
elif kind == 'c04':
    U = [None, True, False, 0, 0.0, -0.0, 1, -1, 2, 1.0, 0.5, -0.5, 2.0**-60, 100, 100.0, 1e19, 9.5e18, -1e19, 9007199254740992, 4503599627370497, '', 'a', 'b', 'ab', 'A', 'é', '𝄞', '￿', '1',
         [], [1], [1.0], [1, 2], [[1]], [[1.0]], {}, {"a": 1}, {"a": 1.0}, {"a": 1, "b": 2}, {"b": 2, "a": 1}, {"a": [1]}, {"a": [1.0]}]
    OPS = ['==', '!=', '<', '<=', '>', '>=']
    LITS = ['null', 'true', 'false', '0', '-0', '0.0', '-0.0', '1', '-1', '2', '1.0', '0.5', '-0.5', '1e2', '100', '100.0', '1e19', '-1e19', '9.5e18', '1.0e19', '9007199254740992.0',
            # at and beyond the largest double (a literal that would round to infinity is not a number the crate can hold: rejected, oracle abstains)
            '1.7976931348623157e308', '1e308', '1e400', '-1e400', '1E999', '2e308', '1.7976931348623159e308', '0.1e310', "''", "'a'", '"a"', "'b'", "'ab'", "'A'", "'é'", "'1'"]
    cases = []
    for x in U:
        for y in U:
            for op in OPS:
                cases.append((f"$[?@[0]{op}@[1]]", [[x, y]]))           # node vs node
                cases.append((f"$[?@.x{op}@.y]", [{"x": x, "y": y}]))
        for op in OPS:
            cases.append((f"$[?@[0]{op}@[5]]", [[x]]))                   # node vs nothing
            cases.append((f"$[?@[5]{op}@[0]]", [[x]]))
            cases.append((f"$[?@[5]{op}@[6]]", [[x]]))                   # nothing vs nothing
            cases.append((f"$[?$[1]{op}@[0]]", [[x], x]))                # root vs current
            for l in LITS:
                cases.append((f"$[?@{op}{l}]", [x]))                     # node vs literal
                cases.append((f"$[?{l}{op}@]", [x]))
            cases.append((f"$[?length(@){op}1]", [x])); cases.append((f"$[?count(@.*){op}1]", [x])); cases.append((f"$[?value(@.*){op}1]", [x]))
            cases.append((f"$[?length(@){op}1.0]", [x])); cases.append((f"$[?count(@.*){op}1e0]", [x])); cases.append((f"$[?1.0{op}value(@.*)]", [x])); cases.append((f"$[?length(@){op}count(@.*)]", [x]))
    for a in LITS:
        for b in LITS:
            for op in OPS: cases.append((f"$[?{a}{op}{b}]", [0]))
    # containers with many members / elements: equality is member-wise whatever the size
    for n in (47, 48, 49, 50, 64, 65, 70, 130):
        o = {'k%03d' % i: i for i in range(n)}; o1 = dict(o); o1['k%03d' % (n - 1)] = float(n - 1); o2 = dict(o); o2['k%03d' % (n // 2)] = -1; o3 = dict(o); del o3['k000']; o3['zzz'] = 0
        a = list(range(n)); a1 = a[:-1] + [float(n - 1)]; a2 = a[:-1] + [-1]
        for op in OPS:
            cases.append((f"$.i[?@{op}$.w]", {"w": o, "i": [o, o1, o2, o3, {}]}))
            cases.append((f"$.i[?@{op}$.w]", {"w": a, "i": [a, a1, a2, a[:-1], []]}))
            cases.append((f"$.i[?@.x{op}@.y]", {"i": [{"x": o, "y": o1}, {"x": o, "y": o2}, {"x": [o], "y": [o1]}, {"x": a, "y": a1}, {"x": a, "y": a2}]}))
    # doubles one unit in the last place apart (and the smallest subnormals): different numbers, however close
    ADJ = [(0.1 + 0.2, 0.3), (1.0000000000000002, 1.0), (2.0 ** 60, 2.0 ** 60 + 256), (1e308, 1.0000000000000002e308), (5e-324, 0.0), (-5e-324, 0.0), (1e-300, 1.0000000000000002e-300),
           (0.1, 0.10000000000000002), (123456.78900000002, 123456.789), (-2.5000000000000004, -2.5)]
    for x, y in ADJ:
        for op in OPS:
            cases.append((f"$[?@[0]{op}@[1]]", [[x, y], [y, x], [x, x]])); cases.append((f"$[?@.x{op}$.y]", {"y": y, "i": {"x": x}, "j": {"x": y}}))
            cases.append((f"$[?@[0]{op}@[1]]", [[[x], [y]], [{"k": x}, {"k": y}]]))
    # integers of the document beyond 2^53 (each exactly an i64): compared with each other they are numbers like any other
    BIGI = [2**53, 2**53 + 1, 2**53 + 2, 2**62, 2**62 + 1, 2**63 - 1, 2**63 - 2, -(2**53) - 1, -(2**53) - 2, -(2**63), -(2**63) + 1, 0, 1]
    for x in BIGI:
        for y in BIGI:
            for op in OPS:
                cases.append((f"$[?@[0]{op}@[1]]", [[x, y]])); cases.append((f"$[?@.x{op}$.y]", {"y": y, "i": {"x": x}}))
        cases.append(("$[?@==$[0]]", [x] + BIGI)); cases.append(("$[?@<$[0]]", [x] + BIGI)); cases.append(("$[?@>=$[0]]", [x] + BIGI))
    # objects whose member names are enclosed in quote characters (a lookup that "unquotes" the name finds the wrong member)
    QO = [{"'k'": 1}, {"'k'": 1.0}, {"'k'": 2, "k": 2}, {"'k'": 5, "k": 2}, {'"k"': 1}, {'"k"': 1, "k": 3}, {"'": 1}, {'"': 1}, {"''": 1, "": 2}, {"k": 1}]
    for x in QO:
        for y in QO:
            for op in OPS: cases.append((f"$[?@.x{op}@.y]", [{"x": x, "y": y}]))
    # two DIFFERENT operands whose texts coincide once the punctuation between their segments is dropped
    COLL = [("@.a.b", "@.ab"), ("@[1][2]", "@[12]"), ("$.k[1]", "$.k1"), ("@['a']['b']", "@['ab']"), ("@.a[0]", "@.a0"), ("@.a.b", "@['a.b']"), ("@[0].a", "@['0a']"), ("length(@.a.b)", "length(@.ab)"), ("count(@.a.b)", "count(@.ab)")]
    CDOC = [{"a": {"b": 1, "0": 9}, "ab": 2, "a0": 3, "a.b": 4, "0a": 5, "k1": 6}, [0, [7, 8, 9]] + [0] * 10 + [5], {"a": [3], "ab": 3, "a0": 4}, {"a": {"b": [1, 2]}, "ab": [1]}]
    for l, r in COLL:
        for op in OPS:
            cases.append((f"$[?{l}{op}{r}]", [CDOC[0], CDOC[2], CDOC[3], CDOC[1]]))
            cases.append((f"$[?{r}{op}{l}]", [CDOC[0], CDOC[2], CDOC[3], CDOC[1]]))
            cases.append((f"$.x[?{l}{op}{r}]", {"k": [1, 2], "k1": 2, "x": [CDOC[0], CDOC[1]]}))
    if N and N < len(cases): cases = rnd.sample(cases, N)
    for q, d in cases: emit(q, d)
elif kind == 'c05':
    ATOMS = ['match(@.a,@.b)', 'search(@.a,@.b)', "match(@.a,'a.*')", 'match(@.b,@.a)', "search(@.b,'b')",
             '@.a[?@.a]', '@.a[?@.b]', '@.a[?@>1]', '@.a[?@<2]', '@.*[?@.a]', '@.*[?@.b]', '@.a[?@.a==1]', '@.a[?@.b==2]', '@.a[?@>=2]', '@..a[?@.b]', '@..a[?@.a]',
             '@.a', '@.b', '@[0]', '@.*', '$.k', '$.a', '$.k[?@.a]', '@.a==$.a', '$.items', '$.k[0]==1', 'count($.k[*])>0', '@.a==1', '@.b!=2', '@.a<@.b', '1==1', '1==2', '@[?@.a]', '@..a', 'length(@.a)==0', 'count(@.*)>1', "in(@.a,$.k)",
             '@[?@.a].b', '@[?@.a][0]', '@[?@.a]..b', '@[?@.b].a[?@>1]', '@.*[?@.a].b', '@[?@.a,?@.b].b', '@[1:][?@.a].b', '@..[?@.a].b', '@[?@[?@.a].b]', 'count(@[?@.a])==2', 'value(@[?@.b].a)==1',
             # a `!` that belongs to a filter nested inside the tested query, not to the test itself
             '@[?!@.a]', '@.a[?!@.b]', '@[?!@.a].b', '@[?!(@.a)]', '@[?!@.a&&@.b]', '@[?@.a||!@.b]', 'count(@[?!@.a])==1', '@.*[?!@.b]', '@..[?!@.a]', '@[?@[?!@.a]]', '$.k[?!@.a]', '@[?@.a!=1]']
    DOCS = [[{"a": 1}, {"a": 2, "b": 7}], [{"b": 1, "a": [0, 2]}, {"a": 1}, {"a": {"b": 3}, "b": 0}], {"x": {"a": 1}, "y": {"a": 2, "b": [5]}}, [[{"a": 1}], [{"a": 1, "b": 2}]], {"a": 1}, {"a": ""}, {"a": []}, {"a": {}}, {"a": None}, {"a": False}, {"a": 0}, {"b": 2}, {"a": 1, "b": 2}, {"a": 2, "b": 1}, [], [0], [[{"a": 1}]], [{"a": {"a": 1}}], {}, 5, "s", None,
            {"a": "abc", "b": "a.*"}, {"a": "abc", "b": "x"}, {"a": "abc"}, {"a": "abc", "b": 1}, {"a": "abc", "b": None}, {"a": 1, "b": "b"},
            {"a": [{"a": 1}, {"b": 2}]}, {"a": [{"a": 1, "b": 2}]}, {"a": [0, 2]}, {"a": [{"b": 2}], "x": [{"a": 1}]}, {"a": [3, 1]}, {"a": {"p": {"a": 1}, "q": {"b": 2}}}]
    def formula(d):
        r = rnd.random()
        if d >= 3 or r < 0.3: return rnd.choice(['', '', '!']) + rnd.choice(ATOMS) if rnd.random() < 0.8 else rnd.choice(ATOMS)
        if r < 0.5: return '(' + formula(d + 1) + ')' if rnd.random() < 0.6 else '!(' + formula(d + 1) + ')'
        if r < 0.75: return formula(d + 1) + rnd.choice(['&&', ' && ']) + formula(d + 1)
        return formula(d + 1) + rnd.choice(['||', ' || ']) + formula(d + 1)
    for _ in range(N):
        f = formula(0)
        if f.startswith('!') and ('==' in f.split('&&')[0].split('||')[0] or '<' in f.split('&&')[0].split('||')[0] or '>' in f.split('&&')[0].split('||')[0] or '!=' in f.split('&&')[0].split('||')[0]) and not f.startswith('!('):
            f = f[1:]   # `!` cannot prefix a comparison
        r0 = rnd.random()
        if r0 < 0.35: doc = {"k": rnd.choice([[1], 1, []]), "items": rnd.sample(DOCS, 6)}
        elif r0 < 0.6:
            # the filter runs over the MEMBERS of an object (other code path than over array elements); `$` must still be the document root
            doc = {"k": rnd.choice([[1], 1, [], [{"a": 1}]]), "a": rnd.choice([1, None]), "items": {("m%d" % i): v for i, v in enumerate(rnd.sample(DOCS, 6))}}
        else: doc = rnd.sample(DOCS, 6)
        q = ("$.items[?" + f + "]") if isinstance(doc, dict) else ("$[?" + f + "]")
        emit(q, doc)
elif kind == 'c14':
    VALS = [1, 1.0, 'a', 'b', None, True, False, 0, [1], [1.0], {"k": 1}, [], {}, '1', 'null', 'true', '[1]', '1.0', '{}', '', 'a,b',
            # integers beyond i64 / beyond the exact range of f64, and a digit string next to the digit
            'k', 'null', ['k'], ['a', 'b'],
            18446744073709551615, 18446744073709551614, 9223372036854775807, 9223372036854775808, 9007199254740993, 9007199254740992, -9223372036854775808, 7, '7', [7], [18446744073709551615]]
    BIG = [str(i) for i in range(70)]
    ARRS = [{"k": 1}, {"a": 1, "b": [1]}, {"1": 1, "null": 2}, [18446744073709551614], [9223372036854775808, 9007199254740992], BIG, list(range(70)), BIG + [None], ['null', 'true', 'false'] + BIG, [[i] for i in range(70)], ['[%d]' % i for i in range(70)], list(range(100, 170)) + ['7'],
            [], [1], [1, 'a'], ['a', 'b'], [[1]], [None], [1.0], [{"k": 1}], [[], {}], 5, 'x', None, {}, [1, 1], ['a', 'a', 'b', 'a'], [1, 1, 1, 1], [[1], [1]], [None, None], ['b', 'a', 'b'], ['1'], ['null', 'true'], [None, True, 1], ['[1]', '{}'], [0.0, 0], ['1', 1]]
    for _ in range(N):
        fn = rnd.choice(['in', 'nin', 'any_of', 'none_of', 'subset_of'])
        elems = [rnd.choice(VALS + ARRS) for _ in range(rnd.choice([1, 2, 3, 4]))]
        lst = rnd.choice(ARRS)
        doc = {"elems": elems} if rnd.random() < 0.15 else {"elems": elems, "list": lst}
        neg = rnd.choice(['', '', '!'])
        form = rnd.choice(["{n}{f}(@, $.list)", "{n}{f}(@,$.list)", "{n}{f}(@, $.missing)", "{n}{f}(@.k, $.list)", "{n}{f}(@[0], $.list)", "{n}{f}(1, $.list)", "{n}{f}('a', $.list)", "{n}{f}(null, $.list)", "{n}{f}(true, $.list)", "{n}{f}('1', $.list)", "{n}{f}(1.0, $.list)", "{n}{f}(@, $.elems[0])", "{n}{f}($.list, @)", "{n}{f}(@[0], @)", "{n}{f}(@, $.list) && {f}(@, $.list)", "{n}{f}(@)", "{n}{f}(@, $.list, $.list)"])
        emit("$.elems[?" + form.format(n=neg, f=fn) + "]", doc)
elif kind == 'c10':
    SUBJ = ['(', ')', 'f(x', 'a|b', '**', '.', '', 'a', 'ab', 'abc', 'b', 'xaby', 'a b', 'é', '𝄞', 'a𝄞', 'a\nb', '1', 'A', 'a\\b', '\\', '\\\\', 'a\\xb', '\\d', 'xb']
    ARGS = SUBJ + [0, 1, 1.5, None, True, [], [1], [1, 2], {}, {"a": 1}, {"a": 1, "b": 2}, ["ab"]]
    PATS = ['a', 'ab', 'a|b', 'a.b', '.', '.*', 'a*', '(a|b)+', '[a-c]+', '[^a]', '^a', 'a$', '^ab$', 'é', '𝄞', '', '(', 'a)', '+', 'a{2}', '\\\\.', 'A',
            # not regular expressions, although the anchoring wrapper `^(?:…)$` of match() would turn them into one
            'a)|(b', 'a)(b', ')|(', 'a)b(c', 'x)|(?:a',
            # a parenthesis (or another metacharacter) as a plain member of a class
            '[^)]+', '[(]', '[)]', 'f[(]x', '[^(]', '[()]+', 'a[|]b', '[*]+', '[.]',
            # an escaped backslash in a pattern that comes from the document (4 characters a \\ \\ b: matches the 3 characters a \\ b)
            'a\\\\b', '\\\\', '\\\\\\\\', 'a\\\\.b', '\\\\d']
    for _ in range(N):
        r = rnd.random()
        items = [rnd.choice(ARGS) for _ in range(rnd.choice([2, 3, 5]))]
        if r < 0.2: emit(f"$[?length(@){rnd.choice(['==','<','>=','!='])}{rnd.choice([0,1,2,3,'1.0','2.0','1e0','20e-1'])}]", items)
        elif r < 0.35: emit(f"$[?count({rnd.choice(['@.*','@[0]','@..*','@[5]','@','$[*]','@[0,0]','@[*,*]','@[0,-1,0]','@[0:2,1:]','@..[0,0]','$[0,0,0]','@[*,?@]'])}){rnd.choice(['==','<','>='])}{rnd.choice([0,1,2,3,'2.0','1e0','4','6'])}]", items)
        elif r < 0.5: emit(f"$[?value({rnd.choice(['@.*','@[0]','@..*','@[5]','@','@.a'])}){rnd.choice(['==','!='])}{rnd.choice(['1','null',chr(39)+'ab'+chr(39)])}]", items)
        elif r < 0.6: emit(f"$[?length(@.a)==length(@.b)]", [{"a": rnd.choice(ARGS), "b": rnd.choice(ARGS)} for _ in range(3)])
        elif r < 0.68:
            # the current node occurs only INSIDE a nested function call (a filter wrongly taken for constant is evaluated once)
            form = rnd.choice(["$[?length(value(@.*))=={k}]", "$[?match(value(@.*),'{p}')]", "$[?count(@[?length(value(@.*))>0])>={k}]", "$[?in(length(@), $[0])]", "$[?length(value(@[0]))<{k}]",
                               "$[?search(value(@..a),'{p}')]", "$[?value(@.*)==value($[0].*)]", "$[?!match(value(@.*),'{p}')]", "$[?count(@.*)==count($[0].*) && length(value(@.*))>0]"])
            docs = [[rnd.choice(['a', 'ab', 'abc', 'xx', 1])] if rnd.random() < 0.6 else {"a": rnd.choice(['ab', 'b', 'xaby'])} for _ in range(rnd.choice([3, 4, 5]))]
            emit(form.format(k=rnd.choice([0, 1, 2, 3]), p=rnd.choice(['a.*', 'ab', '.', 'a|b', 'x+'])), [[1, 2, 3]] + docs if 'in(' in form else docs)
        else:
            fn = rnd.choice(['match', 'search']); neg = rnd.choice(['', '', '!'])
            p = rnd.choice(PATS)
            two = rnd.choice(['match', 'search']); op = rnd.choice(['&&', '||']); neg2 = rnd.choice(['', '!'])
            if rnd.random() < 0.3 and "'" not in p and '\\' not in p: emit(f"$.s[?{neg}{fn}(@, '{p}') {op} {neg2}{two}(@, '{p}')]", {"s": items})   # one pattern text under both functions
            elif rnd.random() < 0.5 and "'" not in p and '\\' not in p: emit(f"$.s[?{neg}{fn}(@, '{p}')]", {"s": items})
            else: emit(f"$.s[?{neg}{fn}(@, $.p)]", {"s": items, "p": rnd.choice(PATS + [1, None])})
if kind == 'c15':
    # singular queries of every length, absolute and relative, that exist / half exist in the document; the engine may only walk them through the accessors
    NAMES = ['cfg', 'limits', 'price', 'tiers', 'a', 'b_1', 'x9']
    for _ in range(N):
        k = rnd.choice([1, 2, 3, 4, 5, 5, 6, 6, 7, 8])
        steps = [rnd.choice(NAMES) if rnd.random() < 0.7 else rnd.choice([0, 1, -1]) for _ in range(k)]
        leafv = rnd.choice([1, 2, 'x', None, [1], {"a": 1}, 1.0])
        def build(steps, v):
            for st in reversed(steps):
                if isinstance(st, str): v = {st: v, 'other': 0}
                else: v = [v, 5] if st == 0 else ([5, v])
            return v
        tree = build(steps, leafv)
        sq = ''.join(('.' + st if rnd.random() < 0.6 else "['" + st + "']") if isinstance(st, str) else '[%d]' % st for st in steps)
        cut = rnd.randrange(len(steps) + 1)
        miss = ''.join(('.' + st) if isinstance(st, str) else '[%d]' % st for st in steps[:cut]) + rnd.choice(['.nope', '[9]', ''])
        items = [{"p": 1}, {"p": 2}, {"p": 'x'}, {"p": None}, {"p": [1]}, {"p": {"a": 1}}, {"q": 0}, {"p": tree}]
        op = rnd.choice(['==', '!=', '<', '<=', '>', '>='])
        form = rnd.choice(["$.items[?@.p{op}$.t{sq}]", "$.items[?$.t{sq}{op}@.p]", "$.items[?@.p{op}$.t{miss}]", "$.items[?@.p{sq}{op}$.t{sq}]", "$.items[?$.t{sq}]", "$.items[?length($.t{sq})>=0]", "$.items[?@.p{sq}]",
                           "$.items[?count($.t{sq})==1]", "$.items[?value($.t{sq})==@.p]", "$.items[?in(@.p, $.t{sq})]", "$.t{sq}", "$.items[?@.p{op}$.t{sq} && $.t{miss}]"])
        emit(form.format(op=op, sq=sq, miss=miss), {"t": tree, "items": items})
if kind == 'c13':
    # abstract queries rendered into several spellings: output {"group": id, "q":..., "doc":..., "tdoc":...}
    # names whose first or last character is white space for Unicode but a plain name character for RFC 9535, next to their trimmed forms
    NAMES = ['a', 'b', 'ab', 'c1', '_x', 'é', 'a\u00a0', '\u2003b', 'ab\u3000', 'a\u2028', 'b\u0085', '\ufeffa', '\u1680ab']
    def sqname(): return rnd.choice(NAMES[:3]) if rnd.random() < 0.7 else rnd.choice(NAMES)
    def ws(): return rnd.choice(['', '', ' ', '\t', '\n', '\r', '  '])
    def num_spell(v):  # v in small ints
        if v == 100: return rnd.choice(['100', '1e2', '100.0', '1E+2', '10e1', '1000e-1'])
        if v == 0: return rnd.choice(['0', '-0', '0.0', '-0.0', '0e0', '-0e0', '0.00', '-0.0E+0', '0E-0'])
        return rnd.choice([str(v), f"{v}.0", f"{v}e0", f"{v}E0", f"{v*10}e-1", f"{v}.00"]) if v >= 0 else rnd.choice([str(v), f"{v}.0", f"{v}e0"])
    def name_sel(n, bracket_only=False):
        forms = [f"'{n}'", f'"{n}"']
        return rnd.choice(forms)
    def abstract_atom(d):
        r = rnd.random()
        if r < 0.25: return ('cmp', ('sq', rnd.choice(['@', '$']), [sqname() for _ in range(rnd.choice([0, 1, 2]))]), rnd.choice(['==', '!=', '<', '<=', '>', '>=']), ('num', rnd.choice([0, 0, 1, 2, -1])))
        if r < 0.31: return ('cmp', ('fnv', rnd.choice(['length(@)', 'count(@.*)', 'value(@[0])', 'length(@.a)', 'count(@..*)'])), rnd.choice(['==', '!=', '<', '<=', '>', '>=']), ('num', rnd.choice([0, 1, 2, 3])))
        if r < 0.33 and d < 2: return ('cmp', ('fnq', rnd.choice(['count', 'count', 'value']), ('q', True, [(False, [('filter', [[abstract_atom(d + 1) for _ in range(rnd.choice([1, 2, 3, 3, 4]))] for _ in range(rnd.choice([1, 1, 2, 3]))])])])), rnd.choice(['==', '!=', '<', '>=']), ('num', rnd.choice([0, 1, 2])))
        if r < 0.35: return ('cmp', ('num', rnd.choice([0, 1, 2, 100])), rnd.choice(['==', '!=', '<', '>=']), ('num', rnd.choice([0, 1, 2, 100])))
        if r < 0.6: return ('test', rnd.random() < 0.3, abstract_query(d + 1, True))
        if r < 0.66 and d < 2:
            # negation x parentheses around ONE test: `!(@.a)`, `(!@.a)`, `!(!@.a)` - the spellings add further redundant parentheses
            return ('paren', rnd.random() < 0.6, [[('test', rnd.random() < 0.6, abstract_query(d + 1, True))]])
        if r < 0.8 and d < 2: return ('paren', rnd.random() < 0.3, abstract_logical(d + 1))
        return ('cmp', ('sq', '@', [sqname()]), '==', ('str', rnd.choice(['a', 'b', 'x y'])))
    def abstract_logical(d): return [[abstract_atom(d) for _ in range(rnd.choice([1, 1, 2]))] for _ in range(rnd.choice([1, 1, 2]))]
    def abstract_sel(d):
        r = rnd.random()
        if r < 0.3: return ('name', rnd.choice(NAMES))
        if r < 0.45: return ('wild',)
        if r < 0.6: return ('idx', rnd.choice([0, 1, -1, 2]))
        if r < 0.8: return ('slice', rnd.choice([None, 0, 1, -2]), rnd.choice([None, 1, 2, -1]), rnd.choice([None, 1, 2, -1]))
        if d < 2: return ('filter', abstract_logical(d + 1))
        return ('wild',)
    def abstract_query(d, rel=False):
        return ('q', rel, [(rnd.random() < 0.2, [abstract_sel(d) for _ in range(rnd.choice([1, 1, 1, 2]))]) for _ in range(rnd.choice([0, 1, 2] if d else [1, 2, 3]))])
    def r_sq(sq):
        s = sq[1]
        for n in sq[2]:
            s += ws() + (('.' + n) if rnd.random() < 0.5 else ('[' + name_sel(n) + ']'))
        return s
    def r_operand(o):
        if o[0] == 'sq': return r_sq(o)
        if o[0] == 'fnv': return o[1]
        if o[0] == 'fnq': return o[1] + ws() * 0 + '(' + ws() + r_query(o[2]) + ws() + ')'
        if o[0] == 'num': return num_spell(o[1])
        return rnd.choice(["'%s'", '"%s"']) % o[1]
    def r_atom(a):
        s = r_atom0(a)
        # redundant parentheses (a paren-expr around any sub-expression) never change the meaning
        while rnd.random() < 0.2: s = '(' + ws() + s + ws() + ')'
        return s
    def r_atom0(a):
        if a[0] == 'cmp': return r_operand(a[1]) + ws() + a[2] + ws() + r_operand(a[3])
        if a[0] == 'test': return ('!' + ws() if a[1] else '') + r_query(a[2])
        inner = r_logical(a[2])
        return ('!' + ws() if a[1] else '') + '(' + ws() + inner + ws() + ')'
    def r_logical(l, top=False):
        s = (ws() + '||' + ws()).join((ws() + '&&' + ws()).join(r_atom(a) for a in ands) for ands in l)
        return s
    def r_sel(s):
        if s[0] == 'name': return name_sel(s[1])
        if s[0] == 'wild': return '*'
        if s[0] == 'idx': return str(s[1])
        if s[0] == 'slice':
            a, b, c = s[1:]
            out = ('' if a is None else str(a) + ws()) + ':' + ws() + ('' if b is None else str(b) + ws())
            if c is not None: out += ':' + ws() + str(c)
            elif rnd.random() < 0.3: out += ':'
            return out
        inner = r_logical(s[1])
        if rnd.random() < 0.4: inner = '(' + ws() + inner + ws() + ')'
        return '?' + ws() + inner
    def r_query(q):
        s = '@' if q[1] else '$'
        for desc, sels in q[2]:
            s += ws()
            if len(sels) == 1 and sels[0][0] == 'name' and rnd.random() < 0.5: s += ('..' if desc else '.') + sels[0][1]
            elif len(sels) == 1 and sels[0][0] == 'wild' and rnd.random() < 0.5: s += ('..' if desc else '.') + '*'
            else: s += ('..' if desc else '') + '[' + ws() + (ws() + ',' + ws()).join(r_sel(x) for x in sels) + ws() + ']'
        return s
    SC = [None, True, 0, 0.0, 1, 2, -1, 1.0, 'a', 'b', 'x y']
    def doc(depth=0):
        r = rnd.random()
        if depth >= 3 or r < 0.3: return rnd.choice(SC)
        if r < 0.6: return [doc(depth + 1) for _ in range(rnd.choice([0, 1, 2, 3]))]
        return {k: doc(depth + 1) for k in rnd.sample(NAMES, rnd.choice([0, 1, 2, 3]))}
    def names_in(x, acc):
        if isinstance(x, (list, tuple)):
            if len(x) == 3 and x[0] == 'sq': acc.update(x[2])
            elif len(x) == 2 and x[0] == 'name': acc.add(x[1])
            for y in x: names_in(y, acc)
        return acc
    K = 6
    for g in range(max(1, N // K)):
        aq = abstract_query(0); d = doc()
        if rnd.random() < 0.5:
            # a document made for this query: the names it uses, next to their look-alikes (trimmed of Unicode white space), with different values
            used = sorted(names_in(aq, set())) or ['a']
            pool = sorted(set(used) | {n.strip() for n in used if n.strip()} | {'a', 'b'})
            def obj(depth=0):
                return {k: (rnd.choice([0, 1, 2, -1, 'a', 'b', None]) if depth >= 2 or rnd.random() < 0.6 else rnd.choice([obj(depth + 1), [obj(depth + 1)]])) for k in rnd.sample(pool, rnd.randint(1, min(4, len(pool))))}
            d = [obj() for _ in range(rnd.choice([2, 3, 4]))] if rnd.random() < 0.7 else obj()
            r3 = rnd.random()
            if r3 < 0.15: d = [[obj()], [[obj(), obj()]], d]          # members below arrays nested directly in arrays
            elif r3 < 0.25: d = {rnd.choice(pool): [[obj()]], rnd.choice(pool): d}
        for _ in range(K):
            print(json.dumps({"group": g, "q": r_query(aq), "doc": d, "tdoc": tag(d)}, ensure_ascii=False))
