#!/usr/bin/env python3
"""Small-scope enumeration: gen_small.py <prop> <seed> <n>.
Documents: all trees up to a node budget over a small alphabet; queries: all 1-2 segment queries over a selector
alphabet (names, indices -3..3, slices with bounds in {absent,-3..3}, wildcard, filters from an atom alphabet).
The product is far larger than n, so a seeded sample of n (query, document) pairs is emitted; the thorough tier takes 10x."""
import sys, json, random, itertools
sys.path.insert(0, __import__('os').path.join(__import__('os').path.dirname(__import__('os').path.abspath(__file__)), '..', 'lib'))
from common import tag
prop = sys.argv[1]; rnd = random.Random(int(sys.argv[2]) * 7919 + 13); N = int(sys.argv[3])
LEAVES = [None, True, False, 0, 1, 1.0, -1, 0.5, '', 'a', 'b', [], {}]
def docs(budget):
    """all documents with at most `budget` container children (depth <= 3)"""
    out = list(LEAVES)
    if budget <= 0: return out
    sub = docs(budget - 1) if budget > 1 else LEAVES
    small = [None, 1, 'a', [], {}, [1], {'a': 1}, [1, 'a'], {'a': 1, 'b': [1]}, [[1]], {'a': {'b': 2}}, [0, [1, [2]]], {'b': None}]
    for k in (1, 2, 3):
        for combo in itertools.product(small, repeat=k):
            out.append(list(combo))
    for ks in (['a'], ['b'], ['a', 'b'], ['a', 'b', 'c']):
        for combo in itertools.product(small, repeat=len(ks)):
            out.append(dict(zip(ks, combo)))
    return out
DOCS = docs(2)
NAMES = ['a', 'b', 'c']
IDX = [-3, -2, -1, 0, 1, 2, 3]
BND = [None, -3, -2, -1, 0, 1, 2, 3]
ATOMS = ['@.a', '@[0]', '@.*', '$.a', '!@.a', '@.a==1', '@.a!=1', '@==1', '@<1', '@>=1', "@=='a'", '@.a==@.b', '@[0]<@[1]', '@==null', '@==true',
         '@.a&&@.b', '@.a||@.b', '!(@.a||@.b)', '(@.a)', '@[?@.a]', '@..a', 'length(@)==1', 'count(@.*)==0', 'value(@.*)==1', '@.a==$.a', '1==1.0', '@[-1]==1']
def selectors():
    out = []
    for n in NAMES: out += [f"'{n}'", f'"{n}"']
    out.append('*')
    out += [str(i) for i in IDX]
    for a in BND:
        for b in BND:
            for c in [None, -2, -1, 0, 1, 2]:
                out.append(('' if a is None else str(a)) + ':' + ('' if b is None else str(b)) + ('' if c is None else ':' + str(c)))
    out += ['?' + a for a in ATOMS]
    return out
SELS = selectors()
def segment():
    r = rnd.random()
    if r < 0.15: return rnd.choice(['.', '..']) + rnd.choice(NAMES + ['*'])
    k = 1 if r < 0.7 else (2 if r < 0.93 else 3)
    return ('..' if rnd.random() < 0.15 else '') + '[' + ','.join(rnd.choice(SELS) for _ in range(k)) + ']'
for _ in range(N):
    d = rnd.choice(DOCS)
    q = '$' + ''.join(segment() for _ in range(rnd.choice([1, 1, 2, 2, 3])))
    print(json.dumps({'q': q, 'doc': d, 'tdoc': tag(d)}, ensure_ascii=False))
