#!/usr/bin/env python3
"""C03(c)/C09 support: for generated documents with exotic member names, the Normalized Path of EVERY node, used as a query.
Expected (Spec): exactly that node, reported with exactly that path. gen_paths.py <seed> <n>"""
import sys, json, random, os
sys.path.insert(0, os.path.join(os.path.dirname(os.path.abspath(__file__)), '..', 'lib'))
from common import tag
rnd = random.Random(int(sys.argv[1]) * 31 + 5); N = int(sys.argv[2])
KEYS = ['[?', 'why[?]', '[?@.x]', 'a..b', '[*]', 'a,b', 'a:b', '$', '@', 'a]', '[', ']', '*', '..', 'a.b', '(a)', '!a', 'a&&b', 'a==b', '#', '?'] + ['\x7f', 'a\x7fb', 'a', 'b', 'ab', 'a b', "a'b", 'a"b', '', '0', '1', '10', 'é', '☺', '𝄞', "'a'", '"a"', 'a/b', 'a~b', '~0', '~1', '/', '\\', 'x\ty', 'x\ny', '\u0001', ' a', 'a ', '-1', '01', 'a.b', '[0]', '$', '@', '*', 'a ', ' ']
SCAL = [None, True, 0, 1, 'a', 1.5]
def doc(depth=0):
    r = rnd.random()
    if depth >= 3 or r < 0.3: return rnd.choice(SCAL)
    if r < 0.55: return [doc(depth + 1) for _ in range(rnd.choice([0, 1, 2, 3]))]
    pool = ['a', 'b', 'ab', 'a b', "a'b", 'a"b', '', '0'] if rnd.random() < 0.5 else KEYS
    return {k: doc(depth + 1) for k in rnd.sample(pool, rnd.choice([0, 1, 2, 3, 4]))}
def locs(v, l, acc):
    acc.append(l)
    if isinstance(v, list):
        for i, x in enumerate(v): locs(x, l + [i], acc)
    elif isinstance(v, dict):
        for k, x in v.items(): locs(x, l + [k], acc)
    return acc
def esc(k):
    out = ''
    for c in k:
        o = ord(c)
        if c == "'": out += "\\'"
        elif c == '\\': out += '\\\\'
        elif o == 8: out += '\\b'
        elif o == 12: out += '\\f'
        elif c == '\n': out += '\\n'
        elif c == '\r': out += '\\r'
        elif c == '\t': out += '\\t'
        elif o < 0x20: out += '\\u%04x' % o
        else: out += c
    return out
def npath(l): return '$' + ''.join(("['%s']" % esc(s)) if isinstance(s, str) else ('[%d]' % s) for s in l)
n = 0
while n < N:
    d = doc()
    for l in locs(d, [], []):
        print(json.dumps({'q': npath(l), 'doc': d, 'tdoc': tag(d)}, ensure_ascii=False)); n += 1
        if n >= N: break
