import random, sys, json
from fractions import Fraction
rnd = random.Random(int(sys.argv[1])); N = int(sys.argv[2])
KEYS = ['[?', 'why[?]', '[?@.x]', 'a..b', '[*]', 'a,b', 'a:b', '$', '@', 'a]', '[', ']', '*', '..', 'a.b', '(a)', '!a', 'a&&b', 'a==b', '#', '?'] + ['5"','5','"wide"','wide','"','x"','"x','x','a','b','ab','a b',"a'b",'a"b','','0','1','10','é','☺',"'a'",'a/b','a~b','~0','~1','/','\\','x\ty',' a','a ','-1','01']
SCAL = [None, True, False, 0, 1, -1, 1.5, '', 'a', 'NEW']
def doc(depth=0):
    r = rnd.random()
    if depth >= 3 or r < 0.3: return rnd.choice(SCAL)
    if r < 0.6: return [doc(depth+1) for _ in range(rnd.choice([0,1,2,3]))]
    return {k: doc(depth+1) for k in rnd.sample(KEYS, rnd.choice([0,1,2,3,4]))}
def tag(v):
    if v is None: return None
    if v is True or v is False: return {"b": v}
    if isinstance(v, int): return {"i": str(v)}
    if isinstance(v, float):
        f = Fraction(v); return {"f": [str(f.numerator), str(f.denominator)]}
    if isinstance(v, str): return {"s": [ord(c) for c in v]}
    if isinstance(v, list): return {"a": [tag(x) for x in v]}
    return {"o": [[[ord(c) for c in k], tag(x)] for k, x in sorted(v.items(), key=lambda kv: kv[0].encode('utf-8'))]}
def locs(v, l, acc):
    acc.append(l)
    if isinstance(v, list):
        for i, x in enumerate(v): locs(x, l + [i], acc)
    elif isinstance(v, dict):
        for k, x in v.items(): locs(x, l + [k], acc)
    return acc
def esc(k):
    out = ''
    for c in k:
        o = ord(c)
        if c == "'": out += "\\'"
        elif c == '\\': out += '\\\\'
        elif o == 8: out += '\\b'
        elif o == 12: out += '\\f'
        elif c == '\n': out += '\\n'
        elif c == '\r': out += '\\r'
        elif c == '\t': out += '\\t'
        elif o < 0x20: out += '\\u%04x' % o
        else: out += c
    return out
def npath(l): return '$' + ''.join(("['%s']" % esc(s)) if isinstance(s, str) else ('[%d]' % s) for s in l)
for _ in range(N):
    d = doc()
    ls = locs(d, [], [])
    l = list(rnd.choice(ls))
    kind = 'existing'
    r = rnd.random()
    if r < 0.25 and l:   # near miss: perturb one step
        i = rnd.randrange(len(l))
        s = l[i]
        l[i] = rnd.choice([0, 1, 5, '0', '1', 'a', 'zz']) if rnd.random() < 0.8 else (str(s) if isinstance(s, int) else (int(s) if s.isdigit() and not s.startswith('0') or s == '0' else 'q'))
    elif r < 0.35: l = l + [rnd.choice([0, 'a', '0'])]
    def at(v, l):
        for st in l:
            if isinstance(st, int) and not isinstance(st, bool) and isinstance(v, list) and 0 <= st < len(v): v = v[st]
            elif isinstance(st, str) and isinstance(v, dict) and st in v: v = v[st]
            else: return False
        return True
    kind = 'existing' if at(d, l) else 'missing'
    path = npath(l)
    loc = l
    if rnd.random() < 0.05: kind = 'other'; loc = None; path = rnd.choice(['$[*]', '$..a', '$[0,1]', '$[0:1]', 'x', '$[-1]', '$["a"]', '$.a', '$. a', "$['a' ]", '$[01]'])
    nv = rnd.choice(['NEW', 7, [1], {"k": None}])
    tloc = None if loc is None else [({"k": [ord(c) for c in st]} if isinstance(st, str) else {"i": st}) for st in loc]
    print(json.dumps({"doc": d, "tdoc": tag(d), "path": path, "new": nv, "tnew": tag(nv), "kind": kind, "loc": loc, "tloc": tloc}, ensure_ascii=False))
