#!/usr/bin/env python3
"""C08: integer extremes in every integer position, scalar/empty documents. gen_extreme.py <seed> <n>"""
import sys, json, random, os
sys.path.insert(0, os.path.join(os.path.dirname(os.path.abspath(__file__)), '..', 'lib'))
from common import tag
rnd = random.Random(int(sys.argv[1]) * 17 + 3); N = int(sys.argv[2])
M = 2 ** 53 - 1
INTS = [0, 1, -1, 2, -2, M, -M, M - 1, -M + 1, M + 1, -M - 1, 2 ** 63 - 1, -2 ** 63, 2 ** 63, -2 ** 63 - 1, 2 ** 64, 10 ** 20, -10 ** 20, 2 ** 31, -2 ** 31, 2 ** 32]
NUMS = [str(i) for i in INTS] + ['1e400', '-1e400', '1e-400', '0.1e1', '9223372036854775807.0', '1E+19', '-0', '-0.0', '0e0', '123456789012345678901234567890',
                                    '1e2147483647', '1e2147483648', '1e99999999999', '1e-2147483649', '1e-99999999999', '1E+4294967296', '0e99999999999999999999', '1e18446744073709551616', '1.5e9223372036854775808',
                                    '0.' + '0' * 400 + '1', '1' + '0' * 400, '1' + '0' * 400 + '.5', '-1e-400', '4.9e-324', '2e-324']
DOCS = [None, True, 0, 1.5, '', 'abc', [], {}, [0], [0, 1, 2], {'a': 1}, [[]], [{}], {'a': []}, list(range(10)), [[1, 2], [3, 4]], {'a': {'a': {'a': 1}}}, ['𝄞', 'é']]
def i(): return str(rnd.choice(INTS))
def sl():
    o = lambda: rnd.choice(['', i()])
    return o() + ':' + o() + rnd.choice(['', ':' + o()])
def q():
    r = rnd.random()
    pre = rnd.choice(['$', '$', '$..', '$[*]', '$.a'])
    if pre == '$..': pre = '$..' ; br = True
    if r < 0.2: return pre.rstrip('.') + ('..' if pre.endswith('..') else '') + '[' + i() + ']'
    if r < 0.45: return pre.rstrip('.') + ('..' if pre.endswith('..') else '') + '[' + sl() + ']'
    if r < 0.55: return '$[' + ','.join(rnd.choice([i(), sl()]) for _ in range(3)) + ']'
    if r < 0.7: return '$[?@[' + i() + ']' + rnd.choice(['==', '<', '>=']) + rnd.choice(NUMS) + ']'
    if r < 0.8: return '$[?@' + rnd.choice(['==', '!=', '<', '<=', '>', '>=']) + rnd.choice(NUMS) + ']'
    if r < 0.86: return '$[?$[' + i() + '][' + i() + ']==@[' + i() + ']]'
    if r < 0.92: return '$[?length(@)' + rnd.choice(['==', '<']) + rnd.choice(NUMS) + ']'
    if r < 0.96: return '$[?count(@[' + sl() + '])==' + i() + ']'
    return '$[?' + rnd.choice(NUMS) + rnd.choice(['==', '<']) + rnd.choice(NUMS) + ']'
for _ in range(N):
    d = rnd.choice(DOCS)
    print(json.dumps({'q': q(), 'doc': d, 'tdoc': tag(d)}, ensure_ascii=False))
