import random, sys, json
rnd = random.Random(int(sys.argv[1])); N = int(sys.argv[2])
ALPHA = ['a','b','c','ab','.','\\.','\\|','\\(','\\\\','é','𝄞',' ']
def atom(d):
    r = rnd.random()
    if r < 0.45: return rnd.choice(['a','b','c','é','𝄞',' ','x'])
    if r < 0.55: return '.'
    if r < 0.62: return rnd.choice(['\\.','\\|','\\(','\\)','\\*','\\\\','\\$','\\^','\\[','\\/'])
    if r < 0.75: return rnd.choice(['[abc]','[a-c]','[^a]','[^a-b]','[ab-c]','[\\]a]','[a\\-b]','[z-a]','[(]','[)]','[^)]','[^(]','[()]','[|]','[*+?]','[.]','[$]','[a(]','[)b]','[{}]'])
    if r < 0.80: return rnd.choice(['^','$'])
    if d < 3: return rnd.choice(['(','(?:']) + alt(d+1) + ')'
    return 'a'
def rep(d):
    a = atom(d)
    r = rnd.random()
    if r < 0.25: a += rnd.choice(['*','+','?'])
    if r < 0.03: a += rnd.choice(['*','+','?'])
    return a
def seq(d): return ''.join(rep(d) for _ in range(rnd.choice([0,1,1,2,2,3])))
def alt(d): return '|'.join(seq(d) for _ in range(rnd.choice([1,1,1,2,3])))
def broken(p):
    r = rnd.random()
    if r < 0.3: return p + rnd.choice(['(',')','[','*','\\','{2}','a{1,2}','(?i)a','\\d','\\w+','a*?'])
    if r < 0.5: return rnd.choice(['*','+','?',')','a)(?:b', 'a)|(', ')|(', 'x)(']) + p
    if r < 0.6: return p + rnd.choice([')|(b', ')(', ')|(?:a'])
    return p
def subject():
    return ''.join(rnd.choice(['a','b','c','x','é','𝄞',' ','\n','.','|','(',')','\\','$','^','ab','','*','+','?','{','}']) for _ in range(rnd.choice([0,1,1,2,2,3,4])))
SPECIAL = ['(?x)a#c', 'a(?x)#', '(?x)#', '(?x) a b #c', '(' * 249 + 'a' + ')' * 249, '(' * 250 + 'a' + ')' * 250, '(' * 251 + 'a' + ')' * 251, '(?:' * 250 + 'a' + ')' * 250, 'a{1000}', '(a{100}){100}', '\\pL', '[[:alpha:]]', '(?i)a', 'a#c']
for _ in range(N):
    p = alt(0)
    if rnd.random() < 0.01: p = rnd.choice(SPECIAL)
    if rnd.random() < 0.15: p = broken(p)
    print(json.dumps({"s": subject(), "p": p, "sub": rnd.random() < 0.5}, ensure_ascii=False))
