import random, sys, json
from fractions import Fraction
rnd = random.Random(int(sys.argv[1]))
N = int(sys.argv[2])
KEYS = ['[?', 'why[?]', '[?@.x]', 'a..b', '[*]', 'a,b', 'a:b', '$', '@', 'a]', '[', ']', '*', '..', 'a.b', '(a)', '!a', 'a&&b', 'a==b', '#', '?'] + ['a','b','c','ab','a b',"a'b",'a"b','','0','1','é','☺',"'a'",'a/b','a~b','\\','x\ty',' a','a ', '\x7f', 'a\x7fb', '"a"']
PUNCT = ['.', '[', ']', '.[', '][', "']", "['", ',', ':', '*', '?', '@', '$', '0', '1', '10', 'a', 'b', ' ', '-', '..']
PLAIN8 = ['a','b','c','ab','a b',"a'b",'a"b','']
SCAL = [None, True, False, 0, 1, -1, 2, 3, 10, 1.0, 0.5, -0.5, 2.0, 1.5, 100.0, 2.0**-60, 0.0, '', 'a', 'b', 'ab', 'é', '𝄞', 'A', 'a b', '1']
def doc(depth=0):
    r = rnd.random()
    if depth >= 3 or r < 0.35: return rnd.choice(SCAL)
    if r < 0.68: return [doc(depth+1) for _ in range(rnd.choice([0,1,2,2,3,4]))]
    r2 = rnd.random()
    if r2 < 0.75: ks = rnd.sample(PLAIN8, rnd.choice([0,1,2,2,3]))
    elif r2 < 0.9: ks = rnd.sample(KEYS, rnd.choice([0,1,2,2,3]))
    else:
        # names spelt with the punctuation of paths: whatever rewrites a path or a name as TEXT (instead of building it from steps) trips here
        ks = list({''.join(rnd.choice(PUNCT) for _ in range(rnd.choice([1, 2, 2, 3, 4]))) for _ in range(rnd.choice([1, 2, 3]))})
    return {k: doc(depth+1) for k in ks}
def tag(v):
    if v is None: return None
    if v is True or v is False: return {"b": v}
    if isinstance(v, int): return {"i": str(v)}
    if isinstance(v, float):
        f = Fraction(v); return {"f": [str(f.numerator), str(f.denominator)]}
    if isinstance(v, str): return {"s": [ord(c) for c in v]}
    if isinstance(v, list): return {"a": [tag(x) for x in v]}
    return {"o": [[[ord(c) for c in k], tag(x)] for k, x in sorted(v.items(), key=lambda kv: kv[0].encode('utf-8'))]}
def keys_of(v, acc):
    if isinstance(v, dict):
        for k, x in v.items(): acc.add(k); keys_of(x, acc)
    elif isinstance(v, list):
        for x in v: keys_of(x, acc)
    return acc
def ws(): return rnd.choice(['', '', '', ' ', '\t', '\n'])
def qname(k):
    # plain spelling choices; no escapes unless needed
    if k.isidentifier() and k.isascii() and rnd.random() < 0.4: return None
    if "'" not in k and '\\' not in k and all(ord(c) >= 32 for c in k):
        if rnd.random() < 0.7: return "'" + k + "'"
    if '"' not in k and '\\' not in k and all(ord(c) >= 32 for c in k): return '"' + k + '"'
    return "'" + k.replace('\\','\\\\').replace("'", "\\'").replace('\t','\\t') + "'"
def integer(): return str(rnd.choice([0,0,1,1,2,3,-1,-1,-2,-3,5,-5,9007199254740991,-9007199254740991]))
def num(): return rnd.choice(['0','1','-1','2','3','1.0','0.5','1.5','1e0','1E1','100','1e2','-0.5','2.0','0.0','-0','10'])
def strl(): 
    s = rnd.choice(['a','b','ab','','é','A','a b','1','𝄞'])
    return rnd.choice(["'%s'", '"%s"']) % s
def lit(): return rnd.choice([num(), num(), strl(), strl(), 'true','false','null'])
def singular(ks):
    s = rnd.choice(['@','@','@','$'])
    for _ in range(rnd.choice([0,1,1,2])):
        if rnd.random() < 0.6:
            k = rnd.choice(ks); qn = qname(k)
            s += ('.' + k) if qn is None else ('[' + qn + ']')
        else: s += '[' + integer() + ']'
    return s
QPAT = ['a']
def fn(ks, d, kind):
    if kind == 'value':
        f = rnd.choice(['length','count','value'])
        if f == 'length': return 'length(' + ws() + rnd.choice([singular(ks), strl(), fquery(ks, d+1, True), 'value(' + fquery(ks, d+1, True) + ')', 'value(' + fquery(ks, d+1, True) + ')']) + ws() + ')'
        return f + '(' + fquery(ks, d+1, rnd.random()<0.8) + ')'
    f = rnd.choice(['in','nin','any_of','none_of','subset_of','foo','match','search','match','search'])
    if f in ('match', 'search'):
        # one pattern per query (QPAT), so that the same text can occur under `match` and under `search` of one evaluation
        return f + '(' + rnd.choice([singular(ks), singular(ks), '@', strl()]) + ws() + ',' + ws() + "'" + QPAT[0] + "'" + ')'
    return f + '(' + rnd.choice([singular(ks), lit(), fquery(ks,d+1,True)]) + ws() + ',' + ws() + rnd.choice([singular(ks), '$', fquery(ks,d+1,False)]) + ')'
def comparable(ks, d):
    r = rnd.random()
    if r < 0.4: return lit()
    if r < 0.85: return singular(ks)
    return fn(ks, d, 'value')
def atom(ks, d):
    r = rnd.random()
    if r < 0.45: return comparable(ks, d) + ws() + rnd.choice(['==','!=','<','<=','>','>=']) + ws() + comparable(ks, d)
    if r < 0.75: return rnd.choice(['','','!']) + fquery(ks, d+1, rnd.random()<0.8)
    if r < 0.85: return rnd.choice(['','!']) + fn(ks, d, 'logical')
    if d < 2: return rnd.choice(['','!']) + '(' + logical(ks, d+1) + ')'
    return singular(ks)
def logical(ks, d):
    return (ws()+'||'+ws()).join((ws()+'&&'+ws()).join(atom(ks, d) for _ in range(rnd.choice([1,1,1,2]))) for _ in range(rnd.choice([1,1,1,2])))
def selector(ks, d):
    r = rnd.random()
    if r < 0.25:
        return qname(rnd.choice(ks)) or "'a'"
    if r < 0.37: return '*'
    if r < 0.55: return integer()
    if r < 0.75:
        o = lambda: rnd.choice(['', integer()])
        return o() + ':' + o() + rnd.choice(['', ':' + o()])
    if d < 2: return '?' + ws() + logical(ks, d+1)
    return '*'
def segment(ks, d):
    r = rnd.random()
    if r < 0.25:
        k = rnd.choice([k for k in ks if k.isidentifier() and k.isascii()] or ['a'])
        return rnd.choice(['.', '..']) + rnd.choice([k, k, '*'])
    pre = '..' if rnd.random() < 0.15 else ''
    sels = [selector(ks, d) for _ in range(rnd.choice([1,1,1,2,3]))]
    if rnd.random() < 0.12:
        # the same selector (also the same filter) once more in the union, next to its twin or with others in between
        dup = rnd.choice(sels); sels.insert(rnd.randrange(len(sels) + 1), dup if rnd.random() < 0.7 else dup.replace(' ', ''))
    return pre + '[' + ws() + (ws()+','+ws()).join(sels) + ws() + ']'
def fquery(ks, d, rel):
    s = '@' if rel else '$'
    for _ in range(rnd.choice([0,1,1,2])): s += segment(ks, d)
    return s
def deep(d):
    """wrap a small document in many container levels: behaviour must not change with nesting depth"""
    k = rnd.choice([5, 20, 31, 32, 33, 50, 63, 64, 65, 70, 80, 100, 127, 128, 129, 130, 200, 255, 256, 257, 300])
    for i in range(k):
        # beyond serde_json's own nesting limit the harness rebuilds the outer levels in code: those are single-child containers
        d = [d] if rnd.random() < 0.7 else ({'a': d} if rnd.random() < 0.7 or i >= 50 else [0, d])
    return d
for _ in range(N):
    d = doc()
    QPAT[0] = rnd.choice(['a', 'b', 'ab', 'a.*', '[ab]+', 'b|a', '.', 'é', 'a?b', 'a b', '1'])
    if rnd.random() < 0.03:
        d = deep(rnd.choice([[{"id": 1}, {"id": 2}, {"id": 3}], {"a": {"b": 1}, "c": {"b": 2}, "b": 3}, [[1, 2], [3, [4, 5]]], d]))
        q = rnd.choice(['$..id', '$..b', '$..*', '$..[0]', '$..[*]', '$..[?@.id]', "$..['a']", '$..[-1]', '$..[::-1]', '$..a..b'])
        print(json.dumps({"q": q, "doc": d, "tdoc": tag(d)}, ensure_ascii=False)); continue
    if rnd.random() < 0.07:
        # plain chains of names and indices in exact spelling (no blanks), leading to an existing node, to a sibling that does not exist, or applying
        # a name to an array / an index to an object: the shape any "fast path for simple queries" would be written for
        def locs(v, l, acc):
            acc.append(l)
            if isinstance(v, list):
                for i, x in enumerate(v): locs(x, l + [i], acc)
            elif isinstance(v, dict):
                for k, x in v.items(): locs(x, l + [k], acc)
            return acc
        l = list(rnd.choice(locs(d, [], [])))
        if l and rnd.random() < 0.3:
            i = rnd.randrange(len(l)); l[i] = str(l[i]) if isinstance(l[i], int) else (int(l[i]) if l[i].isdigit() else rnd.choice([0, 1, 'zz', '"' + l[i] + '"']))
        def step(st):
            if isinstance(st, int): return '[%d]' % st
            if "'" in st or '\\' in st or any(ord(c) < 32 for c in st): return '["' + st + '"]' if '"' not in st and '\\' not in st and all(ord(c) >= 32 for c in st) else '[0]'
            r = rnd.random()
            if r < 0.6: return "['" + st + "']"
            if r < 0.8 and '"' not in st: return '["' + st + '"]'
            if st.isidentifier() and st.isascii(): return '.' + st
            return "['" + st + "']"
        q = '$' + ''.join(step(st) for st in l)
        print(json.dumps({"q": q, "doc": d, "tdoc": tag(d)}, ensure_ascii=False)); continue
    if rnd.random() < 0.03:
        # wide unions (8, 9, 16, 17, 32, 33 selectors) over one or several input nodes: any table, small-vector or hash-based shortcut has a size where it switches
        n = rnd.choice([8, 9, 10, 12, 16, 17, 32, 33])
        names = ['a', 'b', 'c', 'd', 'e', 'f', 'g', 'h', 'i', 'j', 'k', 'l']
        kind = rnd.choice(['names', 'names', 'indices', 'mixed'])
        if kind == 'names': sels = ["'%s'" % rnd.choice(names[:rnd.choice([3, 10, 12])]) for _ in range(n)] if rnd.random() < 0.4 else ["'%s'" % x for x in (names * 3)[:n]]
        elif kind == 'indices': sels = [str(rnd.choice([0, 1, 2, -1, -2, 3])) for _ in range(n)]
        else: sels = [rnd.choice(["'a'", "'b'", '0', '1', '-1', '*', '0:2', "'c'"]) for _ in range(n)]
        obj = lambda: {k: rnd.choice([1, 2, 'x', None, [1]]) for k in rnd.sample(names, rnd.choice([2, 5, 10, 12]))}
        dd = rnd.choice([[obj(), obj(), obj()], {'p': obj(), 'q': obj()}, obj(), [[1, 2, 3], [4, 5], obj()]])
        q = rnd.choice(['$[*]', '$..', '$', '$[*]', '$.*']) + '[' + ','.join(sels) + ']'
        print(json.dumps({"q": q, "doc": dd, "tdoc": tag(dd)}, ensure_ascii=False)); continue
    ks = sorted(keys_of(d, set())) or ['a']
    if rnd.random() < 0.3: ks = ks + ['zz']
    q = '$'
    for _ in range(rnd.choice([0,1,1,2,2,3])): q += ws() + segment(ks, 0)
    print(json.dumps({"q": q, "doc": d, "tdoc": tag(d)}, ensure_ascii=False))
