import random, sys
rnd = random.Random(int(sys.argv[1]) if len(sys.argv)>1 else 1)
WS = [' ', '\\T', '\\N', '\\R', '  ']
def ws(p=0.25):
    return rnd.choice(WS) if rnd.random()<p else ''
def name():
    return rnd.choice(['a','b','ab','a1','_x','é','☺','a b','','0',"a'b",'a"b','\\\\','\\n','\\/','\\u0041','\\uD83D\\uDE00','\\u00e9','\\ n','x y','. ','Mr. X',' .','a .b','[ 0]','a, b','@ .a','length (','a == b'])
def strlit():
    n = name()
    q = rnd.choice(["'", '"'])
    return q + n + q
def integer():
    return rnd.choice(['0','1','-1','2','10','-0','01','9007199254740991','9007199254740992','-9007199254740991','1 2','- 1','3'])
def number():
    return rnd.choice(['0','1','-1','1.5','-0','-0.0','1e2','1E+2','1.5e-3','1.','.5','01','1 .5','1e','100','1.0','0.0',
                       '1e2147483648','1e99999999999','1e-99999999999','1E+4294967296','1e400','1e-400','0e99999999999999999999'])
def literal():
    return rnd.choice([number(), strlit(), 'true','false','null','True','nul'])
def singular():
    s = rnd.choice(['@','$'])
    for _ in range(rnd.randint(0,3)):
        s += ws(0.15)
        r = rnd.random()
        if r<0.4: s += '.' + ws(0.1) + rnd.choice(['a','b','ab','é','a1'])
        elif r<0.7: s += '[' + ws(0.15) + strlit() + ws(0.15) + ']'
        else: s += '[' + ws(0.15) + integer() + ws(0.15) + ']'
    return s
def fn(depth):
    nm = rnd.choice(['length','count','value','match','search','in','foo','l','le ngth','x_1'])
    nargs = rnd.choice([0,1,1,2,2,3])
    args = []
    for _ in range(nargs):
        r = rnd.random()
        if r<0.3: args.append(literal())
        elif r<0.7: args.append(query(depth+1, rel=True))
        elif r<0.85: args.append(fn(depth+1))
        else: args.append(logical(depth+1))
    return nm + ws(0.1) + '(' + ws() + (ws()+','+ws()).join(args) + ws() + ')'
def comparable(depth):
    r = rnd.random()
    if r<0.4: return literal()
    if r<0.8: return singular()
    return fn(depth)
def atom(depth):
    r = rnd.random()
    if r<0.35:
        return comparable(depth) + ws() + rnd.choice(['==','!=','<','<=','>','>=','=','in','< =']) + ws() + comparable(depth)
    if r<0.6:
        return rnd.choice(['','','!','! ','!!']) + query(depth+1, rel=rnd.random()<0.7)
    if r<0.75:
        return rnd.choice(['','!']) + fn(depth)
    if depth<3:
        return rnd.choice(['','!','! ']) + '(' + ws() + logical(depth+1) + ws() + ')'
    return singular()
def logical(depth):
    ors = []
    for _ in range(rnd.choice([1,1,1,2,3])):
        ands = [atom(depth) for _ in range(rnd.choice([1,1,2,3]))]
        ors.append((ws()+'&&'+ws()).join(ands))
    return (ws()+'||'+ws()).join(ors)
def selector(depth):
    r = rnd.random()
    if r<0.25: return strlit()
    if r<0.35: return '*'
    if r<0.55: return integer()
    if r<0.8:
        return rnd.choice(['',integer()]) + ws() + ':' + ws() + rnd.choice(['',integer()]) + ws() + rnd.choice(['', ':'+ws()+rnd.choice(['',integer()])])
    if depth<3: return '?' + ws() + logical(depth+1)
    return '*'
def segment(depth):
    r = rnd.random()
    if r<0.3: return '.' + ws(0.08) + rnd.choice(['a','b','ab','*','é','a1','1','a-b'])
    if r<0.4: return '..' + ws(0.08) + rnd.choice(['a','*','[0]',"['a']"])
    sels = [selector(depth) for _ in range(rnd.choice([1,1,1,2,3]))]
    pre = '..' if rnd.random()<0.15 else ''
    return pre + '[' + ws() + (ws()+','+ws()).join(sels) + ws() + ']'
def query(depth=0, rel=False):
    s = '@' if rel else '$'
    for _ in range(rnd.randint(0,3 if depth else 4)):
        s += ws(0.15) + segment(depth)
    return s
def mutate(s):
    if not s: return s
    r = rnd.random()
    i = rnd.randrange(len(s))
    if r<0.3: return s[:i]+s[i+1:]
    if r<0.6: return s[:i]+rnd.choice([' ','\\T',',','.','[',']','(',')','?','!','@','$','*',':','0','1','a',"'",'"','\\\\','=','<','&','|','-'])+s[i:]
    if r<0.8: return s[:i]+rnd.choice(['x','1',' ',']'])+s[i+1:]
    return s
def longtext():
    # long runs of multi-byte characters: error messages and diagnostics that cut the query text at a byte offset must not split a character
    return ''.join(rnd.choice(['é', 'é', '☺', '𝄞', 'a', '퟿', 'ß']) for _ in range(rnd.choice([15, 24, 40, 47, 48, 49, 64, 100])))
def near_error():
    u = longtext()
    return rnd.choice(['$. ' + u, '$.. ' + u, '$[?@. ' + u + ' == 1]', '$[?match (@.a,"' + u + '")]', '$.' + u + ' .', '$[?@.' + u + '. x]', "$['" + u + "' x]", '$.' + u + '[', '$[?@.' + u + ' = 1]',
                       '$[?length (@.' + u + ')==1]', "$[?@.a=='" + u + "' &]", '$.' + u + '..', '$ .' + u + ' ', '$[?count(@.' + u + ' )>1 |]', '$..[' + u + ']', u, '$[' + "'" + u, '$.' + u, "$['" + u + "']", '$[?@.' + u + "=='" + u + "']"])
n = int(sys.argv[2]) if len(sys.argv)>2 else 1000
for k in range(n):
    if rnd.random() < 0.03: print(near_error()); continue
    q = query()
    if rnd.random()<0.35: q = mutate(q)
    if rnd.random()<0.05: q = ws(1)+q
    print(q)
