#!/usr/bin/env python3
"""Size sweep: one dimension at a time (array length, object width, string / name length, union width, segment count, number of results,
digits of a number) takes the values around powers of two where small-vector, chunked, table-driven or "fast path below N" code switches
behaviour; the queries are simple but result-revealing.  gen_sizes.py <seed> <max>"""
import sys, json, random, os
sys.path.insert(0, os.path.join(os.path.dirname(os.path.abspath(__file__)), '..', 'lib'))
from common import tag
rnd = random.Random(int(sys.argv[1])); MAX = int(sys.argv[2]) if len(sys.argv) > 2 else 1025
SIZES = [n for n in [7, 8, 9, 15, 16, 17, 31, 32, 33, 63, 64, 65, 127, 128, 129, 255, 256, 257, 511, 512, 513, 1023, 1024, 1025, 2047, 2048, 2049, 4095, 4096, 4097] if n <= MAX]
def emit(q, d): print(json.dumps({"q": q, "doc": d, "tdoc": tag(d)}, ensure_ascii=False))
for n in SIZES:
    arr = list(range(n)); big = n > 520
    obj = {'k%04d' % i: i for i in range(n)}
    # array length
    for q in ['$[-1]', '$[%d]' % (n - 1), '$[%d]' % n, '$[-%d]' % n, '$[%d:]' % (n - 3), '$[:-%d]' % (n - 2), '$[::%d]' % (n - 1), '$[::-%d]' % (n // 2), '$[?@==%d]' % (n - 1), '$[?@>%d]' % (n - 3),
              '$[%d,%d,0]' % (n - 1, n - 2), '$[?@>=%d || @<1]' % (n - 1)]:
        emit(q, arr)
    emit('$[?length(@)==%d]' % n, [arr, arr[:-1], obj]); emit('$[?count(@.*)==%d]' % n, [arr, arr[:-1], obj]); emit('$[?count(@[*])>%d]' % (n - 1), [arr, arr[:-1]])
    emit('$[?@[%d]==%d]' % (n - 1, n - 1), [arr, arr[:-1]]); emit('$[?@[-%d]==0]' % n, [arr, arr[:-1]])
    if not big: emit('$[*]', arr); emit('$[::-1]', arr); emit('$..*', [arr]); emit('$[?@>=0]', arr); emit('$.*', obj); emit('$[?@>=0]', obj)
    # object width
    for q in ["$['k%04d']" % (n - 1), '$.k%04d' % (n // 2), "$['k%04d','k0000']" % (n - 1), '$[?@==%d]' % (n - 1), "$..['k%04d']" % (n - 1), '$[?@>%d]' % (n - 3)]:
        emit(q, obj)
    emit('$.x[?@==$.y]', {'x': [obj, dict(list(obj.items())[:-1]), arr, arr[:-1]], 'y': obj}); emit('$.x[?@==$.y]', {'x': [arr, arr[:-1], obj], 'y': arr})
    # string and name length
    sx = 'x' * n; name = 'n' * n
    emit("$[?@=='%s']" % sx, [sx, sx[:-1], sx + 'x']); emit('$[?length(@)==%d]' % n, [sx, sx[:-1], 'é' * n, '𝄞' * n]); emit("$[?match(@,'x*')]", [sx, sx + 'y']); emit("$[?search(@,'y')]", [sx, sx + 'y'])
    emit("$[?@<'%s']" % (sx[:-1] + 'y'), [sx, sx[:-1] + 'z', sx[:-1]]); emit("$['%s']" % name, {name: 1, name[:-1]: 2}); emit('$.%s' % name, {name: 1, name + 'n': 2}); emit('$..%s' % name, [{name: 1}, {name[:-1]: 2}])
    emit("$[?@.%s==1]" % name, [{name: 1}, {name[:-1]: 1}]); emit("$[?@['%s']]" % name, [{name: None}, {name + 'n': 1}])
    # union width, segment count, number of results
    if n <= 1025:
        emit('$[' + ','.join(str(i % 5) for i in range(n)) + ']', [10, 11, 12, 13, 14]); emit('$[' + ','.join("'%s'" % ('ab'[i % 2]) for i in range(n)) + ']', {'a': 1, 'b': 2})
        emit('$[' + ','.join(['0', '*', "'a'", '0:2'][i % 4] for i in range(n)) + ']', [1, 2]); emit('$[?count(@[' + ','.join('0' for _ in range(n)) + '])==%d]' % n, [[1], []])
    if n <= 260:
        d = 0
        for _ in range(n): d = {'a': d}
        emit('$' + '.a' * n, d); emit('$' + "['a']" * n, d); emit('$' + '.a' * (n - 1) + '.*', d); emit('$[?@' + '.a' * (n - 1) + '==0]', [d['a'], 0])
        emit('$[?' + '&&'.join('@>=%d' % i for i in range(n)) + ']', [n - 1, n - 2, n]); emit('$[?' + '||'.join('@==%d' % i for i in range(n)) + ']', [n - 1, n, -1])
    # digits of numbers
    for k in (15, 16, 17, 18, 19):
        v = int('9' * k); 
        if v < 2 ** 63: emit('$[?@==$[0]]', [v, v - 1, v + 1 if v + 1 < 2 ** 63 else v]); 
