#!/usr/bin/env python3
"""C09: sequences of updates through the paths ONE query returned. gen_refseq.py <seed> <n> -> {"q","doc","tdoc","news","tnews"}"""
import sys, json, random, os, subprocess
sys.path.insert(0, os.path.join(os.path.dirname(os.path.abspath(__file__)), '..', 'lib'))
from common import tag
seed = int(sys.argv[1]); rnd = random.Random(seed * 13 + 1); N = int(sys.argv[2])
here = os.path.dirname(os.path.abspath(__file__))
pool = [json.loads(l) for l in subprocess.run(['python3', os.path.join(here, 'gen_eval.py'), str(seed + 77), str(N)], capture_output=True, text=True).stdout.splitlines()]
NEW = ['NEW', 7, [1], {"k": None}, None, True, "x", [[2]], {"a": {"b": 1}}, 0.5]
EXTRA = ['$[*]', '$..*', '$.*', '$[0,1]', '$..[0]', '$[?@.a]', '$..a', '$[::2]', '$[-1]', '$..[?@==1]', '$.a.b', "$['a']['b']", '$[1:]', '$..[*]']
for c in pool:
    if len(json.dumps(c['doc'])) > 400: continue
    q = c['q'] if rnd.random() < 0.6 else rnd.choice(EXTRA)
    news = [rnd.choice(NEW) for _ in range(rnd.choice([1, 2, 3, 4]))]
    print(json.dumps({'q': q, 'doc': c['doc'], 'tdoc': c['tdoc'], 'news': news, 'tnews': [tag(v) for v in news]}, ensure_ascii=False))
