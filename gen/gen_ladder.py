#!/usr/bin/env python3
"""C08: nesting ladders (harness only, isolated processes). gen_ladder.py <tier>"""
import sys, json
tier = sys.argv[1] if len(sys.argv) > 1 else 'quick'
depths = [10, 100, 1000, 10000] + ([100000] if tier == 'thorough' else [])
def doc_nested(n):
    return json.loads('[' * n + ']' * n)
# exponential backtracking: a function argument that fails to parse is re-tried through three grammar routes at every level
for n in [6, 12, 24]:
    print(json.dumps({'mode': 'parse', 'shape': 'fn-nesting-failing-argument', 'depth': n, 'q': '$[?' + 'f(' * n + '1==1' + ')' * n + ']'}))
for n in depths:
    shapes = {
        'parens': ('parse', '$[?' + '(' * n + '@.a' + ')' * n + ']', None),
        'not-parens': ('parse', '$[?' + '!(' * n + '@.a' + ')' * n + ']', None),
        'nested-filters': ('parse', '$' + '[?@' * n + ']' * n, None),
        'segments': ('parse', '$' + '[0]' * n, None),
        'descendants': ('parse', '$' + '..a' * n, None),
        'union': ('parse', '$[' + ','.join(['0'] * n) + ']', None),
        'and-chain': ('parse', '$[?' + '&&'.join(['@.a'] * n) + ']', None),
        'fn-nesting': ('parse', '$[?' + 'length(' * 1 + 'value(' * 0 + '@' + ')' + '==1' + ']', None),
    }
    for shape, (mode, q, d) in shapes.items():
        print(json.dumps({'mode': mode, 'shape': shape, 'depth': n, 'q': q}))
    if n <= 1000:
        d = doc_nested(min(n, 100))   # serde_json's own recursion limit is 128
        print(json.dumps({'mode': 'eval', 'shape': 'deep-doc-descendant', 'depth': n, 'q': '$..*', 'doc': d}))
        print(json.dumps({'mode': 'eval', 'shape': 'long-path', 'depth': n, 'q': '$' + '[0]' * n, 'doc': d}))
        print(json.dumps({'mode': 'eval', 'shape': 'wide-array-slice', 'depth': n, 'q': '$[::-1]', 'doc': list(range(n))}))
