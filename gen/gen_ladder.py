#!/usr/bin/env python3
"""C08: nesting ladders (harness only, isolated processes). gen_ladder.py <tier>"""
import sys, json
tier = sys.argv[1] if len(sys.argv) > 1 else 'quick'
depths = [10, 100, 1000, 10000] + ([100000] if tier == 'thorough' else [])
def doc_nested(n):
    return json.loads('[' * n + ']' * n)
# exponential backtracking: a function argument that fails to parse is re-tried through three grammar routes at every level
for n in [6, 12, 24]:
    print(json.dumps({'mode': 'parse', 'shape': 'fn-nesting-failing-argument', 'depth': n, 'q': '$[?' + 'f(' * n + '1==1' + ')' * n + ']'}))
    # the same doubling for a VALID query: a function call in test position is parsed under comp_expr and again under test_expr
    qq = '1'
    for _ in range(n): qq = 'f(' + qq + '==1)'
    print(json.dumps({'mode': 'parse', 'shape': 'fn-nesting-comparison-argument', 'depth': n, 'q': '$[?' + qq + ']'}))
    print(json.dumps({'mode': 'parse', 'shape': 'fn-nesting-through-filters', 'depth': n, 'q': '$[?' + 'f(@[?' * n + '@' + '])' * n + ']'}))
for n in depths:
    shapes = {
        'parens': ('parse', '$[?' + '(' * n + '@.a' + ')' * n + ']', None),
        'not-parens': ('parse', '$[?' + '!(' * n + '@.a' + ')' * n + ']', None),
        'nested-filters': ('parse', '$' + '[?@' * n + ']' * n, None),
        'segments': ('parse', '$' + '[0]' * n, None),
        'descendants': ('parse', '$' + '..a' * n, None),
        'union': ('parse', '$[' + ','.join(['0'] * n) + ']', None),
        'and-chain': ('parse', '$[?' + '&&'.join(['@.a'] * n) + ']', None),
        'fn-nesting': ('parse', '$[?' + 'length(' * 1 + 'value(' * 0 + '@' + ')' + '==1' + ']', None),
    }
    for shape, (mode, q, d) in shapes.items():
        print(json.dumps({'mode': mode, 'shape': shape, 'depth': n, 'q': q}))
    if n <= 1000:
        d = doc_nested(min(n, 100))   # serde_json's own recursion limit is 128
        print(json.dumps({'mode': 'eval', 'shape': 'deep-doc-descendant', 'depth': n, 'q': '$..*', 'doc': d}))
        print(json.dumps({'mode': 'eval', 'shape': 'long-path', 'depth': n, 'q': '$' + '[0]' * n, 'doc': d}))
        print(json.dumps({'mode': 'eval', 'shape': 'wide-array-slice', 'depth': n, 'q': '$[::-1]', 'doc': list(range(n))}))

# wide documents: work that is linear in the width must not recurse per element (stack) nor take super-linear time
for n in [1000, 20000, 200000] + ([1000000] if tier == 'thorough' else []):
    arr = [0] * n; obj = {'k%d' % i: i for i in range(n)}; txt = 'a' * n
    wide = {
        'wide-array-equality': ('$[?@==$[0]]', [arr, arr, arr[:-1] + [1]]),
        'wide-array-order': ('$[?@<=$[0]]', [arr, arr]),
        'wide-array-inequality': ('$[?@!=$[0]]', [arr, arr[:-1] + [1]]),
        'wide-nested-array-equality': ('$[?@==$[0]]', [[arr], [arr]]),
        # (object equality is quadratic in the member count in the crate, which is slow but not a hang: kept small)
        'wide-object-equality': ('$[?@==$[0]]', [dict(list(obj.items())[:5000]), dict(reversed(list(obj.items())[:5000]))]),
        'long-string-equality': ('$[?@==$[0]]', [txt, txt, txt[:-1] + 'b']),
        'long-string-order': ('$[?@<$[0]]', [txt + 'b', txt, txt + 'a']),
        'long-string-length': ('$[?length(@)>1]', [txt, 'é' * n]),
        'long-regex-subject': ("$[?match(@,'a*')]", [txt, txt + 'b']),
        'long-search-subject': ("$[?search(@,'b')]", [txt, txt + 'b']),
        'wide-wildcard': ('$[*]', arr), 'wide-descendants': ('$..*', [arr, obj]), 'wide-member-wildcard': ('$.*', obj),
        'wide-count': ('$[?count(@.*)>1]', [arr, obj]), 'wide-length': ('$[?length(@)>1]', [arr, obj]),
        'wide-in-list': ('$.e[?in(@,$.l)]', {'e': [0, 1, 'x'], 'l': arr}),
        'wide-filter': ('$[?@==0]', arr), 'wide-slice': ('$[1:-1:2]', arr), 'wide-name-lookup': ("$['k%d']" % (n - 1), obj),
    }
    for shape, (q, d) in wide.items():
        print(json.dumps({'mode': 'run', 'shape': shape, 'depth': n, 'q': q, 'doc': d}))
for n in [300, 1500]:
    arr = list(range(n))
    for shape, (q, d) in {'wide-subset': ('$.e[?subset_of(@,$.l)]', {'e': [arr, arr[::-1]], 'l': arr}), 'wide-any-of': ('$.e[?any_of(@,$.l)]', {'e': [arr[::-1]], 'l': arr}),
                          'wide-none-of': ('$.e[?none_of(@,$.l)]', {'e': [['x'] * n], 'l': arr})}.items():
        print(json.dumps({'mode': 'run', 'shape': shape, 'depth': n, 'q': q, 'doc': d}))

# documents nested deeper than any JSON text the crate's parser reads (built in code by the harness, `wrap`): recursion over the document
for n in [1000, 10000] + ([30000] if tier == 'thorough' else []):
    deepdocs = {
        'deep-doc-control': ('$[0]', False),                 # no recursion in the crate: tells a limit of the harness (building / dropping the value) from one of the crate
        'deep-doc-descendant': ('$..*', False),
        'deep-doc-descendant-filter': ('$..[?@ == 1]', False),
        'deep-doc-child-chain': ('$' + '[0]' * 50, False),
        'deep-doc-equality': ('$[?@==$[0]]', True),
        'deep-doc-length': ('$[?length(@)==1]', True),
    }
    for shape, (q, dup) in deepdocs.items():
        print(json.dumps({'mode': 'run', 'shape': shape, 'depth': n, 'q': q, 'doc': 0, 'wrap': ['[]'] * n, 'dup': dup}))

# comparisons nested inside the arguments of count()/value(), as deep as the document: every operand must be evaluated once per level
for n in [10, 20, 40]:
    for op in ('>=', '<=', '==', '<'):
        q = '@ %s 1' % op
        for _ in range(n): q = 'count(@[?%s]) %s 1' % (q, op)
        print(json.dumps({'mode': 'run', 'shape': 'nested-count-comparisons' + op, 'depth': n, 'q': '$[?' + q + ']', 'doc': 1, 'wrap': ['[]'] * (n + 2)}))
    q = '@ >= 1'
    for _ in range(n): q = 'value(@[?%s]) >= 1' % q
    print(json.dumps({'mode': 'run', 'shape': 'nested-value-comparisons', 'depth': n, 'q': '$[?' + q + ']', 'doc': 1, 'wrap': ['[]'] * (n + 2)}))
