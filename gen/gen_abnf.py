#!/usr/bin/env python3
"""Sentences derived from the RFC 9535 ABNF (well-typed by construction) and their near misses.
gen_abnf.py <seed> <n>: about half of the output lines are sentences, half single-edit / token-level mutants.
Line protocol: TAB, LF, CR are written as \\T, \\N, \\R (the harness and the Lean driver undo that)."""
import sys, random
rnd = random.Random(int(sys.argv[1]) * 2654435761 % (2 ** 31) + 11); N = int(sys.argv[2])
M = 2 ** 53 - 1
BS = chr(92)
def S(p=0.2):
    if rnd.random() >= p: return ''
    return ''.join(rnd.choice([' ', ' ', BS + 'T', BS + 'N', BS + 'R']) for _ in range(rnd.choice([1, 1, 2])))
def hex4(cp):
    h = '%04X' % cp
    r = rnd.random()
    return h if r < 0.4 else (h.lower() if r < 0.8 else ''.join(rnd.choice([c.upper(), c.lower()]) for c in h))
def esc(q):
    r = rnd.random()
    if r < 0.5: return BS + rnd.choice(['b', 'f', 'n', 'r', 't', '/', BS, q])
    if r < 0.8: return BS + 'u' + hex4(rnd.choice([0x41, 0xE9, 0x263A, 0x0, 0x1F, 0xD7FF, 0xE000, 0xFFFF, 0xABCD, 0x00e9, 0xC0DE, 0xFEFF]))
    return BS + 'u' + hex4(rnd.choice([0xD800, 0xD83D, 0xDBFF, 0xDA00])) + BS + 'u' + hex4(rnd.choice([0xDC00, 0xDE00, 0xDFFF, 0xDCAB]))
PLAINCH = list('abcxyzAZ019 _-.*[](){}$@?!<>=&|,:+~/#%^`;') + ['é', '☺', '𝄞', ' ', ' ', '퟿', '', '\U0010ffff']
# string bodies that look like query syntax: wherever the parser re-reads matched text they must stay inert
LOOKALIKE = ['. ', ' .', 'Mr. X', 'e. g.', '.. a', 'a .b', '[ 0]', '[0] ', 'a, b', '?(@)', '@ .a', '$ .', 'a == b', '&& ', '1 :2', 'length (', 'x .y . z', ' a', 'a ', '(', ')', '!', '$', '@', '*', '..', '0', '-1', '1:2', 'true', 'null']
def strlit():
    q = rnd.choice(["'", '"'])
    other = '"' if q == "'" else "'"
    if rnd.random() < 0.12: return q + rnd.choice(LOOKALIKE) + q
    body = ''
    for _ in range(rnd.choice([0, 1, 1, 2, 3, 5])):
        r = rnd.random()
        if r < 0.7: body += rnd.choice(PLAINCH)
        elif r < 0.78: body += other
        else: body += esc(q)
    return q + body + q
NAMEFIRST = list('abcxyzAZ_') + ['é', '☺', '𝄞', '\u0080', '퟿', '', '\U0010ffff', ' ', ' ']
def shorthand():
    return rnd.choice(NAMEFIRST) + ''.join(rnd.choice(NAMEFIRST + list('0123456789')) for _ in range(rnd.choice([0, 0, 1, 2, 4])))
def integer():
    return str(rnd.choice([0, 0, 1, 1, 2, 3, 7, 10, 42, -1, -1, -2, -10, M, -M, M - 1, 100, 999999]))
def number():
    r = rnd.random()
    if r < 0.3: return integer()
    ip = rnd.choice(['0', '-0', '1', '-1', '12', '100', '-7', str(M)])
    frac = ('.' + rnd.choice(['0', '5', '25', '000', '125', '75'])) if rnd.random() < 0.6 else ''
    exp = (rnd.choice(['e', 'E']) + rnd.choice(['', '+', '-']) + rnd.choice(['0', '1', '2', '3', '10', '02'])) if rnd.random() < 0.5 else ''
    if not frac and not exp: frac = '.0'
    return ip + frac + exp
def literal(): return rnd.choice([number, number, strlit, strlit, lambda: 'true', lambda: 'false', lambda: 'null'])()
def singular(d=0):
    s = rnd.choice(['@', '@', '$'])
    for _ in range(rnd.choice([0, 1, 1, 2, 3])):
        s += S(0.15)
        r = rnd.random()
        if r < 0.4: s += '.' + shorthand()
        elif r < 0.7: s += '[' + strlit() + ']'
        else: s += '[' + integer() + ']'
    return s
def fn_value(d):
    r = rnd.random()
    if r < 0.4: return 'length(' + S() + value_arg(d + 1) + S() + ')'
    if r < 0.7: return 'count(' + S() + nodes_arg(d + 1) + S() + ')'
    return 'value(' + S() + nodes_arg(d + 1) + S() + ')'
def fn_logical(d):
    return rnd.choice(['match', 'search']) + '(' + S() + value_arg(d + 1) + S() + ',' + S() + value_arg(d + 1) + S() + ')'
def value_arg(d):
    r = rnd.random()
    if r < 0.35 or d > 3: return literal()
    if r < 0.8: return singular(d)
    return fn_value(d)
def nodes_arg(d): return query(d, rel=rnd.random() < 0.8)
def comparable(d):
    r = rnd.random()
    if r < 0.4: return literal()
    if r < 0.85 or d > 3: return singular(d)
    return fn_value(d)
def basic(d):
    r = rnd.random()
    if r < 0.35: return comparable(d) + S() + rnd.choice(['==', '!=', '<', '<=', '>', '>=']) + S() + comparable(d)
    if r < 0.65: return rnd.choice(['', '', '!' + S()]) + query(d + 1, rel=rnd.random() < 0.75)
    if r < 0.78: return rnd.choice(['', '!' + S()]) + fn_logical(d)
    if d < 3: return rnd.choice(['', '!' + S()]) + '(' + S() + logical(d + 1) + S() + ')'
    return '@'
def logical(d):
    return (S() + '||' + S()).join((S() + '&&' + S()).join(basic(d) for _ in range(rnd.choice([1, 1, 1, 2, 3]))) for _ in range(rnd.choice([1, 1, 1, 2])))
def selector(d):
    r = rnd.random()
    if r < 0.25: return strlit()
    if r < 0.35: return '*'
    if r < 0.5: return integer()
    if r < 0.75:
        a = rnd.choice(['', integer() + S()]); b = rnd.choice(['', integer() + S()])
        c = rnd.choice(['', ':', ':' + S() + integer()])
        return a + ':' + S() + b + c
    if d < 3: return '?' + S() + logical(d + 1)
    return '*'
def bracketed(d):
    return '[' + S() + (S() + ',' + S()).join(selector(d) for _ in range(rnd.choice([1, 1, 1, 2, 3]))) + S() + ']'
def segment(d):
    r = rnd.random()
    if r < 0.3: return '.' + rnd.choice([shorthand(), shorthand(), '*'])
    if r < 0.45: return '..' + rnd.choice([shorthand(), '*', bracketed(d)])
    return bracketed(d)
def query(d=0, rel=False):
    s = '@' if rel else '$'
    for _ in range(rnd.choice([0, 1, 1, 2, 3] if d else [0, 1, 2, 2, 3, 4])): s += S(0.15) + segment(d)
    return s
INSERT = [' ', BS + 'T', BS + 'N', ',', '.', '[', ']', '(', ')', '?', '!', '@', '$', '*', ':', '0', '1', '9', '-', 'a', 'e', "'", '"', BS, '=', '<', '&', '|', '+', ' ', BS + 'u', 'D', 'x']
def mutate(s):
    if not s: return s
    r = rnd.random(); i = rnd.randrange(len(s))
    if r < 0.28: return s[:i] + s[i + 1:]
    if r < 0.62: return s[:i] + rnd.choice(INSERT) + s[i:]
    if r < 0.8: return s[:i] + rnd.choice(INSERT) + s[i + 1:]
    # token-level edits
    t = rnd.choice(['leadzero', 'negzero', 'bigint', 'dropparen', 'opswap', 'fnname', 'dropquote', 'lonesurr', 'ctl', 'illtyped', 'illtyped', 'illtyped', 'embedded', 'embedded', 'embedded', 'cmpnonsing', 'cmpnonsing', 'trailing', 'leading'])
    if t == 'leadzero': return s.replace('[1', '[01', 1).replace(':1', ':01', 1) if ('[1' in s or ':1' in s) else s + '[01]'
    if t == 'negzero': return s + '[-0]'
    if t == 'bigint': return s + rnd.choice(['[%d]' % (M + 1), '[%d]' % (-M - 1), '[:%d]' % (M + 1), '[?@[%d]==1]' % (M + 1), '[18446744073709551616]'])
    if t == 'dropparen': return s.replace(')', '', 1) if ')' in s else s + '('
    if t == 'opswap': return s.replace('==', rnd.choice(['=', '===', '=<', '<>']), 1) if '==' in s else s + '[?@=1]'
    if t == 'fnname': return s.replace('length', rnd.choice(['Length', 'len gth', 'length ', '1ength', 'lengthx']), 1) if 'length' in s else s + '[?Foo(@)]'
    if t == 'dropquote': return s.replace("'", '', 1) if "'" in s else s + "['a]"
    if t == 'lonesurr': return s + "['" + BS + "u" + rnd.choice(['D800', 'DC00', 'd83d', 'DFFF']) + rnd.choice(['', 'x', BS + 'u0041']) + "']"
    if t == 'ctl': return s + "['" + rnd.choice(['\x01', '\x1f', BS + 'T', '\x7f']) + "']"
    if t == 'illtyped':
        # every way of breaking the type rules of RFC 9535 2.4.3, with both roots
        X = rnd.choice(['@', '$'])
        nonsing = X + rnd.choice(['.*', '..a', '[0,1]', '[0:1]', '[?@.a]', '[*]', "['a','b']", '.a.*', '.a[1:]', '..[0]'])
        logical = rnd.choice(["match(@,'a')", "search(@.a,'b')", "match($.a, @.b)"])
        valuef = rnd.choice(['length(@)', 'count(@.*)', 'value(@.a)', 'length($.a)', 'count($..a)'])
        forms = ['[?length(%s)==1]' % nonsing, "[?match(%s,'a')]" % nonsing, "[?match(@.a,%s)]" % nonsing, "[?search(%s,'a')]" % nonsing, "[?search(@,%s)]" % nonsing,
                 '[?count(%s)==1]' % rnd.choice(['1', "'a'", 'true', 'null', valuef, logical]), '[?value(%s)==1]' % rnd.choice(['1', "'a'", 'null', valuef, logical]),
                 '[?length(%s)==1]' % logical, "[?match(@,%s)]" % logical, '[?%s==true]' % logical, '[?1==%s]' % logical, '[?%s!=%s]' % (logical, logical),
                 '[?%s]' % valuef, '[?!%s]' % valuef, '[?@.a && %s]' % valuef, '[?(%s)]' % valuef,
                 '[?length(@,@)==1]', '[?count()==1]', '[?search(@)]', "[?match(@,'a','b')]", '[?value()==1]', '[?length()==1]', '[?length(@.a,)==1]', '[?in(@)]'.replace('in', 'length')]
        return s + rnd.choice(forms)
    if t == 'embedded':
        # an atom that only the AST builder rejects, next to atoms that could tempt a builder into not looking at it (constant-true / constant-false / plain operands)
        bad = rnd.choice(['length(@.*)==1', 'count(1)==1', 'count(@.a)', '!length(@)', "match(@,'a')==true", '@. a', '@.. a', 'length (@)==1', '@[%d]==1' % (M + 1), '@[01]==1', '@[-0]==1',
                          '@.a==@.*', '$..a==1', 'value(@..a)', "search(@)", 'length(@,@)==1', '@.a in @.b', '1', "'a'", 'true'])
        good = rnd.choice(['1==1', "'a'=='a'", 'null==null', 'true==true', '2.5==2.5', '1==2', "'a'=='b'", '1!=1', '1<=1', '@.a', '!@.a', '@.a==1', "match(@.a,'x')", '(1==1)', '1==1.0'])
        op = rnd.choice(['||', '&&', ' || ', ' && '])
        form = rnd.choice(['[?%s%s%s]' % (good, op, bad), '[?%s%s%s]' % (bad, op, good), '[?%s%s(%s)]' % (good, op, bad), '[?!(%s)%s%s]' % (good, op, bad), '[?%s%s%s%s%s]' % (good, op, good, op, bad)])
        return s + form
    if t == 'cmpnonsing': return s + rnd.choice(['[?@.*==1]', '[?@..a==1]', '[?@[0,1]==1]', '[?@[0:1]==1]', '[?@[?@.a]==1]', '[?1==$..a]', '[?(@.a)==1]', '[?@.a==(1)]', '[?!@.a==1]', '[?1]', "[?'a']", '[?true]', '[?null==null]'])
    if t == 'trailing': return s + rnd.choice([' ', BS + 'T', BS + 'N', '.', '..', '[', ',', ' '])
    return rnd.choice([' ', BS + 'N', ' ', '$']) + s
for k in range(N):
    q = query()
    r = rnd.random()
    if r < 0.45: q = mutate(q)
    elif r < 0.5: q = mutate(mutate(q))
    print(q.replace('\t', BS + 'T').replace('\n', BS + 'N').replace('\r', BS + 'R'))
