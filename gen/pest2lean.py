#!/usr/bin/env python3
"""Translate a .pest grammar into Lean PEG-combinator definitions that mirror pest_generator's output.
Usage: pest2lean.py grammar.pest Namespace [LakePackage] > PestGrammar.lean"""
import sys, re

BUILTIN = {
    'ASCII_DIGIT': "prange '0' '9'",
    'ASCII_NONZERO_DIGIT': "prange '1' '9'",
    'ASCII_ALPHA': "(prange 'a' 'z' // prange 'A' 'Z')",
    'ASCII_ALPHA_LOWER': "prange 'a' 'z'",
    'ASCII_ALPHA_UPPER': "prange 'A' 'Z'",
    'ASCII_HEX_DIGIT': "(prange '0' '9' // prange 'a' 'f' // prange 'A' 'F')",
    'ANY': "pany",
    'SOI': "psoi",
    'EOI': "peoi",
}

class Tok:
    def __init__(s, kind, val): s.kind, s.val = kind, val
    def __repr__(s): return f"{s.kind}:{s.val!r}"

def lex(src):
    toks = []; i = 0; n = len(src)
    while i < n:
        c = src[i]
        if c.isspace(): i += 1; continue
        if src.startswith('//', i):
            j = src.find('\n', i); i = n if j < 0 else j; continue
        if src.startswith('/*', i):
            j = src.find('*/', i); i = j + 2; continue
        if c == '"':
            j = i + 1; out = []
            while src[j] != '"':
                if src[j] == '\\':
                    e = src[j+1]
                    if e == 'u':  # \u{XXXX}
                        k = src.index('}', j); out.append(chr(int(src[j+3:k], 16))); j = k + 1; continue
                    out.append({'n':'\n','t':'\t','r':'\r','\\':'\\','"':'"',"'":"'",'0':'\0'}[e]); j += 2; continue
                out.append(src[j]); j += 1
            toks.append(Tok('str', ''.join(out))); i = j + 1; continue
        if c == "'":
            j = i + 1
            if src[j] == '\\':
                e = src[j+1]
                if e == 'u':
                    k = src.index('}', j); ch = chr(int(src[j+3:k], 16)); j = k + 1
                else:
                    ch = {'n':'\n','t':'\t','r':'\r','\\':'\\','"':'"',"'":"'",'0':'\0'}[e]; j += 2
            else:
                ch = src[j]; j += 1
            assert src[j] == "'", src[i:i+20]
            toks.append(Tok('chr', ch)); i = j + 1; continue
        if src.startswith('..', i): toks.append(Tok('op', '..')); i += 2; continue
        if c in '={}()|~*+?!&@$_^,':
            # '_' may start an identifier
            if c == '_' and i + 1 < n and (src[i+1].isalnum() or src[i+1] == '_'):
                pass
            else:
                toks.append(Tok('op', c)); i += 1; continue
        m = re.match(r'[A-Za-z_][A-Za-z0-9_]*', src[i:])
        if m: toks.append(Tok('id', m.group(0))); i += len(m.group(0)); continue
        m = re.match(r'[0-9]+', src[i:])
        if m: toks.append(Tok('num', int(m.group(0)))); i += len(m.group(0)); continue
        raise SystemExit(f"lex error at {src[i:i+20]!r}")
    return toks

class P:
    def __init__(s, toks): s.t = toks; s.i = 0
    def peek(s): return s.t[s.i] if s.i < len(s.t) else Tok('eof', None)
    def next(s): t = s.peek(); s.i += 1; return t
    def eat(s, kind, val=None):
        t = s.next()
        assert t.kind == kind and (val is None or t.val == val), (t, kind, val)
        return t
    def rules(s):
        out = []
        while s.peek().kind != 'eof':
            name = s.eat('id').val; s.eat('op', '=')
            mod = ''
            if s.peek().kind == 'op' and s.peek().val in '_@$!': mod = s.next().val
            s.eat('op', '{'); e = s.expr(); s.eat('op', '}')
            out.append((name, mod, e))
        return out
    def expr(s):
        l = s.seq()
        if s.peek().kind == 'op' and s.peek().val == '|':
            s.next(); r = s.expr(); return ('choice', l, r)   # right-nested, as pest's rotator produces
        return l
    def seq(s):
        l = s.postfix()
        if s.peek().kind == 'op' and s.peek().val == '~':
            s.next(); r = s.seq(); return ('seq', l, r)
        return l
    def postfix(s):
        e = s.prefix()
        while s.peek().kind == 'op' and s.peek().val in '*+?{':
            o = s.next().val
            if o == '*': e = ('rep', e)
            elif o == '+': e = ('seq', e, ('rep', e))        # unroller: e+ = e ~ e*
            elif o == '?': e = ('opt', e)
            else:
                n = s.eat('num').val; s.eat('op', '}')       # e{n} = e ~ e ~ ... (exact repetition only)
                r = e
                for _ in range(n - 1): r = ('seq', e, r)
                e = r
        return e
    def prefix(s):
        t = s.peek()
        if t.kind == 'op' and t.val == '!': s.next(); return ('not', s.prefix())
        if t.kind == 'op' and t.val == '&': s.next(); return ('and', s.prefix())
        return s.atom()
    def atom(s):
        t = s.next()
        if t.kind == 'op' and t.val == '(':
            e = s.expr(); s.eat('op', ')'); return e
        if t.kind == 'op' and t.val == '^':
            return ('insens', s.eat('str').val)
        if t.kind == 'str': return ('str', t.val)
        if t.kind == 'chr':
            s.eat('op', '..'); hi = s.eat('chr').val; return ('range', t.val, hi)
        if t.kind == 'id': return ('id', t.val)
        raise SystemExit(f"parse error at {t}")

def lean_char(c):
    o = ord(c)
    if c == "'": return "'\\''"
    if c == '\\': return "'\\\\'"
    if 0x20 <= o < 0x7f: return f"'{c}'"
    return f"(Char.ofNat 0x{o:X})"

def lean_str(sv):
    return "[" + ", ".join(lean_char(c) for c in sv) + "]"

def refs(e, acc):
    if e[0] == 'id': acc.add(e[1])
    for x in e[1:]:
        if isinstance(x, tuple): refs(x, acc)
    return acc

def emit(e, ref):
    k = e[0]
    if k == 'str': return f"pstr {lean_str(e[1])}"
    if k == 'insens': return f"pinsens {lean_str(e[1])}"
    if k == 'range': return f"prange {lean_char(e[1])} {lean_char(e[2])}"
    if k == 'id': return ref(e[1])
    if k == 'seq': return f"({emit(e[1], ref)} ~~ {emit(e[2], ref)})"
    if k == 'choice': return f"({emit(e[1], ref)} // {emit(e[2], ref)})"
    if k == 'opt': return f"popt ({emit(e[1], ref)})"
    if k == 'rep': return f"prep ({emit(e[1], ref)})"
    if k == 'not': return f"pnot ({emit(e[1], ref)})"
    if k == 'and': return f"pand ({emit(e[1], ref)})"
    raise SystemExit(k)

def sccs(graph):
    index = {}; low = {}; stack = []; on = set(); out = []; counter = [0]
    sys.setrecursionlimit(10000)
    def visit(v):
        index[v] = low[v] = counter[0]; counter[0] += 1; stack.append(v); on.add(v)
        for w in graph[v]:
            if w not in index: visit(w); low[v] = min(low[v], low[w])
            elif w in on: low[v] = min(low[v], index[w])
        if low[v] == index[v]:
            comp = []
            while True:
                w = stack.pop(); on.discard(w); comp.append(w)
                if w == v: break
            out.append(comp)
    for v in graph:
        if v not in index: visit(v)
    return out  # reverse topological order: dependencies first

def main():
    src = open(sys.argv[1]).read(); ns = sys.argv[2]; pkg = sys.argv[3] if len(sys.argv) > 3 else ns
    rules = P(lex(src)).rules()
    names = [r[0] for r in rules]
    byname = {r[0]: r for r in rules}
    graph = {n: sorted(x for x in refs(byname[n][2], set()) if x in byname) for n in names}
    comps = sccs(graph)
    recursive = set()
    for c in comps:
        if len(c) > 1 or c[0] in graph[c[0]]: recursive.update(c)
    # every rule that can reach a recursive rule needs fuel as well
    changed = True
    while changed:
        changed = False
        for n in names:
            if n not in recursive and any(x in recursive for x in graph[n]):
                recursive.add(n); changed = True
    kind = {'': 'normal', '_': 'silent', '@': 'atomic', '$': 'compound', '!': 'nonatomic'}
    visible = [n for n in names if byname[n][1] != '_'] + ['EOI']
    print("-- GENERATED by pest2lean.py from the .pest grammar; do not edit.")
    print(f"import {pkg}.PegCore\nnamespace {ns}\nnamespace Pest\n")
    print("inductive RuleId where\n  | " + " | ".join('r_' + n for n in visible) + "\n  deriving Repr, DecidableEq, Inhabited\n")
    print("abbrev PEG := PEGR RuleId\ndef peoi : PEG := peoiWith RuleId.r_EOI\n")
    def wrap(n, body):
        mod = byname[n][1]
        if mod == '_': return f"psilent ({body})"
        return f"prule .r_{n} .{kind[mod]} ({body})"
    def ref_plain(x):
        if x in BUILTIN and x not in byname: return BUILTIN[x]
        if x in recursive: raise SystemExit(f"non-recursive rule refers to recursive rule {x}")
        return x + "_"
    # non-recursive rules, dependencies first
    for c in comps:
        n = c[0]
        if n in recursive: continue
        print(f"def {n}_ : PEG := {wrap(n, emit(byname[n][2], ref_plain))}")
    print()
    rec = [n for n in names if n in recursive]
    print("inductive NT where\n  | " + " | ".join("n_" + x for x in rec) + "\n")
    def ref_rec(x):
        if x in BUILTIN and x not in byname: return BUILTIN[x]
        if x in recursive: return f"g n .n_{x}"
        return x + "_"
    print("def g : Nat → NT → PEG\n  | 0, _ => pfail")
    for n in rec:
        print(f"  | n+1, .n_{n} => {wrap(n, emit(byname[n][2], ref_rec))}")
    print("\ndef entry (fuel : Nat) : PEG := " + ("g fuel .n_main" if 'main' in recursive else "main_"))
    print("\n/-- one WHITESPACE step, for `hidden::skip`: number of characters consumed -/\ndef wsStep (r : Rest) : Option Nat :=\n  (WHITESPACE_ { atom := .atomic, ws := fun _ => none } 0 r).map (·.pos)")
    print(f"\nend Pest\nend {ns}")
main()
