#!/usr/bin/env python3
"""C06/C08: long queries obtained by repeating the element at a starred position of the RFC 9535 ABNF (`*(S segment)`, `*(S "," S selector)`,
`*(S "||" S logical-and-expr)`, `*(S "&&" S basic-expr)`, `*string-character`, `*name-char`, `*B`). Each case carries the same shape at
n = 3 (`short`): the oracle judges the short string, and repetition at a starred position keeps a valid query valid. gen_pumped.py <tier>"""
import sys, json
tier = sys.argv[1] if len(sys.argv) > 1 else 'quick'
sizes = [300, 1000, 3000] + ([10000] if tier == 'thorough' else [])
def shapes(n):
    idx = lambda k: ','.join(str(i) for i in range(k))
    names = lambda k: ','.join("'k%d'" % i for i in range(k))
    yield 'child-shorthand-segments', '$' + '.a' * n
    yield 'index-segments', '$' + '[0]' * n
    yield 'name-segments', '$' + "['name']" * n
    yield 'mixed-segments', '$' + "['n'][0]" * n
    yield 'wildcard-segments', '$' + '[*]' * n
    yield 'descendant-segments', '$' + '..a' * n
    yield 'blank-separated-segments', '$' + ' .a' * n
    yield 'index-union', '$[' + idx(n) + ']'
    yield 'name-union', '$[' + names(n) + ']'
    yield 'slice-union', '$[' + ','.join('%d:%d' % (i, i + 1) for i in range(n)) + ']'
    yield 'filter-union', '$[' + ','.join('?@.a' for _ in range(n)) + ']'
    yield 'and-chain', '$[?' + '&&'.join('@.a==%d' % i for i in range(n)) + ']'
    yield 'or-chain', '$[?' + '||'.join('@.a==%d' % i for i in range(n)) + ']'
    yield 'exists-and-chain', '$[?' + ' && '.join('@.k%d' % i for i in range(n)) + ']'
    yield 'singular-query-segments', '$[?@' + '.a' * n + '==1]'
    yield 'singular-query-index-segments', '$[?$' + '[0]' * n + "=='x']"
    yield 'function-argument-segments', '$[?length(@' + '.a' * n + ')==1]'
    yield 'long-string-literal', "$[?@.a=='" + 'x' * n + "']"
    yield 'long-quoted-name', "$['" + 'k' * n + "']"
    yield 'long-shorthand-name', '$.' + 'k' * n
    yield 'blank-run', '$[' + ' ' * n + '0' + '\t' * n + ']'
for n in sizes:
    short = dict(shapes(3))
    for shape, q in shapes(n):
        print(json.dumps({'mode': 'pumped', 'shape': shape, 'n': n, 'short': short[shape], 'q': q}))
