#!/usr/bin/env python3
"""C12: histories. gen_hist.py <seed> <n>  -> {"docs","tdocs","queries","ops","threads"}"""
import sys, json, random, os, subprocess
sys.path.insert(0, os.path.join(os.path.dirname(os.path.abspath(__file__)), '..', 'lib'))
from common import tag
seed = int(sys.argv[1]); rnd = random.Random(seed * 101 + 7); N = int(sys.argv[2])
here = os.path.dirname(os.path.abspath(__file__))
pool = [json.loads(l) for l in subprocess.run(['python3', os.path.join(here, 'gen_eval.py'), str(seed + 555), str(max(200, N * 8))], capture_output=True, text=True).stdout.splitlines()]
for _ in range(N):
    picks = rnd.sample(pool, 6)
    docs = [p['doc'] for p in picks[:4]]
    queries = [p['q'] for p in picks] + rnd.sample(['$..*', '$[*]', '$..[?@.a]', '$.a', '$[0,0]', '$[?@==1]', 'not a query', '$[?match(@, "a.*")]', '$[?count(@.*)>0]'], 3)
    # queries that share sub-terms (same regular expression under match and search, same names under different selectors):
    # a cache keyed on too little shows up as a result that depends on what ran before
    pat = rnd.choice(['a', 'ab', 'a.', 'b|a', '[ab]+', 'x*'])
    docs.append([pat, 'x' + pat + 'x', 'ab', 'xabx', 'b', 1, None]); docs.append({'re': pat, 's': ['ab', 'xabx', 'a']})
    fam = ["$[?match(@, '%s')]" % pat, "$[?search(@, '%s')]" % pat, "$.s[?match(@, $.re)]", "$.s[?search(@, $.re)]", '$..a', "$..['a']", '$.a', "$['a']", '$[?@.a]', '$[?@.a==1]']
    rnd.shuffle(fam)
    queries += fam
    # queries the AST builder rejects (ill-typed calls, out-of-range integers): a failure path that leaks state shows up later
    queries += rnd.sample(['$[?length(@.*)==1]', '$[?count(1)==1]', '$[?length(@)]', "$[?match(@.b,'x')==true]", '$[?value(@..a)]', '$[9007199254740992]',
                           '$[?@[9007199254740992]==1]', '$[?!count(@.a)]', "$['\x01']", '$[01]', '$[?(@.a) == 1]'], 4)
    ops = [[rnd.randrange(len(queries)), rnd.randrange(len(docs))] for _ in range(rnd.choice([8, 16, 24]))]
    ops += [[queries.index(q), len(docs) - rnd.choice([1, 2])] for q in fam[:6]]
    ops += rnd.sample(ops, min(4, len(ops)))      # deliberate repetitions
    print(json.dumps({'docs': docs, 'tdocs': [tag(d) for d in docs], 'queries': queries, 'ops': ops, 'threads': rnd.choice([2, 4, 8]), 'repeat': 1}, ensure_ascii=False))
    if _ % 4 == 1:
        # long arrays / wide objects visited sparsely first and densely afterwards (and the other way round): a table filled on demand
        # (index texts, member positions) that is filled wrongly by a jump shows up in the later dense walk
        n = rnd.choice([70, 100, 130, 300])
        arr = [i * 10 for i in range(n)]; obj = {'k%d' % i: i for i in range(n)}
        jump = ['$[-1]', '$[%d]' % (n - 1), '$[::-1]', '$[%d,%d]' % (n - 20, n - 30), '$[%d:%d]' % (n - 36, n - 30), '$[::7]', '$[?@>%d]' % (n * 9), '$..[%d]' % (n - 5), "$['k%d']" % (n - 1), '$.k%d' % (n - 2), '$[?@==%d]' % (n - 1)]
        dense = ['$[*]', '$[60:%d]' % n, '$[:%d]' % n, '$..*', '$.*', '$[64:70]', '$[?@>=0]', '$[::1]']
        qs = jump + dense
        order = [rnd.randrange(len(jump)) for _ in range(3)] + [len(jump) + rnd.randrange(len(dense)) for _ in range(3)] + [rnd.randrange(len(qs)) for _ in range(6)]
        print(json.dumps({'docs': [arr, obj, [arr, obj]], 'tdocs': [tag(arr), tag(obj), tag([arr, obj])], 'queries': qs, 'ops': [[i, rnd.randrange(3)] for i in order], 'threads': rnd.choice([2, 4]), 'repeat': 1}, ensure_ascii=False))
    if _ % 10 == 0:
        # stress history: one shared document with many distinct regular expressions, evaluated many times from 8 threads
        pats = ['a', 'b', 'ab', 'a.', '.b', 'a|b', '[ab]+', 'x*', 'b+', '(a|b)b', 'a?b', '[^a]', 'ab|a', 'c', '.', 'a.*']
        rnd.shuffle(pats)
        d = [{'s': rnd.choice(['ab', 'a', 'b', 'xab', 'bb', '']), 'p': p} for p in pats[:rnd.choice([9, 12, 16])]]
        qs = ['$[?match(@.s, @.p)].s', '$[?search(@.s, @.p)].p', '$[?!match(@.s, @.p)]', "$[?search(@.s, 'a') && match(@.p, '.*')]"]
        print(json.dumps({'docs': [d], 'tdocs': [tag(d)], 'queries': qs, 'ops': [[i, 0] for i in range(len(qs))], 'threads': 8, 'repeat': 60}, ensure_ascii=False))
