#!/usr/bin/env python3
"""Programmatically built queries: random ASTs in the wire format of the dumpers, INCLUDING shapes the parser cannot produce
(empty selector lists, nested descendant segments, unquoted / oddly quoted names, empty and/or lists, ill-typed function
arguments, custom functions of any arity). All integers are in the I-JSON range. gen_ast.py <seed> <n>"""
import sys, json, random, os
sys.path.insert(0, os.path.join(os.path.dirname(os.path.abspath(__file__)), '..', 'lib'))
from common import tag
rnd = random.Random(int(sys.argv[1]) * 977 + 29); N = int(sys.argv[2])
M = 2 ** 53 - 1
def cps(s): return [ord(c) for c in s]
NAMES = ['a', 'b', "'a'", '"a"', "'b'", 'ab', '', "'", "''", '"', "'a", "a'", 'a b', 'é', "'é'", '0', "'0'", 'a"b', "'a\\'b'", '\\', "'\\\\'"]
def integer(): return str(rnd.choice([0, 0, 1, 1, 2, -1, -1, -2, 3, 5, -5, M, -M, M - 1]))
def oint(): return None if rnd.random() < 0.4 else integer()
def lit():
    r = rnd.random()
    if r < 0.3: return {'i': integer()}
    if r < 0.45: return {'fl': [str(rnd.choice([1, 3, -1, 5, 0, 2, 200])), str(rnd.choice([1, 2, 4, 1024]))]}
    if r < 0.7: return {'s': cps(rnd.choice(['a', 'b', '', 'ab', 'é', 'a.', 'a|b', '[ab]+', '(', 'x*']))}
    if r < 0.85: return {'b': rnd.random() < 0.5}
    return None
def sel(d):
    r = rnd.random()
    if r < 0.25: return {'N': cps(rnd.choice(NAMES))}
    if r < 0.35: return 'W'
    if r < 0.5: return {'I': integer()}
    if r < 0.7: return {'L': [oint(), oint(), oint()]}
    if d < 3: return {'F': flt(d + 1)}
    return 'W'
def seg(d, depth=0):
    r = rnd.random()
    if r < 0.15 and depth < 3: return {'D': seg(d, depth + 1)}
    if r < 0.6: return {'S': sel(d)}
    return {'SS': [sel(d) for _ in range(rnd.choice([0, 1, 2, 2, 3]))]}
def segs(d): return [seg(d) for _ in range(rnd.choice([0, 1, 1, 2, 3]))]
def sq(): return {'sq': [rnd.choice(['@', '@', '$']), [({'I': integer()} if rnd.random() < 0.4 else {'N': cps(rnd.choice(NAMES))}) for _ in range(rnd.choice([0, 1, 1, 2]))]]}
def fn(d):
    name = rnd.choice(['length', 'count', 'value', 'match', 'search', 'custom:in', 'custom:nin', 'custom:any_of', 'custom:none_of', 'custom:subset_of', 'custom:foo', 'custom:'])
    k = {'length': 1, 'count': 1, 'value': 1, 'match': 2, 'search': 2}.get(name, rnd.choice([0, 1, 2, 2, 3]))
    return {'name': cps(name), 'args': [arg(d + 1) for _ in range(k)]}
def arg(d):
    r = rnd.random()
    if r < 0.3: return {'lit': lit()}
    if r < 0.8 or d > 3: return {'t': test(d)}
    return {'f': flt(d + 1)}
def test(d):
    r = rnd.random()
    if r < 0.45 or d > 3: return {'rel': segs(d + 1)}
    if r < 0.7: return {'abs': segs(d + 1)}
    return {'fn': fn(d + 1)}
def cmpb(d):
    r = rnd.random()
    if r < 0.35: return {'lit': lit()}
    if r < 0.8 or d > 3: return sq()
    return {'fn': fn(d + 1)}
def atom(d):
    r = rnd.random()
    if r < 0.35: return {'c': [rnd.choice(['==', '!=', '<', '<=', '>', '>=']), cmpb(d), cmpb(d)]}
    if r < 0.75 or d > 3: return {'t': test(d), 'not': rnd.random() < 0.3}
    return {'f': flt(d + 1), 'not': rnd.random() < 0.4}
def flt(d):
    r = rnd.random()
    if r < 0.55 or d > 3: return {'atom': atom(d)}
    k = rnd.choice([0, 1, 2, 2, 3])
    return {rnd.choice(['or', 'and']): [flt(d + 1) for _ in range(k)]}
SCAL = [None, True, False, 0, 1, -1, 2, 1.0, 0.5, '', 'a', 'b', 'ab', 'é']
KEYS = ['a', 'b', 'ab', "'a'", '"a"', 'a b', '', '0', "a'b", "'"]
def doc(depth=0):
    r = rnd.random()
    if depth >= 3 or r < 0.35: return rnd.choice(SCAL)
    if r < 0.68: return [doc(depth + 1) for _ in range(rnd.choice([0, 1, 2, 2, 3]))]
    return {k: doc(depth + 1) for k in rnd.sample(KEYS, rnd.choice([0, 1, 2, 3]))}
for _ in range(N):
    d = doc()
    print(json.dumps({'ast': segs(0), 'doc': d, 'tdoc': tag(d)}, ensure_ascii=False))
